use std::thread;
#[test]
fn oneshot_disconnected_while_value_sent() {
  let mut bad = 0u32; let mut late = 0u32;
  for i in 0..80_000u32 {
    let (tx, rx) = fibre::oneshot::oneshot::<u32>();
    let t = thread::spawn(move || tx.send(7).is_ok());
    let mut spins = 0u32;
    let r = loop {
      match rx.try_recv() {
        Ok(v) => break Some(v),
        Err(fibre::error::TryRecvError::Disconnected) => break None,
        Err(_) => { spins += 1; if spins % 64 == 0 { thread::yield_now(); } }
      }
    };
    let sent = t.join().unwrap();
    if r.is_none() && sent {
      bad += 1;
      if rx.try_recv().is_ok() { late += 1; }
      if bad < 4 { eprintln!("iteration {}: send reported Ok, receiver observed Disconnected first", i); }
    }
  }
  assert_eq!(bad, 0, "Disconnected although a value had been sent successfully: {} times ({} times the value arrived afterwards)", bad, late);
}
