//! Shared machinery for the fibre runtime monitors: PRNG, CLI, chaos controller on the
//! `fibre::verif` hook points, history stamps, stuck-oracle helpers (canary), a manual
//! async stepper, and the shard-result writer consumed by `/verif/check`.

pub mod chaos;
pub mod cli;
pub mod result;
pub mod rng;
pub mod stepper;
pub mod stuck;

use std::sync::atomic::{AtomicU64, Ordering};

/// One global logical clock for call/return stamps. `a.ret < b.call` implies that `a`
/// returned before `b` was invoked in real time.
static STAMP: AtomicU64 = AtomicU64::new(1);

#[inline]
pub fn stamp() -> u64 {
  STAMP.fetch_add(1, Ordering::SeqCst)
}

pub fn reset_stamp() {
  STAMP.store(1, Ordering::SeqCst);
}

/// FNV-1a, used for interleaving / case signatures.
#[derive(Clone, Copy)]
pub struct Fnv(pub u64);
impl Default for Fnv {
  fn default() -> Self {
    Fnv(0xcbf29ce484222325)
  }
}
impl Fnv {
  #[inline]
  pub fn u64(&mut self, v: u64) {
    for b in v.to_le_bytes() {
      self.0 ^= b as u64;
      self.0 = self.0.wrapping_mul(0x100000001b3);
    }
  }
  #[inline]
  pub fn bytes(&mut self, bs: &[u8]) {
    for &b in bs {
      self.0 ^= b as u64;
      self.0 = self.0.wrapping_mul(0x100000001b3);
    }
  }
  pub fn finish(&self) -> u64 {
    self.0
  }
}

/// Extracts a readable message from a panic payload.
pub fn panic_message(p: &(dyn std::any::Any + Send)) -> String {
  if let Some(s) = p.downcast_ref::<&str>() {
    s.to_string()
  } else if let Some(s) = p.downcast_ref::<String>() {
    s.clone()
  } else {
    "<non-string panic payload>".to_string()
  }
}

/// Installs a panic hook that records the location of the last panic per thread instead
/// of printing (monitored calls run inside `catch_unwind`; the location tells library
/// panics from harness bugs).
pub fn install_quiet_panic_hook() {
  std::panic::set_hook(Box::new(|info| {
    let loc = info
      .location()
      .map(|l| format!("{}:{}", l.file(), l.line()))
      .unwrap_or_else(|| "<unknown>".into());
    if std::env::var_os("VH_PANIC_PRINT").is_some() {
      eprintln!("[vh panic] thread {:?}: {}", std::thread::current().name(), info);
    }
    let _ = LAST_PANIC_LOC.try_with(|c| *c.borrow_mut() = loc);
  }));
}

thread_local! {
  static LAST_PANIC_LOC: std::cell::RefCell<String> = const { std::cell::RefCell::new(String::new()) };
}

pub fn last_panic_location() -> String {
  LAST_PANIC_LOC.with(|c| c.borrow().clone())
}
