//! Shard result: what one monitor process observed. `/verif/check` merges the shards of a
//! run into `/verif/evidence/<id>.json`, matches violations against `known_findings.jsonl`
//! and prints the VIOLATION / KNOWN-FINDING lines.

use serde_json::{json, Map, Value};
use std::collections::BTreeSet;

pub struct Violation {
  /// Canonical `<property>/<component>/<rule>/<forms>` signature (no run-specific data).
  pub signature: String,
  pub summary: String,
  pub replay: String,
}

pub struct ShardResult {
  pub prop: String,
  pub engine: String,
  pub seed: u64,
  pub shard: u64,
  pub executions: u64,
  /// Distinct non-trivial case signatures (hex), capped.
  pub nontrivial: BTreeSet<u64>,
  pub nontrivial_overflow: u64,
  pub counters: Map<String, Value>,
  pub samples: Vec<Value>,
  pub violations: Vec<Violation>,
  pub inconclusive: Vec<String>,
  pub notes: Vec<String>,
  pub rule: String,
}

const SIG_CAP: usize = 200_000;

impl ShardResult {
  pub fn new(prop: &str, engine: &str, seed: u64, shard: u64) -> Self {
    ShardResult {
      prop: prop.into(),
      engine: engine.into(),
      seed,
      shard,
      executions: 0,
      nontrivial: BTreeSet::new(),
      nontrivial_overflow: 0,
      counters: Map::new(),
      samples: Vec::new(),
      violations: Vec::new(),
      inconclusive: Vec::new(),
      notes: Vec::new(),
      rule: String::new(),
    }
  }
  pub fn add_nontrivial(&mut self, sig: u64) {
    if self.nontrivial.len() < SIG_CAP {
      self.nontrivial.insert(sig);
    } else if !self.nontrivial.contains(&sig) {
      self.nontrivial_overflow += 1;
    }
  }
  /// Adds to a numeric counter (nested path with '/').
  pub fn count(&mut self, path: &str, n: u64) {
    let mut parts: Vec<&str> = path.split('/').collect();
    let last = parts.pop().unwrap();
    let mut m = &mut self.counters;
    for p in parts {
      let e = m.entry(p.to_string()).or_insert_with(|| Value::Object(Map::new()));
      if !e.is_object() {
        *e = Value::Object(Map::new());
      }
      m = e.as_object_mut().unwrap();
    }
    let cur = m.get(last).and_then(|v| v.as_u64()).unwrap_or(0);
    m.insert(last.to_string(), Value::from(cur + n));
  }
  /// Merges a JSON object of numeric counters under `prefix`.
  pub fn count_obj(&mut self, prefix: &str, v: &Value) {
    fn walk(r: &mut ShardResult, path: String, v: &Value) {
      match v {
        Value::Object(m) => {
          for (k, x) in m {
            walk(r, format!("{}/{}", path, k), x);
          }
        }
        Value::Number(n) => {
          if let Some(u) = n.as_u64() {
            r.count(&path, u);
          }
        }
        _ => {}
      }
    }
    walk(self, prefix.to_string(), v);
  }
  pub fn sample(&mut self, v: Value, cap: usize) {
    if self.samples.len() < cap {
      self.samples.push(v);
    }
  }
  pub fn violation(&mut self, signature: &str, summary: &str, replay_dir: &str, witness: &Value) {
    // One witness file per distinct signature per shard is enough.
    let n = self.violations.iter().filter(|v| v.signature == signature).count();
    let mut replay = self
      .violations
      .iter()
      .find(|v| v.signature == signature)
      .map(|v| v.replay.clone())
      .unwrap_or_default();
    if n == 0 {
      let _ = std::fs::create_dir_all(replay_dir);
      let safe: String = signature
        .chars()
        .map(|c| if c.is_ascii_alphanumeric() || c == '-' || c == '_' { c } else { '_' })
        .collect();
      replay = format!("{}/{}-s{}-sh{}.json", replay_dir, safe, self.seed, self.shard);
      let doc = json!({"property": self.prop, "signature": signature, "summary": summary,
        "seed": self.seed, "shard": self.shard, "engine": self.engine, "witness": witness});
      let _ = std::fs::write(&replay, serde_json::to_string_pretty(&doc).unwrap());
    }
    if n < 50 {
      self.violations.push(Violation { signature: signature.into(), summary: summary.into(), replay });
    } else {
      self.count("violations_beyond_cap", 1);
    }
  }
  pub fn inconclusive(&mut self, why: &str) {
    if self.inconclusive.len() < 200 {
      self.inconclusive.push(why.into());
    }
    self.count("inconclusive_executions", 1);
  }
  pub fn write(&self, out: &str, wall_s: f64) {
    let v = json!({
      "property": self.prop, "engine": self.engine, "seed": self.seed, "shard": self.shard,
      "executions": self.executions,
      "nontrivial": self.nontrivial.iter().map(|s| format!("{:016x}", s)).collect::<Vec<_>>(),
      "nontrivial_overflow": self.nontrivial_overflow,
      "counters": Value::Object(self.counters.clone()),
      "samples": self.samples,
      "violations": self.violations.iter().map(|v| json!({"signature": v.signature,
          "summary": v.summary, "replay": v.replay})).collect::<Vec<_>>(),
      "inconclusive": self.inconclusive,
      "notes": self.notes,
      "rule": self.rule,
      "wall_s": wall_s,
      "complete": true,
    });
    let tmp = format!("{}.tmp", out);
    std::fs::write(&tmp, serde_json::to_string(&v).unwrap()).expect("write shard result");
    std::fs::rename(&tmp, out).expect("rename shard result");
  }
}
