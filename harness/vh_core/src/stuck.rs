//! Helpers for the progress ("stuck") oracle: a scheduler canary and a progress counter.
//! The verdict itself is computed by each engine from its recorded history; wall-clock is
//! only ever used to decide *when to look*, never *what to conclude*.

use std::sync::atomic::{AtomicBool, AtomicU64, Ordering};
use std::sync::Arc;
use std::time::{Duration, Instant};

/// A 1 ms sleeper thread; records the longest observed oversleep ("hiccup") so the stuck
/// oracle can tell "nothing moves because the machine is starved" from "nothing moves".
pub struct Canary {
  stop: Arc<AtomicBool>,
  max_gap_us: Arc<AtomicU64>,
  beats: Arc<AtomicU64>,
  handle: Option<std::thread::JoinHandle<()>>,
}

impl Canary {
  pub fn start() -> Canary {
    let stop = Arc::new(AtomicBool::new(false));
    let max_gap_us = Arc::new(AtomicU64::new(0));
    let beats = Arc::new(AtomicU64::new(0));
    let (s, m, b) = (stop.clone(), max_gap_us.clone(), beats.clone());
    let handle = std::thread::Builder::new()
      .name("vh-canary".into())
      .spawn(move || {
        let mut last = Instant::now();
        while !s.load(Ordering::Relaxed) {
          std::thread::sleep(Duration::from_millis(1));
          let now = Instant::now();
          let gap = now.duration_since(last).as_micros() as u64;
          m.fetch_max(gap, Ordering::Relaxed);
          b.fetch_add(1, Ordering::Relaxed);
          last = now;
        }
      })
      .expect("spawn canary");
    Canary { stop, max_gap_us, beats, handle: Some(handle) }
  }
  /// Resets the window and returns the previous maximum gap in microseconds.
  pub fn reset(&self) -> u64 {
    self.max_gap_us.swap(0, Ordering::Relaxed)
  }
  pub fn max_gap_us(&self) -> u64 {
    self.max_gap_us.load(Ordering::Relaxed)
  }
  pub fn beats(&self) -> u64 {
    self.beats.load(Ordering::Relaxed)
  }
}

impl Drop for Canary {
  fn drop(&mut self) {
    self.stop.store(true, Ordering::Relaxed);
    if let Some(h) = self.handle.take() {
      let _ = h.join();
    }
  }
}

/// Global progress counter bumped by workers after every completed operation.
pub static PROGRESS: AtomicU64 = AtomicU64::new(0);

#[inline]
pub fn progress() {
  PROGRESS.fetch_add(1, Ordering::Relaxed);
}
pub fn progress_value() -> u64 {
  PROGRESS.load(Ordering::Relaxed)
}

// ------------------------------------------------------------------------------------------
// Are the workers of the current execution really asleep? A stuck verdict needs threads that
// are *parked* (kernel state S through a whole sampling window), not threads that are runnable
// but get no CPU on an overloaded machine, or that spin. Linux only; elsewhere (and under
// Miri, whose scheduler is fair) the question is answered with `None` = unknown.

static WORKERS: std::sync::Mutex<Vec<u64>> = std::sync::Mutex::new(Vec::new());

fn current_tid() -> Option<u64> {
  if cfg!(miri) {
    return None;
  }
  let l = std::fs::read_link("/proc/thread-self").ok()?;
  l.file_name()?.to_str()?.parse().ok()
}

/// Kernel thread id of the calling thread (None under Miri / without /proc).
pub fn tid_of_current() -> Option<u64> {
  current_tid()
}

/// Scheduler state letter of one task of this process ('S' sleeping, 'R' runnable, ...).
pub fn task_state(tid: u64) -> Option<char> {
  task_snap(tid).map(|(c, _, _)| c)
}

/// Waits (at most `budget`) until thread `tid` has been seen sleeping in `need` consecutive samples or `stop()` holds.
/// Only a sensitivity aid for scenarios of the form "B must be blocked behind a lock A holds before A goes on":
/// the verdicts of such scenarios never depend on the answer. Returns true when the thread was seen asleep.
pub fn wait_asleep(tid: impl Fn() -> Option<u64>, stop: impl Fn() -> bool, need: u32, budget: Duration) -> bool {
  let t0 = std::time::Instant::now();
  let mut run = 0;
  while t0.elapsed() < budget && !stop() {
    match tid().and_then(task_state) {
      Some('S') => {
        run += 1;
        if run >= need {
          return true;
        }
      }
      _ => run = 0,
    }
    std::thread::sleep(Duration::from_micros(150));
  }
  false
}

/// Registers the calling thread as a worker of the running execution (see `chaos::enter`).
pub fn register_worker() {
  if let Some(t) = current_tid() {
    if let Ok(mut w) = WORKERS.lock() {
      if !w.contains(&t) {
        w.push(t);
      }
    }
  }
}
pub fn deregister_worker() {
  if let Some(t) = current_tid() {
    if let Ok(mut w) = WORKERS.lock() {
      w.retain(|x| *x != t);
    }
  }
}

/// (state, utime+stime in clock ticks, involuntary context switches) of one task
fn task_snap(tid: u64) -> Option<(char, u64, u64)> {
  let s = std::fs::read_to_string(format!("/proc/self/task/{}/stat", tid)).ok()?;
  let r = s.rfind(')')?;
  let f: Vec<&str> = s[r + 1..].split_whitespace().collect();
  // after the ')' the fields are: state(0) ppid(1) ... utime(11) stime(12)
  let state = f.first()?.chars().next()?;
  let cpu = f.get(11)?.parse::<u64>().ok()? + f.get(12)?.parse::<u64>().ok()?;
  let st = std::fs::read_to_string(format!("/proc/self/task/{}/status", tid)).ok()?;
  let nonvol = st
    .lines()
    .find(|l| l.starts_with("nonvoluntary_ctxt_switches"))
    .and_then(|l| l.split_whitespace().last())
    .and_then(|x| x.parse::<u64>().ok())?;
  Some((state, cpu, nonvol))
}

/// Samples the kernel view of every registered worker `samples` times, `spacing` apart.
/// `Some(true)`: every sample of every worker was S (sleeping: parked or in a timed wait), it
/// was never preempted (no involuntary context switch: a `yield_now` loop or a spin shows up
/// here) and used at most one clock tick of CPU over the window;
/// `Some(false)`: some worker was runnable / spinning / yielding (detail says which);
/// `None`: no information (no workers registered, /proc unavailable, Miri).
pub fn workers_asleep(samples: u32, spacing: Duration) -> (Option<bool>, String) {
  let tids: Vec<u64> = match WORKERS.lock() {
    Ok(w) => w.clone(),
    Err(_) => return (None, "registry poisoned".into()),
  };
  if tids.is_empty() {
    return (None, "no registered workers".into());
  }
  struct Seen {
    tid: u64,
    states: String,
    first: Option<(u64, u64)>,
    last: Option<(u64, u64)>,
  }
  let mut seen: Vec<Seen> = tids.iter().map(|t| Seen { tid: *t, states: String::new(), first: None, last: None }).collect();
  let mut known = false;
  for i in 0..samples {
    for s in seen.iter_mut() {
      if let Some((c, cpu, nv)) = task_snap(s.tid) {
        known = true;
        s.states.push(c);
        if s.first.is_none() {
          s.first = Some((cpu, nv));
        }
        s.last = Some((cpu, nv));
      }
    }
    if i + 1 < samples {
      std::thread::sleep(spacing);
    }
  }
  if !known {
    return (None, "/proc task state unavailable".into());
  }
  let mut all = true;
  let mut detail = Vec::new();
  for s in &seen {
    let (dcpu, dnv) = match (s.first, s.last) {
      (Some(a), Some(b)) => (b.0.saturating_sub(a.0), b.1.saturating_sub(a.1)),
      _ => (0, 0),
    };
    // a task that disappeared (thread finished) has fewer samples: it was not parked forever
    let complete = s.states.len() as u32 == samples;
    if !complete || !s.states.chars().all(|c| c == 'S') || dnv != 0 || dcpu > 1 {
      all = false;
    }
    detail.push(format!("{}:{}{} cpu+{} preempt+{}", s.tid, s.states, if complete { "" } else { "(gone)" }, dcpu, dnv));
  }
  (Some(all), detail.join(" "))
}
