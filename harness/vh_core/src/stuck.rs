//! Helpers for the progress ("stuck") oracle: a scheduler canary and a progress counter.
//! The verdict itself is computed by each engine from its recorded history; wall-clock is
//! only ever used to decide *when to look*, never *what to conclude*.

use std::sync::atomic::{AtomicBool, AtomicU64, Ordering};
use std::sync::Arc;
use std::time::{Duration, Instant};

/// A 1 ms sleeper thread; records the longest observed oversleep ("hiccup") so the stuck
/// oracle can tell "nothing moves because the machine is starved" from "nothing moves".
pub struct Canary {
  stop: Arc<AtomicBool>,
  max_gap_us: Arc<AtomicU64>,
  beats: Arc<AtomicU64>,
  handle: Option<std::thread::JoinHandle<()>>,
}

impl Canary {
  pub fn start() -> Canary {
    let stop = Arc::new(AtomicBool::new(false));
    let max_gap_us = Arc::new(AtomicU64::new(0));
    let beats = Arc::new(AtomicU64::new(0));
    let (s, m, b) = (stop.clone(), max_gap_us.clone(), beats.clone());
    let handle = std::thread::Builder::new()
      .name("vh-canary".into())
      .spawn(move || {
        let mut last = Instant::now();
        while !s.load(Ordering::Relaxed) {
          std::thread::sleep(Duration::from_millis(1));
          let now = Instant::now();
          let gap = now.duration_since(last).as_micros() as u64;
          m.fetch_max(gap, Ordering::Relaxed);
          b.fetch_add(1, Ordering::Relaxed);
          last = now;
        }
      })
      .expect("spawn canary");
    Canary { stop, max_gap_us, beats, handle: Some(handle) }
  }
  /// Resets the window and returns the previous maximum gap in microseconds.
  pub fn reset(&self) -> u64 {
    self.max_gap_us.swap(0, Ordering::Relaxed)
  }
  pub fn max_gap_us(&self) -> u64 {
    self.max_gap_us.load(Ordering::Relaxed)
  }
  pub fn beats(&self) -> u64 {
    self.beats.load(Ordering::Relaxed)
  }
}

impl Drop for Canary {
  fn drop(&mut self) {
    self.stop.store(true, Ordering::Relaxed);
    if let Some(h) = self.handle.take() {
      let _ = h.join();
    }
  }
}

/// Global progress counter bumped by workers after every completed operation.
pub static PROGRESS: AtomicU64 = AtomicU64::new(0);

#[inline]
pub fn progress() {
  PROGRESS.fetch_add(1, Ordering::Relaxed);
}
pub fn progress_value() -> u64 {
  PROGRESS.load(Ordering::Relaxed)
}
