//! Manual polling utilities: counting wakers for the deterministic single-threaded async
//! explorer (the "stepper"), and a parking `block_on` for threaded async drivers.
//! Wakers never poll inline (the library may invoke them while holding its own locks).

use std::future::Future;
use std::pin::Pin;
use std::sync::atomic::{AtomicBool, AtomicU64, Ordering};
use std::sync::Arc;
use std::task::{Context, Poll, Wake, Waker};
use std::time::{Duration, Instant};

/// A waker that only counts invocations.
#[derive(Default)]
pub struct Flag {
  pub wakes: AtomicU64,
}

impl Wake for Flag {
  fn wake(self: Arc<Self>) {
    self.wakes.fetch_add(1, Ordering::SeqCst);
  }
  fn wake_by_ref(self: &Arc<Self>) {
    self.wakes.fetch_add(1, Ordering::SeqCst);
  }
}

impl Flag {
  pub fn new() -> Arc<Flag> {
    Arc::new(Flag::default())
  }
  pub fn count(&self) -> u64 {
    self.wakes.load(Ordering::SeqCst)
  }
}

/// Polls `fut` once with a waker backed by `flag`.
pub fn poll_once<F: Future + ?Sized>(fut: Pin<&mut F>, flag: &Arc<Flag>) -> Poll<F::Output> {
  let waker = Waker::from(flag.clone());
  let mut cx = Context::from_waker(&waker);
  fut.poll(&mut cx)
}

/// When set, `block_on` re-polls on every unpark even if its waker was not invoked: the
/// stuck oracle's "spontaneous re-poll" nudge.
pub static FORCE_POLL: AtomicBool = AtomicBool::new(false);
/// Number of polls `block_on` performed only because of `FORCE_POLL` that returned Ready.
pub static FORCED_READY: AtomicU64 = AtomicU64::new(0);

struct ThreadWaker {
  thread: std::thread::Thread,
  woken: AtomicBool,
}

impl Wake for ThreadWaker {
  fn wake(self: Arc<Self>) {
    self.woken.store(true, Ordering::SeqCst);
    self.thread.unpark();
  }
  fn wake_by_ref(self: &Arc<Self>) {
    self.woken.store(true, Ordering::SeqCst);
    self.thread.unpark();
  }
}

/// Drives a future to completion on the current thread, polling only when woken
/// (spurious unparks do not cause a poll). Never gives up: a lost wake blocks this thread,
/// which is what the stuck oracle then observes.
pub fn block_on<F: Future>(fut: F) -> F::Output {
  let mut fut = std::pin::pin!(fut);
  let tw = Arc::new(ThreadWaker { thread: std::thread::current(), woken: AtomicBool::new(true) });
  let waker = Waker::from(tw.clone());
  let mut cx = Context::from_waker(&waker);
  loop {
    let woken = tw.woken.swap(false, Ordering::SeqCst);
    if woken || FORCE_POLL.load(Ordering::SeqCst) {
      if let Poll::Ready(v) = fut.as_mut().poll(&mut cx) {
        if !woken {
          FORCED_READY.fetch_add(1, Ordering::SeqCst);
        }
        return v;
      }
      if !woken {
        std::thread::park();
      }
    } else {
      std::thread::park();
    }
  }
}

/// Polls a future when woken until it completes or `patience` elapses without completion,
/// then drops (cancels) it. Returns `Some(output)` or `None` when cancelled, plus the number
/// of polls. The deadline only decides when to cancel — cancelling is always legal.
pub fn block_on_or_cancel<F: Future>(fut: F, patience: Duration) -> (Option<F::Output>, u32) {
  block_on_or_cancel_ex(fut, patience, false)
}

/// As `block_on_or_cancel`; with `drop_on_wake` the future is dropped at the moment its waker
/// fires after a Pending poll, instead of being polled again ("cancelled after it was woken").
pub fn block_on_or_cancel_ex<F: Future>(fut: F, patience: Duration, drop_on_wake: bool) -> (Option<F::Output>, u32) {
  let mut fut = std::pin::pin!(fut);
  let tw = Arc::new(ThreadWaker { thread: std::thread::current(), woken: AtomicBool::new(true) });
  let waker = Waker::from(tw.clone());
  let mut cx = Context::from_waker(&waker);
  let deadline = Instant::now() + patience;
  let mut polls = 0;
  loop {
    if tw.woken.swap(false, Ordering::SeqCst) {
      if drop_on_wake && polls > 0 {
        return (None, polls);
      }
      polls += 1;
      if let Poll::Ready(v) = fut.as_mut().poll(&mut cx) {
        return (Some(v), polls);
      }
    } else {
      let now = Instant::now();
      if now >= deadline {
        return (None, polls);
      }
      std::thread::park_timeout(deadline - now);
    }
  }
}
