//! Uniform command line for all monitor binaries (spawned by `/verif/check`).
//!
//!   <bin> --prop C01 --tier quick|thorough --seed N --shard I --shards N --out FILE
//!         --budget-s S --replay-dir DIR [--replay FILE] [--key value ...]

use std::collections::BTreeMap;
use std::time::{Duration, Instant};

#[derive(Clone, Debug)]
pub struct Args {
  pub prop: String,
  pub thorough: bool,
  pub seed: u64,
  pub shard: u64,
  pub shards: u64,
  pub out: String,
  pub budget: Duration,
  pub replay_dir: String,
  pub replay: Option<String>,
  pub extra: BTreeMap<String, String>,
  pub start: Instant,
}

impl Args {
  pub fn parse() -> Args {
    let mut a = Args {
      prop: String::new(),
      thorough: false,
      seed: 1,
      shard: 0,
      shards: 1,
      out: String::new(),
      budget: Duration::from_secs(20),
      replay_dir: "/verif/replays".into(),
      replay: None,
      extra: BTreeMap::new(),
      start: Instant::now(),
    };
    let argv: Vec<String> = std::env::args().skip(1).collect();
    let mut i = 0;
    while i < argv.len() {
      let k = argv[i].trim_start_matches("--").to_string();
      let v = argv.get(i + 1).cloned().unwrap_or_default();
      match k.as_str() {
        "prop" => a.prop = v,
        "tier" => a.thorough = v == "thorough",
        "seed" => a.seed = v.parse().expect("seed"),
        "shard" => a.shard = v.parse().expect("shard"),
        "shards" => a.shards = v.parse().expect("shards"),
        "out" => a.out = v,
        "budget-s" => a.budget = Duration::from_secs_f64(v.parse().expect("budget")),
        "replay-dir" => a.replay_dir = v,
        "replay" => a.replay = Some(v),
        _ => {
          a.extra.insert(k, v);
        }
      }
      i += 2;
    }
    a
  }
  pub fn tier(&self) -> &'static str {
    if self.thorough { "thorough" } else { "quick" }
  }
  pub fn time_left(&self) -> bool {
    self.start.elapsed() < self.budget
  }
  pub fn elapsed_s(&self) -> f64 {
    self.start.elapsed().as_secs_f64()
  }
  pub fn get(&self, k: &str) -> Option<&str> {
    self.extra.get(k).map(|s| s.as_str())
  }
  pub fn get_u64(&self, k: &str, default: u64) -> u64 {
    self.get(k).and_then(|s| s.parse().ok()).unwrap_or(default)
  }
  /// Seed stream for this shard.
  pub fn shard_seed(&self) -> u64 {
    crate::rng::splitmix(self.seed.wrapping_mul(0x9E3779B97F4A7C15) ^ (self.shard + 1).rotate_left(40))
  }
}
