//! Small deterministic PRNG (splitmix64 seeding + xorshift64*), no external crates.

#[derive(Clone, Debug)]
pub struct Rng(u64);

pub fn splitmix(mut x: u64) -> u64 {
  x = x.wrapping_add(0x9E3779B97F4A7C15);
  let mut z = x;
  z = (z ^ (z >> 30)).wrapping_mul(0xBF58476D1CE4E5B9);
  z = (z ^ (z >> 27)).wrapping_mul(0x94D049BB133111EB);
  z ^ (z >> 31)
}

impl Rng {
  pub fn new(seed: u64) -> Self {
    let s = splitmix(seed);
    Rng(if s == 0 { 0x1234_5678_9abc_def1 } else { s })
  }
  /// Derives an independent stream.
  pub fn derive(seed: u64, a: u64, b: u64) -> Self {
    Rng::new(splitmix(seed ^ splitmix(a.wrapping_mul(0x9E37_79B9).wrapping_add(b.rotate_left(32)))))
  }
  #[inline]
  pub fn next(&mut self) -> u64 {
    let mut x = self.0;
    x ^= x >> 12;
    x ^= x << 25;
    x ^= x >> 27;
    self.0 = x;
    x.wrapping_mul(0x2545F4914F6CDD1D)
  }
  /// Uniform in `0..n` (n > 0).
  #[inline]
  pub fn below(&mut self, n: u64) -> u64 {
    debug_assert!(n > 0);
    ((self.next() >> 11) as u128 * n as u128 >> 53) as u64
  }
  #[inline]
  pub fn range(&mut self, lo: u64, hi_incl: u64) -> u64 {
    lo + self.below(hi_incl - lo + 1)
  }
  #[inline]
  pub fn chance(&mut self, num: u64, den: u64) -> bool {
    self.below(den) < num
  }
  pub fn pick<'a, T>(&mut self, xs: &'a [T]) -> &'a T {
    &xs[self.below(xs.len() as u64) as usize]
  }
  pub fn shuffle<T>(&mut self, xs: &mut [T]) {
    for i in (1..xs.len()).rev() {
      let j = self.below(i as u64 + 1) as usize;
      xs.swap(i, j);
    }
  }
  /// Picks an index according to integer weights.
  pub fn weighted(&mut self, weights: &[u32]) -> usize {
    let total: u64 = weights.iter().map(|&w| w as u64).sum();
    let mut r = self.below(total.max(1));
    for (i, &w) in weights.iter().enumerate() {
      if r < w as u64 {
        return i;
      }
      r -= w as u64;
    }
    weights.len() - 1
  }
}
