//! Schedule perturbation at the library's own synchronisation steps (`fibre::verif` hook H1).
//!
//! Each registered thread owns a PRNG stream; at every instrumented step it may spin, yield
//! or sleep, and at a few per-execution "change points" (PCT style) it stalls long enough
//! for other threads to run through a two-step window. Delays are only injected at points
//! where a real preemption could happen, so no impossible interleaving is manufactured.

use crate::rng::Rng;
use fibre::verif::{Kind, KINDS};
use std::cell::RefCell;
use std::sync::atomic::{AtomicBool, AtomicU32, AtomicU64, Ordering};
use std::time::Duration;

const SCALE: u32 = 1 << 20;

#[derive(Clone, Copy, Debug)]
pub struct Profile {
  /// Probabilities per step, out of 2^20.
  pub p_sleep: u32,
  pub p_yield: u32,
  pub p_spin: u32,
  pub max_sleep_us: u32,
  /// Number of change points per thread and execution.
  pub change_points: u32,
  /// Change points are drawn uniformly from the first `horizon` steps of the thread.
  pub horizon: u32,
  pub stall_min_us: u32,
  pub stall_max_us: u32,
  /// Probability (out of 2^20) that a `compare_exchange_weak` fails spuriously.
  pub p_weak_fail: u32,
}

impl Profile {
  pub const OFF: Profile = Profile {
    p_sleep: 0,
    p_yield: 0,
    p_spin: 0,
    max_sleep_us: 0,
    change_points: 0,
    horizon: 1,
    stall_min_us: 0,
    stall_max_us: 0,
    p_weak_fail: 0,
  };
  pub const LIGHT: Profile = Profile {
    p_sleep: SCALE / 4000,
    p_yield: SCALE / 200,
    p_spin: SCALE / 50,
    max_sleep_us: 100,
    change_points: 2,
    horizon: 400,
    stall_min_us: 100,
    stall_max_us: 1500,
    p_weak_fail: SCALE / 10,
  };
  pub const HEAVY: Profile = Profile {
    p_sleep: SCALE / 600,
    p_yield: SCALE / 40,
    p_spin: SCALE / 15,
    max_sleep_us: 300,
    change_points: 3,
    horizon: 300,
    stall_min_us: 200,
    stall_max_us: 3000,
    p_weak_fail: SCALE / 4,
  };
  /// Profile for tiny scenarios (a few dozen steps per thread): the change points must fall
  /// inside the handful of steps the threads really execute, and the stall only has to outlast
  /// another thread's short critical section.
  pub fn pick_tiny(rng: &mut Rng) -> Profile {
    let mut p = if rng.chance(1, 2) { Profile::LIGHT } else { Profile::HEAVY };
    p.p_sleep /= 4;
    p.horizon = [10, 20, 40, 80][rng.below(4) as usize];
    p.change_points = 1 + rng.below(3) as u32;
    p.stall_min_us = 50;
    p.stall_max_us = [300, 800, 2000][rng.below(3) as usize];
    p
  }
  /// Picks a profile variant for an execution.
  pub fn pick(rng: &mut Rng) -> Profile {
    match rng.below(10) {
      0 => Profile::OFF,
      1..=5 => {
        let mut p = Profile::LIGHT;
        p.horizon = [60, 200, 400, 1500][rng.below(4) as usize];
        p
      }
      _ => {
        let mut p = Profile::HEAVY;
        p.horizon = [40, 150, 300, 1000][rng.below(4) as usize];
        p
      }
    }
  }
}

static P_SLEEP: AtomicU32 = AtomicU32::new(0);
static P_YIELD: AtomicU32 = AtomicU32::new(0);
static P_SPIN: AtomicU32 = AtomicU32::new(0);
static MAX_SLEEP: AtomicU32 = AtomicU32::new(0);
static CHANGE_POINTS: AtomicU32 = AtomicU32::new(0);
static HORIZON: AtomicU32 = AtomicU32::new(1);
static STALL_MIN: AtomicU32 = AtomicU32::new(0);
static STALL_MAX: AtomicU32 = AtomicU32::new(0);
static P_WEAK: AtomicU32 = AtomicU32::new(0);
static AUTO: AtomicBool = AtomicBool::new(false);
static AUTO_SEED: AtomicU64 = AtomicU64::new(0);

static TOTAL_POINTS: [AtomicU64; KINDS] = [const { AtomicU64::new(0) }; KINDS];
static TOTAL_DELAYS: AtomicU64 = AtomicU64::new(0);
static TOTAL_STALLS: AtomicU64 = AtomicU64::new(0);
static TOTAL_WEAK_FAILS: AtomicU64 = AtomicU64::new(0);

struct Tl {
  active: bool,
  auto_checked: bool,
  /// library-spawned thread (janitor, notifier, loader task, writer): armed on its first hook point
  auto: bool,
  /// step at which an auto thread draws its next set of change points
  rearm_at: u64,
  rng: Rng,
  n: u64,
  change_at: [u64; 4],
  counts: [u64; KINDS],
  delays: u64,
  stalls: u64,
  weak_fails: u64,
}

thread_local! {
  static TL: RefCell<Tl> = RefCell::new(Tl {
    active: false, auto_checked: false, auto: false, rearm_at: u64::MAX, rng: Rng::new(1), n: 0, change_at: [u64::MAX; 4],
    counts: [0; KINDS], delays: 0, stalls: 0, weak_fails: 0,
  });
}

pub fn set_profile(p: &Profile) {
  P_SLEEP.store(p.p_sleep, Ordering::Relaxed);
  P_YIELD.store(p.p_yield, Ordering::Relaxed);
  P_SPIN.store(p.p_spin, Ordering::Relaxed);
  MAX_SLEEP.store(p.max_sleep_us, Ordering::Relaxed);
  CHANGE_POINTS.store(p.change_points, Ordering::Relaxed);
  HORIZON.store(p.horizon.max(1), Ordering::Relaxed);
  STALL_MIN.store(p.stall_min_us, Ordering::Relaxed);
  STALL_MAX.store(p.stall_max_us, Ordering::Relaxed);
  P_WEAK.store(p.p_weak_fail, Ordering::Relaxed);
}

/// Threads the harness did not register (janitor, writer threads, …) join the chaos with a
/// seed derived from `seed` when `on` is set.
pub fn set_auto(on: bool, seed: u64) {
  AUTO_SEED.store(seed, Ordering::Relaxed);
  AUTO.store(on, Ordering::Relaxed);
}

/// Installs the hook into the library. Idempotent.
pub fn install() {
  fibre::verif::install(Some(hook));
  fibre::verif::install_weak_fail(Some(weak_fail));
}

pub fn uninstall() {
  fibre::verif::install(None);
  fibre::verif::install_weak_fail(None);
}

fn arm(tl: &mut Tl, seed: u64) {
  tl.rng = Rng::new(seed);
  tl.n = 0;
  tl.change_at = [u64::MAX; 4];
  let cps = CHANGE_POINTS.load(Ordering::Relaxed).min(4);
  let horizon = HORIZON.load(Ordering::Relaxed) as u64;
  for i in 0..cps as usize {
    tl.change_at[i] = tl.rng.below(horizon);
  }
  tl.active = true;
}

/// RAII registration of the current thread for one execution.
pub struct Guard(());

pub fn enter(seed: u64, exec: u64, slot: u64) -> Guard {
  TL.with(|t| {
    let mut t = t.borrow_mut();
    arm(&mut t, crate::rng::splitmix(seed ^ exec.rotate_left(17) ^ slot.rotate_left(43)));
  });
  crate::stuck::register_worker();
  Guard(())
}

impl Drop for Guard {
  fn drop(&mut self) {
    leave();
  }
}

/// Deactivates chaos for the current thread and flushes its counters.
pub fn leave() {
  crate::stuck::deregister_worker();
  let _ = TL.try_with(|t| {
    if let Ok(mut t) = t.try_borrow_mut() {
      t.active = false;
      flush(&mut t);
    }
  });
}

/// Temporarily suspends perturbation on this thread (harness bookkeeping sections).
pub fn pause() -> bool {
  TL.with(|t| {
    let mut t = t.borrow_mut();
    let was = t.active;
    t.active = false;
    was
  })
}
pub fn resume(was: bool) {
  TL.with(|t| t.borrow_mut().active = was);
}

fn flush(t: &mut Tl) {
  for k in 0..KINDS {
    if t.counts[k] != 0 {
      TOTAL_POINTS[k].fetch_add(t.counts[k], Ordering::Relaxed);
      t.counts[k] = 0;
    }
  }
  TOTAL_DELAYS.fetch_add(std::mem::take(&mut t.delays), Ordering::Relaxed);
  TOTAL_STALLS.fetch_add(std::mem::take(&mut t.stalls), Ordering::Relaxed);
  TOTAL_WEAK_FAILS.fetch_add(std::mem::take(&mut t.weak_fails), Ordering::Relaxed);
}

#[derive(Default, Clone, Debug)]
pub struct Totals {
  pub points: [u64; KINDS],
  pub delays: u64,
  pub stalls: u64,
  pub weak_fails: u64,
}

impl Totals {
  pub fn total_points(&self) -> u64 {
    self.points.iter().sum()
  }
  pub fn parks(&self) -> u64 {
    self.points[Kind::Park as usize] + self.points[Kind::ParkTimeout as usize]
  }
  pub fn to_json(&self) -> serde_json::Value {
    const NAMES: [&str; KINDS] = [
      "load", "store", "rmw", "cas", "cas_weak", "fence", "mutex_lock", "mutex_try_lock", "park",
      "park_timeout", "park_return", "yield", "spin", "custom",
    ];
    let mut m = serde_json::Map::new();
    for k in 0..KINDS {
      m.insert(NAMES[k].to_string(), self.points[k].into());
    }
    serde_json::json!({"points": m, "delays_injected": self.delays, "long_stalls": self.stalls,
      "spurious_weak_cas_failures": self.weak_fails})
  }
}

/// Reads and clears the global counters (threads flush on `leave`).
pub fn take_totals() -> Totals {
  let mut t = Totals::default();
  for k in 0..KINDS {
    t.points[k] = TOTAL_POINTS[k].swap(0, Ordering::Relaxed);
  }
  t.delays = TOTAL_DELAYS.swap(0, Ordering::Relaxed);
  t.stalls = TOTAL_STALLS.swap(0, Ordering::Relaxed);
  t.weak_fails = TOTAL_WEAK_FAILS.swap(0, Ordering::Relaxed);
  t
}

fn sleep_us(us: u64) {
  if cfg!(miri) {
    std::thread::yield_now();
  } else {
    std::thread::sleep(Duration::from_micros(us));
  }
}

fn hook(kind: Kind) {
  // `try_with`: the hook may run during thread teardown (TLS destructors of library types).
  let _ = TL.try_with(|t| {
    let Ok(mut t) = t.try_borrow_mut() else { return };
    if !t.active {
      if !t.auto_checked {
        t.auto_checked = true;
        if AUTO.load(Ordering::Relaxed) {
          let addr = &*t as *const Tl as u64;
          let seed = AUTO_SEED.load(Ordering::Relaxed) ^ crate::rng::splitmix(addr);
          arm(&mut t, seed);
          // Library threads are either very short (one loader run: a few dozen steps) or very long (janitor,
          // notifier, writer): their change points are drawn from a short horizon and drawn again every
          // couple of horizons, so both kinds get stalled at their hand-over steps.
          t.auto = true;
          let h = (HORIZON.load(Ordering::Relaxed) as u64).min(48).max(8);
          let cps = CHANGE_POINTS.load(Ordering::Relaxed).min(4) as usize;
          for i in 0..cps {
            t.change_at[i] = t.rng.below(h);
          }
          t.rearm_at = 2 * h;
          // auto threads are long-lived: count continuously, flush periodically below
        }
      }
      if !t.active {
        return;
      }
    }
    t.counts[kind as usize] += 1;
    let n = t.n;
    t.n += 1;
    if n & 0xfff == 0xfff {
      flush(&mut t);
    }
    if t.auto && n >= t.rearm_at {
      let h = (HORIZON.load(Ordering::Relaxed) as u64).min(256).max(8);
      let cps = CHANGE_POINTS.load(Ordering::Relaxed).min(4) as usize;
      for i in 0..4 {
        t.change_at[i] = if i < cps { n + 1 + t.rng.below(h) } else { u64::MAX };
      }
      t.rearm_at = n + 2 * h;
    }
    if t.change_at.contains(&n) {
      let lo = STALL_MIN.load(Ordering::Relaxed) as u64;
      let hi = STALL_MAX.load(Ordering::Relaxed) as u64;
      if hi > 0 {
        let us = t.rng.range(lo, hi.max(lo));
        t.stalls += 1;
        drop(t);
        sleep_us(us);
        return;
      }
    }
    let r = (t.rng.next() >> 20) as u32 & (SCALE - 1);
    let ps = P_SLEEP.load(Ordering::Relaxed);
    let py = P_YIELD.load(Ordering::Relaxed);
    let pp = P_SPIN.load(Ordering::Relaxed);
    if r < ps {
      let us = 5 + t.rng.below(MAX_SLEEP.load(Ordering::Relaxed).max(1) as u64);
      t.delays += 1;
      drop(t);
      sleep_us(us);
    } else if r < ps + py {
      t.delays += 1;
      drop(t);
      std::thread::yield_now();
    } else if r < ps + py + pp {
      let k = 1 + t.rng.below(200);
      t.delays += 1;
      drop(t);
      for _ in 0..k {
        std::hint::spin_loop();
      }
    }
  });
}

fn weak_fail() -> bool {
  TL.try_with(|t| {
    let Ok(mut t) = t.try_borrow_mut() else { return false };
    if !t.active {
      return false;
    }
    let p = P_WEAK.load(Ordering::Relaxed);
    if p == 0 {
      return false;
    }
    let r = (t.rng.next() >> 20) as u32 & (SCALE - 1);
    if r < p {
      t.weak_fails += 1;
      true
    } else {
      false
    }
  })
  .unwrap_or(false)
}
