//! Deterministic offline checkers over a recorded point-to-point channel history.
//! Every rule is *interval-sound*: it only concludes from what the real-time order of
//! call/return stamps forces, never from a guess about where inside an operation its
//! effect took place.

use crate::adapt::Flavour;
use crate::hist::{Ev, Form, Out, Side};
use serde_json::{json, Value};
use std::collections::{BTreeMap, HashMap, HashSet};

#[derive(Clone, Debug)]
pub struct Meta {
  pub flavour: Flavour,
  pub class: String,
  pub cap_requested: usize,
  /// `capacity()` as reported by a handle, when the flavour reports one.
  pub cap_reported: Option<usize>,
  /// All worker threads ran to the end of their scripts.
  pub complete: bool,
}

#[derive(Clone, Debug)]
pub struct Finding {
  pub prop: &'static str,
  pub rule: String,
  pub summary: String,
  pub detail: Value,
}

impl Finding {
  pub fn signature(&self, meta: &Meta) -> String {
    format!("{}/{}/{}/{}", self.prop, meta.flavour.name(), self.rule, meta.class)
  }
}

#[derive(Clone, Copy, PartialEq, Eq, Debug)]
enum VStat {
  SentOk,
  Failed,
  Maybe,
}

fn fid(id: u64) -> String {
  format!("{}:{}", id >> 32, id & 0xffff_ffff)
}

pub struct Analysis {
  pub findings: Vec<Finding>,
  pub overlapping: bool,
  pub interleaving_sig: u64,
  pub sent_ok: usize,
  pub received: usize,
  pub maybe: usize,
  pub premise_r3: bool,
  pub max_occupancy_bound: i64,
}

/// Per-handle life cycle derived from the history.
#[derive(Default, Clone, Debug)]
struct Life {
  created: u64,
  /// call / ret stamp of the first successful `close()` or the `drop` (whichever first).
  gone_call: Option<u64>,
  gone_ret: Option<u64>,
  /// ret stamp of the first successful explicit close on this handle.
  closed_ret: Option<u64>,
  closed_call: Option<u64>,
}

pub fn analyse(evs: &[Ev], meta: &Meta) -> Analysis {
  let mut findings: Vec<Finding> = Vec::new();
  let fl = meta.flavour;
  let any_panic = evs.iter().any(|e| e.out == Out::Panicked && e.form != Form::Probe);

  // ---------------------------------------------------------------- panics (C01 oracle)
  for e in evs.iter().filter(|e| e.out == Out::Panicked && e.form != Form::Probe) {
    findings.push(Finding {
      prop: if matches!(e.form, Form::Close | Form::Drop | Form::Clone | Form::Convert) { "C04" } else { "C01" },
      rule: format!("panic-in-{}{}", if e.is_async { "async_" } else { "" }, e.form.name()),
      summary: format!(
        "library panicked inside {} (neither a value nor a documented error): {}",
        e.form.name(),
        e.note.clone().unwrap_or_default()
      ),
      detail: e.to_json(),
    });
  }

  // ---------------------------------------------------------------- handle life cycles
  let mut tx_life: BTreeMap<u32, Life> = BTreeMap::new();
  let mut rx_life: BTreeMap<u32, Life> = BTreeMap::new();
  for e in evs {
    let map = if e.side == Side::Tx { &mut tx_life } else { &mut rx_life };
    let l = map.entry(e.handle).or_default();
    if l.created == 0 || e.call < l.created {
      l.created = e.call;
    }
    if e.form == Form::Clone && e.out == Out::Ok {
      let nl = map.entry(e.aux as u32).or_default();
      if nl.created == 0 {
        nl.created = e.call;
      }
    }
  }
  for e in evs {
    let map = if e.side == Side::Tx { &mut tx_life } else { &mut rx_life };
    let gone = match e.form {
      Form::Close => e.out == Out::Ok || e.is_open(),
      Form::Drop => true,
      // oneshot `send(self)` consumes the sender handle
      Form::TrySend if fl.oneshot() => true,
      _ => false,
    };
    if gone {
      let l = map.entry(e.handle).or_default();
      if l.gone_call.is_none() {
        l.gone_call = Some(e.call);
        l.gone_ret = if e.is_open() { None } else { Some(e.ret) };
      }
      if e.form == Form::Close && e.out == Out::Ok && l.closed_ret.is_none() {
        l.closed_ret = Some(e.ret);
        l.closed_call = Some(e.call);
      }
    }
  }
  // Handles cloned from a parent whose own close() had already been invoked are outside the
  // statement (a closed handle "rejects further operations"; what a clone of it is, is not
  // specified): they never count as a live handle of their side.
  for e in evs.iter().filter(|e| e.form == Form::Clone && e.out == Out::Ok) {
    let map = if e.side == Side::Tx { &mut tx_life } else { &mut rx_life };
    let parent_closed = map.get(&e.handle).and_then(|l| l.closed_call).map(|c| c < e.ret).unwrap_or(false);
    if parent_closed {
      map.remove(&(e.aux as u32));
    }
  }
  // The moment from which "every sender is gone" can first be true: not before the last
  // sender handle's close/drop was invoked. `None` = some handle never went away.
  let last_gone_call = |m: &BTreeMap<u32, Life>| -> Option<u64> {
    let mut mx = 0;
    for l in m.values() {
      mx = mx.max(l.gone_call?);
    }
    Some(mx)
  };
  let last_gone_ret = |m: &BTreeMap<u32, Life>| -> Option<u64> {
    let mut mx = 0;
    for l in m.values() {
      mx = mx.max(l.gone_ret?);
    }
    Some(mx)
  };
  let tx_all_gone_call = if tx_life.is_empty() { None } else { last_gone_call(&tx_life) };
  let rx_all_gone_call = if rx_life.is_empty() { None } else { last_gone_call(&rx_life) };
  let rx_all_gone_ret = if rx_life.is_empty() { None } else { last_gone_ret(&rx_life) };

  // ---------------------------------------------------------------- value status (R4 intactness)
  let mut stat: HashMap<u64, (VStat, usize)> = HashMap::new();
  for (i, e) in evs.iter().enumerate() {
    if !e.form.is_send() {
      continue;
    }
    let n = e.vals.len();
    let mut set = |ids: &[u64], s: VStat, stat: &mut HashMap<u64, (VStat, usize)>| {
      for id in ids {
        stat.insert(*id, (s, i));
      }
    };
    match e.out {
      Out::Open | Out::Panicked => set(&e.vals, VStat::Maybe, &mut stat),
      Out::Cancelled => {
        if matches!(e.form, Form::SendBatchMut) && e.back_known {
          // in-place batch: what left the caller's vec was handed to the channel
          let k = n - e.back.len().min(n);
          if e.back[..] != e.vals[k..] {
            findings.push(r4(e, "cancelled in-place batch does not keep exactly the unsent tail"));
          }
          set(&e.vals[..k], VStat::SentOk, &mut stat);
          set(&e.vals[k..], VStat::Failed, &mut stat);
        } else {
          set(&e.vals, VStat::Maybe, &mut stat);
        }
      }
      Out::Ok => {
        let k = e.n_ok as usize;
        match e.form {
          Form::Send | Form::TrySend => set(&e.vals, VStat::SentOk, &mut stat),
          Form::SendBatch | Form::TrySendBatch => {
            if k != n {
              findings.push(r4(e, "owned batch reported Ok(n) with n < len: the remainder was neither sent nor handed back"));
              set(&e.vals[..k.min(n)], VStat::SentOk, &mut stat);
              set(&e.vals[k.min(n)..], VStat::Maybe, &mut stat);
            } else {
              set(&e.vals, VStat::SentOk, &mut stat);
            }
          }
          _ => {
            // in-place forms: Ok(k), vec keeps vals[k..]
            if k > n || e.back[..] != e.vals[k.min(n)..] {
              findings.push(r4(e, "in-place batch Ok(k): caller's vec is not exactly the unsent tail input[k..]"));
              set(&e.vals, VStat::Maybe, &mut stat);
            } else {
              set(&e.vals[..k], VStat::SentOk, &mut stat);
              set(&e.vals[k..], VStat::Failed, &mut stat);
            }
          }
        }
      }
      _ => {
        // reported failure
        let k = e.n_ok as usize;
        if e.back_known {
          if k > n || k + e.back.len() != n || e.back[..] != e.vals[k.min(n)..] {
            findings.push(r4(e, "failed send did not hand back exactly input[sent..] (sent + unsent != input, or order/identity differs)"));
            set(&e.vals, VStat::Maybe, &mut stat);
          } else {
            set(&e.vals[..k], VStat::SentOk, &mut stat);
            set(&e.vals[k..], VStat::Failed, &mut stat);
          }
        } else {
          // SendError carries nothing: the values of a failed single send are gone by contract
          set(&e.vals, VStat::Failed, &mut stat);
        }
      }
    }
  }
  fn r4(e: &Ev, what: &str) -> Finding {
    Finding {
      prop: "C01",
      rule: format!("handback-{}{}", if e.is_async { "async_" } else { "" }, e.form.name()),
      summary: what.to_string(),
      detail: e.to_json(),
    }
  }

  // ---------------------------------------------------------------- R1 / R2 / R4: receipts
  let mut recv_by: HashMap<u64, usize> = HashMap::new();
  let mut received = 0usize;
  for (i, e) in evs.iter().enumerate() {
    if !e.form.is_recv() {
      continue;
    }
    for id in &e.vals {
      received += 1;
      match stat.get(id) {
        None => findings.push(Finding {
          prop: "C01",
          rule: "phantom-value".into(),
          summary: format!("{} returned value {} that no send ever attempted", e.form.name(), fid(*id)),
          detail: e.to_json(),
        }),
        Some((VStat::Failed, si)) => findings.push(Finding {
          prop: "C01",
          rule: format!("failed-send-delivered-{}", evs[*si].form.name()),
          summary: format!(
            "value {} was delivered although its {} reported {} (and handed it back)",
            fid(*id),
            evs[*si].form.name(),
            evs[*si].out.name()
          ),
          detail: json!({"send": evs[*si].to_json(), "recv": e.to_json()}),
        }),
        _ => {}
      }
      if let Some(prev) = recv_by.insert(*id, i) {
        findings.push(Finding {
          prop: "C01",
          rule: "duplicate-delivery".into(),
          summary: format!("value {} was returned by two receives", fid(*id)),
          detail: json!({"first": evs[prev].to_json(), "second": e.to_json()}),
        });
      }
    }
  }

  // ---------------------------------------------------------------- R3: no loss (premise!)
  // Premise: every sender is gone, and some receiver kept receiving until it observed
  // Disconnected (its Disconnected was invoked after all senders' close/drop returned, so a
  // still-buffered value had to be returned first).
  let tx_all_gone_ret = if tx_life.is_empty() { None } else { last_gone_ret(&tx_life) };
  let drained = evs.iter().any(|e| {
    e.form.is_recv()
      && matches!(e.out, Out::Disconnected | Out::StreamEnd)
      && tx_all_gone_ret.map(|t| e.call > t).unwrap_or(false)
      && rx_life.get(&e.handle).map(|l| l.closed_call.map(|c| c > e.ret).unwrap_or(true)).unwrap_or(true)
  });
  let premise_r3 = meta.complete && !any_panic && drained;
  let mut sent_ok = 0usize;
  let mut maybe = 0usize;
  let mut lost: Vec<u64> = Vec::new();
  for (id, (s, _)) in &stat {
    match s {
      VStat::SentOk => {
        sent_ok += 1;
        if !recv_by.contains_key(id) {
          lost.push(*id);
        }
      }
      VStat::Maybe => maybe += 1,
      VStat::Failed => {}
    }
  }
  if premise_r3 && !lost.is_empty() {
    lost.sort();
    let ex = lost[0];
    let si = stat[&ex].1;
    findings.push(Finding {
      prop: "C01",
      rule: "lost-value".into(),
      summary: format!(
        "{} value(s) whose send reported success were never received although a receiver drained to Disconnected; e.g. {} sent by {}",
        lost.len(),
        fid(ex),
        evs[si].form.name()
      ),
      detail: json!({"lost": lost.iter().take(20).map(|i| fid(*i)).collect::<Vec<_>>(), "send": evs[si].to_json()}),
    });
  }

  // ---------------------------------------------------------------- C02: per-producer FIFO per consumer handle
  {
    // position of each value in its producer's send order = its sequence number
    let mut last_seen: HashMap<(u32, u32), (u32, usize)> = HashMap::new(); // (rx handle, producer) -> (seq, ev idx)
    let mut reported = HashSet::new();
    for (i, e) in evs.iter().enumerate() {
      if !e.form.is_recv() {
        continue;
      }
      for id in &e.vals {
        let p = (id >> 32) as u32;
        let s = *id as u32;
        if let Some((prev, pi)) = last_seen.get(&(e.handle, p)) {
          if s <= *prev && reported.insert((e.handle, p)) {
            findings.push(Finding {
              prop: "C02",
              rule: "producer-order".into(),
              summary: format!(
                "consumer handle {} obtained {}:{} after {}:{} (same producer, send order violated)",
                e.handle, p, s, p, prev
              ),
              detail: json!({"earlier": evs[*pi].to_json(), "later": e.to_json()}),
            });
          }
        }
        last_seen.insert((e.handle, p), (s, i));
      }
    }
    // Single producer + single consumer handle and complete drain: the received sequence is
    // exactly the sent sequence (total order on spsc).
  }

  // ---------------------------------------------------------------- C03: capacity inequality
  let mut max_bound: i64 = 0;
  let cap_n: Option<i64> = if fl.rendezvous() {
    Some(0)
  } else if fl.bounded() {
    Some(meta.cap_reported.unwrap_or(meta.cap_requested) as i64)
  } else {
    None
  };
  if let Some(n) = cap_n {
    // +k at the return of a send that reported k values sent; -m at the *invocation* of a
    // receive that eventually returned m values.
    let mut pts: Vec<(u64, i64, usize)> = Vec::new();
    for (i, e) in evs.iter().enumerate() {
      if e.form.is_send() && !e.is_open() {
        let k = match e.out {
          Out::Ok => {
            if matches!(e.form, Form::Send | Form::TrySend) {
              1
            } else {
              e.n_ok as i64
            }
          }
          Out::Cancelled | Out::Panicked => 0,
          _ => e.n_ok as i64,
        };
        if k > 0 {
          pts.push((e.ret, k, i));
        }
      } else if e.form.is_recv() && !e.vals.is_empty() {
        pts.push((e.call, -(e.vals.len() as i64), i));
      } else if e.form.is_recv() && matches!(e.out, Out::Cancelled | Out::Open | Out::Panicked) {
        // A receive that was abandoned (future dropped), never returned, or panicked may have
        // been paired with / absorbed values all the same: whether those values are then lost
        // is C01's business, the sender did find room. Count its full appetite.
        let appetite = match e.form {
          Form::RecvBatch | Form::RecvBatchMut | Form::TryRecvBatch | Form::TryRecvBatchMut => e.aux.max(1) as i64,
          _ => 1,
        };
        pts.push((e.call, -appetite, i));
      }
    }
    pts.sort();
    let mut acc = 0i64;
    let mut worst: Option<(i64, usize)> = None;
    for (_, d, i) in &pts {
      acc += d;
      if acc > max_bound {
        max_bound = acc;
      }
      if acc > n && worst.map(|w| acc > w.0).unwrap_or(true) {
        worst = Some((acc, *i));
      }
    }
    if let Some((acc, i)) = worst {
      findings.push(Finding {
        prop: "C03",
        rule: "capacity-exceeded".into(),
        summary: format!(
          "{} completed sends were neither received nor covered by an invoked receive while capacity is {} (a send completed without room / without pairing)",
          acc, n
        ),
        detail: json!({"at": evs[i].to_json(), "capacity": n}),
      });
    }
  }
  // len() <= capacity() probes
  for e in evs.iter().filter(|e| e.form == Form::Probe) {
    if e.aux2 != u64::MAX && e.aux > e.aux2 {
      findings.push(Finding {
        prop: "C03",
        rule: "len-exceeds-capacity".into(),
        summary: format!("len() = {} exceeded capacity() = {}", e.aux, e.aux2),
        detail: e.to_json(),
      });
      break;
    }
  }
  // oneshot: at most one send ever succeeds
  if fl.oneshot() {
    let oks: Vec<&Ev> = evs.iter().filter(|e| e.form.is_send() && e.out == Out::Ok).collect();
    if oks.len() > 1 {
      findings.push(Finding {
        prop: "C03",
        rule: "oneshot-two-sends".into(),
        summary: format!("{} sends succeeded on a oneshot channel", oks.len()),
        detail: json!(oks.iter().map(|e| e.to_json()).collect::<Vec<_>>()),
      });
    }
  }

  // ---------------------------------------------------------------- C04: disconnect protocol
  {
    let mut seen = HashSet::new();
    let mut push = |findings: &mut Vec<Finding>, rule: String, summary: String, detail: Value| {
      if seen.insert(rule.clone()) {
        findings.push(Finding { prop: "C04", rule, summary, detail });
      }
    };
    // D2: after Disconnected, never a value on that handle.
    let mut disc_at: HashMap<u32, usize> = HashMap::new();
    for (i, e) in evs.iter().enumerate() {
      if !e.form.is_recv() || e.is_open() {
        continue;
      }
      if let Some(di) = disc_at.get(&e.handle) {
        if !e.vals.is_empty() && e.call > evs[*di].ret {
          push(
            &mut findings,
            format!("value-after-disconnected-{}", e.form.name()),
            format!("receiver handle {} obtained a value after it had observed Disconnected", e.handle),
            json!({"disconnected": evs[*di].to_json(), "later": e.to_json()}),
          );
        }
      }
      if matches!(e.out, Out::Disconnected | Out::StreamEnd) {
        let own_closed = rx_life.get(&e.handle).and_then(|l| l.closed_call).map(|c| c < e.ret).unwrap_or(false);
        if !own_closed {
          disc_at.entry(e.handle).or_insert(i);
          // D3: Disconnected entirely before the last sender's close/drop was even invoked.
          let premature = match tx_all_gone_call {
            Some(t) => e.ret < t,
            None => true,
          };
          // oneshot: a value already taken also ends the channel for the receiver
          let oneshot_done = fl.oneshot() && evs.iter().any(|x| x.form.is_recv() && !x.vals.is_empty() && x.ret != 0 && x.ret < e.ret);
          if premature && !oneshot_done {
            push(
              &mut findings,
              format!("premature-disconnected-{}{}", if e.is_async { "async_" } else { "" }, e.form.name()),
              format!(
                "receiver handle {} (not closed itself) observed Disconnected while a sender handle was still alive",
                e.handle
              ),
              e.to_json(),
            );
          }
        }
      }
    }
    // D4 / D5 / D6 on the send side.
    for e in evs.iter().filter(|e| e.form.is_send() && !e.is_open()) {
      let own_closed_before_call = tx_life.get(&e.handle).and_then(|l| l.closed_ret).map(|c| c < e.call).unwrap_or(false);
      let own_closed_before_ret = tx_life.get(&e.handle).and_then(|l| l.closed_call).map(|c| c < e.ret).unwrap_or(false);
      if e.out == Out::Closed && !own_closed_before_ret {
        let premature = match rx_all_gone_call {
          Some(t) => e.ret < t,
          None => true,
        };
        if premature {
          push(
            &mut findings,
            format!("premature-closed-{}{}", if e.is_async { "async_" } else { "" }, e.form.name()),
            format!("send on open handle {} failed with Closed while a receiver handle was still alive", e.handle),
            e.to_json(),
          );
        }
      }
      let single = matches!(e.form, Form::Send | Form::TrySend);
      let accepted_any = match e.out {
        Out::Ok => single || e.n_ok > 0,
        Out::Cancelled | Out::Panicked => false,
        _ => e.n_ok > 0,
      };
      // D5: invoked after the last receiver's close/drop returned => must fail with Closed.
      if let Some(t) = rx_all_gone_ret {
        if e.call > t && !e.vals.is_empty() {
          if accepted_any {
            push(
              &mut findings,
              format!("send-after-receivers-gone-accepted-{}{}", if e.is_async { "async_" } else { "" }, e.form.name()),
              format!(
                "{} invoked after the last receiver was closed/dropped accepted a value ({}, sent={})",
                e.form.name(),
                e.out.name(),
                e.n_ok
              ),
              e.to_json(),
            );
          } else if !matches!(e.out, Out::Closed | Out::Cancelled | Out::Panicked) && !(fl.oneshot() && e.out == Out::Sent) {
            push(
              &mut findings,
              format!("send-after-receivers-gone-not-closed-{}{}", if e.is_async { "async_" } else { "" }, e.form.name()),
              format!(
                "{} invoked after the last receiver was closed/dropped reported {} instead of Closed",
                e.form.name(),
                e.out.name()
              ),
              e.to_json(),
            );
          }
        }
      }
      // D6: a send on a handle whose own close() already returned Ok must be rejected.
      if own_closed_before_call && !e.vals.is_empty() && accepted_any {
        push(
          &mut findings,
          format!("closed-handle-operates-{}{}", if e.is_async { "async_" } else { "" }, e.form.name()),
          format!("{} on sender handle {} after its own close() returned Ok accepted a value ({})", e.form.name(), e.handle, e.out.name()),
          e.to_json(),
        );
      }
    }
    for e in evs.iter().filter(|e| e.form.is_recv() && !e.is_open()) {
      let own_closed_before_call = rx_life.get(&e.handle).and_then(|l| l.closed_ret).map(|c| c < e.call).unwrap_or(false);
      if own_closed_before_call && !e.vals.is_empty() {
        push(
          &mut findings,
          format!("closed-handle-operates-{}{}", if e.is_async { "async_" } else { "" }, e.form.name()),
          format!(
            "{} on receiver handle {} after its own close() returned Ok still returned a value ({})",
            e.form.name(),
            e.handle,
            e.out.name()
          ),
          e.to_json(),
        );
      }
    }
    // D9: the channel is provably empty (every value that was or may have been sent had been
    // received before the call) and every sender is gone: a non-blocking / timed receive
    // must now report Disconnected, not Empty / Timeout.
    {
      let mut all_in = true;
      let mut last_in: u64 = 0;
      for (id, (s, _)) in &stat {
        match s {
          VStat::SentOk | VStat::Maybe => match recv_by.get(id) {
            Some(ri) => last_in = last_in.max(evs[*ri].ret),
            None => {
              all_in = false;
              break;
            }
          },
          VStat::Failed => {}
        }
      }
      if let (true, Some(tg)) = (all_in, tx_all_gone_ret) {
        let from = tg.max(last_in);
        for e in evs.iter().filter(|e| e.form.is_recv() && !e.is_open() && e.call > from) {
          let own_closed = rx_life.get(&e.handle).and_then(|l| l.closed_call).map(|c| c < e.ret).unwrap_or(false);
          if matches!(e.out, Out::Empty | Out::Timeout) && !own_closed && !(fl.oneshot()) {
            push(
              &mut findings,
              format!("empty-after-disconnect-{}", e.form.name()),
              format!(
                "{} invoked after every sender was gone and every sent value had been received reported {} instead of Disconnected",
                e.form.name(),
                e.out.name()
              ),
              e.to_json(),
            );
          }
        }
      }
    }
    // D7: close is idempotent: first Ok, later CloseError.
    let mut closes: HashMap<(bool, u32), Vec<&Ev>> = HashMap::new();
    for e in evs.iter().filter(|e| e.form == Form::Close && !e.is_open()) {
      closes.entry((e.side == Side::Tx, e.handle)).or_default().push(e);
    }
    for ((_, h), v) in closes {
      for (k, e) in v.iter().enumerate() {
        let expect_ok = k == 0;
        // a spent oneshot sender cannot be closed any more (harness reports CloseErr)
        if e.note.as_deref() == Some("spent") {
          continue;
        }
        if expect_ok != (e.out == Out::Ok) {
          push(
            &mut findings,
            format!("close-idempotence-{}", if expect_ok { "first" } else { "second" }),
            format!("close() #{} on handle {} reported {}", k + 1, h, e.out.name()),
            e.to_json(),
          );
        }
      }
    }
  }

  // ---------------------------------------------------------------- overlap + signature
  let mut overlapping = false;
  {
    let mut iv: Vec<(u64, u64, u16)> = evs
      .iter()
      .filter(|e| (e.form.is_send() || e.form.is_recv()))
      .map(|e| (e.call, if e.ret == 0 { u64::MAX } else { e.ret }, e.thread))
      .collect();
    iv.sort();
    let mut max_end: Option<(u64, u16)> = None;
    let mut second_end: Option<(u64, u16)> = None;
    for (c, r, t) in iv {
      for cand in [max_end, second_end].iter().flatten() {
        if cand.1 != t && cand.0 > c {
          overlapping = true;
        }
      }
      match max_end {
        Some((me, mt)) if r > me => {
          if mt != t {
            second_end = Some((me, mt));
          }
          max_end = Some((r, t));
        }
        None => max_end = Some((r, t)),
        Some((_, mt)) => {
          if mt != t && second_end.map(|s| r > s.0).unwrap_or(true) {
            second_end = Some((r, t));
          }
        }
      }
      if overlapping {
        break;
      }
    }
  }
  let mut h = vh_core::Fnv::default();
  {
    let mut pts: Vec<(u64, u64)> = Vec::with_capacity(evs.len() * 2);
    for e in evs {
      let tag = ((e.thread as u64) << 16) | ((e.form as u64) << 8) | e.out as u64;
      pts.push((e.call, tag << 1));
      if e.ret != 0 {
        pts.push((e.ret, (tag << 1) | 1));
      }
    }
    pts.sort();
    for (_, t) in pts.iter().take(8192) {
      h.u64(*t);
    }
  }

  if any_panic {
    findings.retain(|f| f.rule.starts_with("panic-in-"));
  }
  Analysis {
    findings,
    overlapping,
    interleaving_sig: h.finish(),
    sent_ok,
    received,
    maybe,
    premise_r3,
    max_occupancy_bound: max_bound,
  }
}

// ------------------------------------------------------------------------------------------
// Broadcast (spmc) histories of the single-threaded stepper: one sender handle whose values
// carry increasing sequence numbers, so the send order is the id order. Every receiver must
// obtain a strictly increasing run of the values that were really sent, starting at its start
// position (a clone starts where its parent stood when the clone was made), without gaps; a
// receiver that saw Disconnected / end-of-stream must have drained everything sent.
// Values of cancelled sends may or may not have been sent (skipped gaps over them are fine).
// ------------------------------------------------------------------------------------------
pub fn analyse_broadcast(evs: &[Ev], meta: &Meta) -> Analysis {
  use std::collections::{BTreeMap, BTreeSet};
  let mut findings: Vec<Finding> = Vec::new();
  let mut definite: BTreeSet<u64> = BTreeSet::new();
  let mut never: BTreeSet<u64> = BTreeSet::new();
  let mut offered: BTreeSet<u64> = BTreeSet::new();
  let mut maybe = 0usize;
  for e in evs.iter().filter(|e| e.form.is_send()) {
    for v in &e.vals {
      offered.insert(*v);
    }
    match e.out {
      Out::Panicked | Out::Cancelled | Out::Open => {
        // in-place batches hand the unsent tail back even when cancelled
        if e.back_known && e.out == Out::Cancelled && matches!(e.form, Form::SendBatchMut) {
          for v in &e.vals {
            if e.back.contains(v) {
              never.insert(*v);
            } else {
              definite.insert(*v);
            }
          }
        } else {
          maybe += e.vals.len();
        }
      }
      _ => {
        let n = if matches!(e.form, Form::Send | Form::TrySend) { (e.out == Out::Ok) as usize } else { e.n_ok as usize };
        for (i, v) in e.vals.iter().enumerate() {
          if i < n {
            definite.insert(*v);
          } else {
            never.insert(*v);
          }
        }
      }
    }
  }
  // receivers: creation (parent, stamp), received run in completion order, end marker
  struct Rx {
    parent: Option<(u32, u64)>,
    run: Vec<(u64, u64)>, // (ret stamp, id)
    ended: Option<u64>,   // ret stamp of Disconnected / StreamEnd
  }
  let mut rxs: BTreeMap<u32, Rx> = BTreeMap::new();
  let mut by_ret: Vec<&Ev> = evs.iter().filter(|e| e.side == Side::Rx && !e.is_open()).collect();
  by_ret.sort_by_key(|e| e.ret);
  for e in &by_ret {
    rxs.entry(e.handle).or_insert(Rx { parent: None, run: vec![], ended: None });
    if e.form == Form::Clone && e.out == Out::Ok {
      rxs.entry(e.aux as u32).or_insert(Rx { parent: Some((e.handle, e.ret)), run: vec![], ended: None });
    }
    if e.form.is_recv() {
      let r = rxs.get_mut(&e.handle).unwrap();
      for v in &e.vals {
        r.run.push((e.ret, *v));
      }
      if matches!(e.out, Out::Disconnected | Out::StreamEnd) && r.ended.is_none() {
        r.ended = Some(e.ret);
      }
    }
  }
  let mut received = 0usize;
  let handles: Vec<u32> = rxs.keys().copied().collect();
  // position (last id consumed, exclusive lower bound for what follows) of handle h at stamp t
  fn floor_at(rxs: &BTreeMap<u32, Rx>, h: u32, t: u64, depth: u32) -> Option<u64> {
    let r = rxs.get(&h)?;
    if let Some((_, id)) = r.run.iter().filter(|(ret, _)| *ret < t).last() {
      return Some(*id);
    }
    match r.parent {
      Some((p, at)) if depth < 16 => floor_at(rxs, p, at, depth + 1),
      _ => None,
    }
  }
  for h in handles {
    let r = &rxs[&h];
    received += r.run.len();
    let start_floor: Option<u64> = match r.parent {
      Some((p, at)) => floor_at(&rxs, p, at, 0),
      None => None,
    };
    let mut prev: Option<u64> = start_floor;
    for (_, id) in &r.run {
      if !offered.contains(id) || (id >> 48) == (crate::val::CORRUPT_BASE >> 48) {
        findings.push(Finding { prop: "C01", rule: "phantom".into(),
          summary: format!("receiver {} obtained a value no sender offered (or a torn payload): {:#x}", h, id),
          detail: json!({"receiver": h, "value": format!("{:#x}", id)}) });
        continue;
      }
      if never.contains(id) {
        findings.push(Finding { prop: "C01", rule: "failed-send-delivered".into(),
          summary: format!("receiver {} obtained value {}:{} although the send reported it as not sent", h, id >> 32, id & 0xffff_ffff),
          detail: json!({"receiver": h}) });
      }
      if let Some(p) = prev {
        if *id <= p {
          findings.push(Finding { prop: "C07", rule: "duplicate-or-reordered".into(),
            summary: format!("receiver {} obtained {}:{} after {}:{} (not in send order / twice)", h, id >> 32, id & 0xffff_ffff, p >> 32, p & 0xffff_ffff),
            detail: json!({"receiver": h}) });
        }
      }
      let lo = prev.map(|p| p + 1).unwrap_or(0);
      if let Some(missed) = definite.range(lo..*id).next() {
        findings.push(Finding { prop: "C07", rule: "lost-value".into(),
          summary: format!("receiver {} never obtained {}:{}, which was sent while it existed, but obtained the later {}:{}", h, missed >> 32, missed & 0xffff_ffff, id >> 32, id & 0xffff_ffff),
          detail: json!({"receiver": h, "start_after": start_floor.map(|s| format!("{}:{}", s >> 32, s & 0xffff_ffff))}) });
      }
      prev = Some(*id);
    }
    if let Some(end) = r.ended {
      let lo = prev.map(|p| p + 1).unwrap_or(0);
      // values sent before the receiver reported the end and after its position
      let sent_before_end: Vec<u64> = evs
        .iter()
        .filter(|e| e.form.is_send() && !e.is_open() && e.ret < end)
        .flat_map(|e| e.vals.iter().copied())
        .filter(|v| definite.contains(v) && *v >= lo)
        .collect();
      if let Some(m) = sent_before_end.first() {
        findings.push(Finding { prop: "C04", rule: "disconnected-before-drained".into(),
          summary: format!("receiver {} reported Disconnected although {}:{} had been sent to it and was never obtained", h, m >> 32, m & 0xffff_ffff),
          detail: json!({"receiver": h}) });
      }
    }
  }
  for e in evs {
    if e.out == Out::Panicked {
      findings.push(Finding { prop: "C01", rule: format!("panic-in-{}", e.form.name()),
        summary: format!("{} panicked inside the library: {}", e.form.name(), e.note.clone().unwrap_or_default()), detail: e.to_json() });
    }
  }
  if findings.iter().any(|f| f.rule.starts_with("panic-in")) {
    findings.retain(|f| f.rule.starts_with("panic-in"));
  }
  let mut h = vh_core::Fnv::default();
  for e in evs {
    h.u64(e.handle as u64 * 64 + e.form as u64);
    h.u64(e.out as u64 * 1024 + e.vals.len() as u64);
  }
  let _ = meta;
  Analysis { findings, overlapping: false, interleaving_sig: h.finish(), sent_ok: definite.len(), received, maybe,
    premise_r3: false, max_occupancy_bound: 0 }
}
