//! Threaded workload engine for the point-to-point channels: generates a closed scenario,
//! runs it on real threads under the chaos controller, records the client-boundary history,
//! watches progress (stuck oracle) and hands the history to the offline checkers.

use crate::adapt::*;
use crate::hist::*;
use crate::oracle::{self, Finding, Meta};
use crate::val::{self, vid, Val};
use fibre::error::*;
use serde_json::{json, Value};
use std::panic::{catch_unwind, AssertUnwindSafe};
use std::sync::atomic::{AtomicBool, AtomicU32, AtomicU8, Ordering};
use std::sync::Arc;
use std::time::{Duration, Instant};
use vh_core::chaos;
use vh_core::rng::Rng;
use vh_core::stepper::{block_on, block_on_or_cancel_ex};
use vh_core::stuck::{self, Canary};

#[derive(Clone, Copy, Debug, PartialEq, Eq, Hash)]
pub enum Class {
  Blocking,
  Try,
  Timed,
  Batch,
  Async,
  AsyncCancel,
  Mixed,
  Lifecycle,
}

pub const ALL_CLASSES: [Class; 8] = [
  Class::Blocking,
  Class::Try,
  Class::Timed,
  Class::Batch,
  Class::Async,
  Class::AsyncCancel,
  Class::Mixed,
  Class::Lifecycle,
];

impl Class {
  pub fn name(self) -> &'static str {
    match self {
      Class::Blocking => "blocking",
      Class::Try => "try",
      Class::Timed => "timed",
      Class::Batch => "batch",
      Class::Async => "async",
      Class::AsyncCancel => "async_cancel",
      Class::Mixed => "mixed",
      Class::Lifecycle => "lifecycle",
    }
  }
  pub fn from_name(s: &str) -> Option<Class> {
    ALL_CLASSES.iter().copied().find(|c| c.name() == s)
  }
}

#[derive(Clone, Debug)]
pub struct Scenario {
  pub exec: u64,
  pub seed: u64,
  pub flavour: Flavour,
  pub class: Class,
  pub cap: usize,
  pub async_ctor: bool,
  pub producers: usize,
  pub consumers: usize,
  pub ops: usize,
  pub early_exit: bool,
  pub gremlin: bool,
  pub profile: chaos::Profile,
  pub tiny: bool,
  /// drain phases per producer thread: the producer pauses until every value definitely sent
  /// so far has been received, so a wake-up lost on the last values is not papered over by
  /// later traffic
  pub phases: u32,
}

impl Scenario {
  pub fn describe(&self) -> Value {
    json!({"exec": self.exec, "seed": self.seed, "flavour": self.flavour.name(), "class": self.class.name(),
      "cap": self.cap, "async_ctor": self.async_ctor, "producers": self.producers,
      "consumers": self.consumers, "ops_per_thread": self.ops, "early_exit_receivers": self.early_exit,
      "spurious_unparks": self.gremlin, "drain_phases": self.phases,
      "chaos": {"p_sleep": self.profile.p_sleep, "p_yield": self.profile.p_yield, "p_spin": self.profile.p_spin,
         "change_points": self.profile.change_points, "horizon": self.profile.horizon}})
  }
  pub fn shape_sig(&self) -> u64 {
    let mut h = vh_core::Fnv::default();
    h.bytes(self.flavour.name().as_bytes());
    h.bytes(self.class.name().as_bytes());
    h.u64(self.cap as u64);
    h.u64(self.producers as u64 * 16 + self.consumers as u64);
    h.u64(self.async_ctor as u64 * 2 + self.early_exit as u64);
    h.finish()
  }
}

/// Which flavours / classes a property's check concentrates on.
#[derive(Clone, Debug)]
pub struct Focus {
  pub flavours: Vec<Flavour>,
  pub classes: Vec<(Class, u32)>,
  pub p_early_exit: (u64, u64),
  pub p_gremlin: (u64, u64),
  pub small_caps: bool,
  pub big: bool,
}

pub fn gen_scenario(rng: &mut Rng, exec: u64, focus: &Focus, tiny: bool) -> Scenario {
  let flavour = focus.flavours[(exec as usize) % focus.flavours.len()];
  let weights: Vec<u32> = focus.classes.iter().map(|c| c.1).collect();
  let mut class = focus.classes[rng.weighted(&weights)].0;
  if flavour.oneshot() {
    // oneshot has a single send form and an async/try receive: classes collapse
    class = *rng.pick(&[Class::Try, Class::Async, Class::AsyncCancel, Class::Lifecycle]);
  }
  if !flavour.has_batch() && class == Class::Batch {
    class = Class::Blocking;
  }
  let cap = if focus.small_caps {
    *rng.pick(&[1usize, 1, 2, 2, 3, 4])
  } else {
    *rng.pick(&[1usize, 2, 3, 5, 7, 8, 16, 64, 100])
  };
  let producers = if flavour.oneshot() {
    rng.range(1, 3) as usize
  } else if flavour.multi_producer() {
    rng.range(1, if tiny { 2 } else { 4 }) as usize
  } else {
    1
  };
  let consumers = if flavour.multi_consumer() { rng.range(1, if tiny { 2 } else { 3 }) as usize } else { 1 };
  let ops = if tiny {
    rng.range(3, 10) as usize
  } else if focus.big {
    rng.range(300, 1500) as usize
  } else {
    *rng.pick(&[8usize, 20, 40, 80, 150, 300])
  };
  let early_exit = rng.chance(focus.p_early_exit.0, focus.p_early_exit.1) || (class == Class::Lifecycle && rng.chance(1, 3));
  Scenario {
    exec,
    seed: rng.next(),
    flavour,
    class,
    cap,
    async_ctor: rng.chance(1, 3),
    producers,
    consumers,
    ops,
    early_exit,
    gremlin: rng.chance(focus.p_gremlin.0, focus.p_gremlin.1),
    profile: if tiny { chaos::Profile::pick_tiny(rng) } else { chaos::Profile::pick(rng) },
    tiny,
    phases: if !early_exit && !flavour.oneshot() && !flavour.rendezvous() && class != Class::Lifecycle && class != Class::Try && rng.chance(2, 5) {
      rng.range(1, 3) as u32
    } else {
      0
    },
  }
}

// ------------------------------------------------------------------------------------------
// Worker state
// ------------------------------------------------------------------------------------------

struct TxSlot {
  id: u32,
  h: Option<TxH>,
  seq: u32,
  closed: bool,
  after_close_ops: u32,
}
struct RxSlot {
  id: u32,
  h: Option<RxH>,
  closed: bool,
  disconnected: bool,
  after_close_ops: u32,
}

pub struct Shared {
  pub scn: Scenario,
  pub next_handle: AtomicU32,
  pub logs: Vec<Arc<Log>>,
  /// 0 = running, 2 = finished
  pub state: Vec<AtomicU8>,
  pub stop: AtomicBool,
  pub cap_reported: std::sync::Mutex<Option<usize>>,
  /// consumer threads that have not finished their script
  pub live_consumers: AtomicU32,
}

const ST_RUN: u8 = 0;
const ST_DONE: u8 = 2;

fn payloads(slot_id: u32, seq: &mut u32, n: usize) -> (Vec<Val>, Vec<u64>) {
  let mut vs = Vec::with_capacity(n);
  let mut ids = Vec::with_capacity(n);
  for _ in 0..n {
    let id = vid(slot_id, *seq);
    *seq += 1;
    ids.push(id);
    vs.push(Val::new(id));
  }
  (vs, ids)
}

fn ids_of(vs: &[Val]) -> Vec<u64> {
  vs.iter().map(|v| v.wid()).collect()
}

#[derive(Clone, Copy, PartialEq, Eq, Debug)]
enum POp {
  Send,
  TrySend,
  SendBatch,
  TrySendBatch,
  SendBatchMut,
  TrySendBatchMut,
  Clone,
  Close,
  Convert,
  DropHandle,
}

#[derive(Clone, Copy, PartialEq, Eq, Debug)]
enum COp {
  Recv,
  TryRecv,
  RecvTimeout,
  RecvBatch,
  RecvBatchMut,
  TryRecvBatch,
  TryRecvBatchMut,
  StreamNext,
  Clone,
  Close,
  Convert,
}

fn producer_weights(class: Class, fl: Flavour, is_async: bool) -> Vec<(POp, u32)> {
  let b = fl.has_batch();
  let mut w: Vec<(POp, u32)> = Vec::new();
  if fl.oneshot() {
    w.push((POp::TrySend, 10));
    if class == Class::Lifecycle {
      w.push((POp::Clone, 4));
      w.push((POp::Close, 3));
    }
    return w;
  }
  match class {
    Class::Blocking => {
      w.push((POp::Send, 8));
      if b {
        w.push((POp::SendBatch, 2));
        w.push((POp::SendBatchMut, 2));
      }
    }
    Class::Try => {
      w.push((POp::TrySend, 8));
      if b {
        w.push((POp::TrySendBatch, 2));
        w.push((POp::TrySendBatchMut, 2));
      }
    }
    Class::Timed => {
      w.push((POp::Send, 6));
      w.push((POp::TrySend, 2));
    }
    Class::Batch => {
      w.push((POp::Send, 1));
      w.push((POp::SendBatch, 3));
      w.push((POp::SendBatchMut, 3));
      w.push((POp::TrySendBatch, 2));
      w.push((POp::TrySendBatchMut, 2));
    }
    Class::Async | Class::AsyncCancel => {
      w.push((POp::Send, 7));
      w.push((POp::TrySend, 1));
      if b {
        w.push((POp::SendBatch, 2));
        w.push((POp::SendBatchMut, 2));
      }
    }
    Class::Mixed => {
      w.push((POp::Send, 6));
      w.push((POp::TrySend, 3));
      if b {
        w.push((POp::SendBatch, 2));
        w.push((POp::SendBatchMut, 2));
        w.push((POp::TrySendBatch, 1));
        w.push((POp::TrySendBatchMut, 1));
      }
      w.push((POp::Convert, 1));
      w.push((POp::Clone, 1));
    }
    Class::Lifecycle => {
      w.push((POp::Send, 5));
      w.push((POp::TrySend, 3));
      if b {
        w.push((POp::SendBatch, 1));
        w.push((POp::TrySendBatch, 1));
        w.push((POp::SendBatchMut, 1));
      }
      w.push((POp::Clone, 3));
      w.push((POp::Close, 2));
      w.push((POp::DropHandle, 1));
      w.push((POp::Convert, 1));
    }
  }
  let _ = is_async;
  w
}

fn consumer_weights(class: Class, fl: Flavour, is_async: bool, has_stream: bool) -> Vec<(COp, u32)> {
  let b = fl.has_batch();
  let mut w: Vec<(COp, u32)> = Vec::new();
  if fl.oneshot() {
    match class {
      Class::Try => w.push((COp::TryRecv, 10)),
      _ => {
        w.push((COp::Recv, 6));
        w.push((COp::TryRecv, 3));
      }
    }
    if class == Class::Lifecycle {
      w.push((COp::Close, 2));
    }
    return w;
  }
  match class {
    Class::Blocking => {
      w.push((COp::Recv, 8));
      if b {
        w.push((COp::RecvBatch, 2));
        w.push((COp::RecvBatchMut, 2));
      }
    }
    Class::Try => {
      w.push((COp::TryRecv, 8));
      if b {
        w.push((COp::TryRecvBatch, 2));
        w.push((COp::TryRecvBatchMut, 2));
      }
    }
    Class::Timed => {
      if is_async {
        w.push((COp::Recv, 6));
      } else {
        w.push((COp::RecvTimeout, 8));
        w.push((COp::Recv, 2));
      }
      w.push((COp::TryRecv, 2));
    }
    Class::Batch => {
      w.push((COp::Recv, 1));
      w.push((COp::RecvBatch, 3));
      w.push((COp::RecvBatchMut, 3));
      w.push((COp::TryRecvBatch, 2));
      w.push((COp::TryRecvBatchMut, 2));
    }
    Class::Async | Class::AsyncCancel => {
      w.push((COp::Recv, 7));
      w.push((COp::TryRecv, 1));
      if b {
        w.push((COp::RecvBatch, 2));
        w.push((COp::RecvBatchMut, 2));
      }
      if has_stream {
        w.push((COp::StreamNext, 3));
      }
    }
    Class::Mixed => {
      w.push((COp::Recv, 6));
      w.push((COp::TryRecv, 3));
      if !is_async {
        w.push((COp::RecvTimeout, 3));
      }
      if b {
        w.push((COp::RecvBatch, 2));
        w.push((COp::RecvBatchMut, 2));
        w.push((COp::TryRecvBatch, 1));
        w.push((COp::TryRecvBatchMut, 1));
      }
      if has_stream {
        w.push((COp::StreamNext, 2));
      }
      w.push((COp::Convert, 1));
      w.push((COp::Clone, 1));
    }
    Class::Lifecycle => {
      w.push((COp::Recv, 5));
      w.push((COp::TryRecv, 3));
      if !is_async {
        w.push((COp::RecvTimeout, 2));
      }
      if b {
        w.push((COp::RecvBatch, 1));
        w.push((COp::TryRecvBatch, 1));
      }
      w.push((COp::Clone, 3));
      w.push((COp::Close, 1));
      w.push((COp::Convert, 1));
    }
  }
  w
}

fn cancel_patience(rng: &mut Rng) -> Duration {
  match rng.below(4) {
    0 => Duration::ZERO,
    1 => Duration::from_micros(rng.range(1, 50)),
    2 => Duration::from_micros(rng.range(50, 400)),
    _ => Duration::from_micros(rng.range(400, 3000)),
  }
}

fn want_async(class: Class, rng: &mut Rng) -> Option<bool> {
  match class {
    Class::Async | Class::AsyncCancel => Some(true),
    Class::Blocking | Class::Try | Class::Timed | Class::Batch => Some(false),
    Class::Mixed | Class::Lifecycle => {
      if rng.chance(1, 2) {
        Some(rng.chance(1, 2))
      } else {
        None
      }
    }
  }
}

fn panic_note(p: Box<dyn std::any::Any + Send>) -> String {
  format!("{} @ {}", vh_core::panic_message(&*p), vh_core::last_panic_location())
}

// ------------------------------------------------------------------------------------------
// Producer thread
// ------------------------------------------------------------------------------------------

/// Drain phase: waits (on a harness condition variable, i.e. asleep) until every value that some
/// send has definitely delivered so far was received, the run is stopped, or no consumer thread
/// is left. Recorded as an open blocking event so the progress monitor sees a waiting thread.
fn await_drain(sh: &Shared, log: &Log, t16: u16, handle: u32) {
  use std::sync::atomic::Ordering::SeqCst;
  let target = crate::hist::DEF_SENT.load(SeqCst);
  let ev = Ev::new(t16, handle, Side::Tx, Form::AwaitDrain, false);
  let idx = log.begin(ev);
  let was = chaos::pause();
  let mut g = crate::hist::PHASE_LOCK.lock().unwrap_or_else(|e| e.into_inner());
  while crate::hist::DEF_RECV.load(SeqCst) < target && !sh.stop.load(SeqCst) && sh.live_consumers.load(SeqCst) > 0 {
    g = crate::hist::PHASE_CV.wait_timeout(g, Duration::from_millis(100)).unwrap_or_else(|e| e.into_inner()).0;
  }
  drop(g);
  chaos::resume(was);
  log.end(idx, |e| e.out = Out::Ok);
  stuck::progress();
}

fn run_producer(sh: &Shared, tid: usize, first: TxH, first_id: u32) {
  let scn = &sh.scn;
  let log = &sh.logs[tid];
  let mut rng = Rng::derive(scn.seed, 1000 + tid as u64, scn.exec);
  let _g = chaos::enter(scn.seed, scn.exec, tid as u64);
  let fl = scn.flavour;
  let mut slots: Vec<TxSlot> = vec![TxSlot { id: first_id, h: Some(first), seq: 0, closed: false, after_close_ops: 0 }];
  let t16 = tid as u16;

  // Bring the first handle into the form the class wants.
  if !fl.oneshot() {
    if let Some(a) = want_async(scn.class, &mut rng) {
      convert_tx(log, t16, &mut slots[0], a);
    }
  }
  let mut steps = 0usize;
  let mut panicked = false;
  let mut saw_closed = 0u32;
  while steps < scn.ops && !sh.stop.load(Ordering::Relaxed) && !panicked {
    steps += 1;
    if scn.phases > 0 && steps > 1 && (steps - 1) % (scn.ops / (scn.phases as usize + 1)).max(1) == 0 {
      await_drain(sh, log, t16, slots[0].id);
    }
    let live: Vec<usize> = (0..slots.len()).filter(|&i| slots[i].h.is_some()).collect();
    if live.is_empty() {
      break;
    }
    let si = live[rng.below(live.len() as u64) as usize];
    let is_async = matches!(slots[si].h, Some(TxH::A(_)));
    // A closed handle gets a few more operations (they must be rejected), then is dropped.
    if slots[si].closed {
      slots[si].after_close_ops += 1;
      if slots[si].after_close_ops > 3 {
        drop_tx(log, t16, &mut slots[si]);
        continue;
      }
    }
    if saw_closed > 4 {
      break;
    }
    let w = producer_weights(scn.class, fl, is_async);
    let weights: Vec<u32> = w.iter().map(|x| x.1).collect();
    let op = w[rng.weighted(&weights)].0;
    let cancel = scn.class == Class::AsyncCancel && rng.chance(2, 5)
      || (matches!(scn.class, Class::Mixed) && is_async && rng.chance(1, 6));
    let bn = rng.range(0, if scn.tiny { 4 } else { (2 * scn.cap as u64 + 3).min(40) }) as usize;
    let other_open = slots.iter().enumerate().any(|(j, s)| j != si && s.h.is_some() && !s.closed);
    let slot = &mut slots[si];
    let id = slot.id;
    let out: Out = match op {
      POp::Send => {
        if fl.oneshot() {
          continue;
        }
        let (mut vs, ids) = payloads(id, &mut slot.seq, 1);
        let v = vs.pop().unwrap();
        let mut ev = Ev::new(t16, id, Side::Tx, Form::Send, is_async);
        ev.vals = ids;
        let idx = log.begin(ev);
        let r = catch_unwind(AssertUnwindSafe(|| match slot.h.as_mut().unwrap() {
          TxH::S(h) => Some(h.send(v)),
          TxH::A(h) => {
            if cancel {
              block_on_or_cancel_ex(h.send(v), cancel_patience(&mut rng), rng.chance(1, 3)).0
            } else {
              Some(block_on(h.send(v)))
            }
          }
        }));
        let mut o = Out::Ok;
        log.end(idx, |e| {
          match r {
            Ok(Some(Ok(()))) => {
              e.out = Out::Ok;
              e.n_ok = 1;
            }
            Ok(Some(Err(SendError::Closed))) => e.out = Out::Closed,
            Ok(Some(Err(SendError::Sent))) => e.out = Out::Sent,
            Ok(None) => e.out = Out::Cancelled,
            Err(p) => {
              e.out = Out::Panicked;
              e.note = Some(panic_note(p));
            }
          }
          o = e.out;
        });
        o
      }
      POp::TrySend => {
        let (mut vs, ids) = payloads(id, &mut slot.seq, 1);
        let v = vs.pop().unwrap();
        let mut ev = Ev::new(t16, id, Side::Tx, Form::TrySend, is_async);
        ev.vals = ids;
        ev.back_known = true;
        let idx = log.begin(ev);
        let r = catch_unwind(AssertUnwindSafe(|| match slot.h.as_mut().unwrap() {
          TxH::S(h) => h.try_send(v),
          TxH::A(h) => h.try_send(v),
        }));
        let mut o = Out::Ok;
        log.end(idx, |e| {
          match r {
            Ok(Ok(())) => {
              e.out = Out::Ok;
              e.n_ok = 1;
            }
            Ok(Err(err)) => {
              let (out, v) = match err {
                TrySendError::Full(v) => (Out::Full, v),
                TrySendError::Closed(v) => (Out::Closed, v),
                TrySendError::Sent(v) => (Out::Sent, v),
              };
              e.out = out;
              e.back = vec![v.wid()];
            }
            Err(p) => {
              e.out = Out::Panicked;
              e.note = Some(panic_note(p));
            }
          }
          o = e.out;
        });
        if fl.oneshot() {
          // `send(self)` consumed the sender
          slot.h = None;
        }
        o
      }
      POp::SendBatch | POp::TrySendBatch => {
        let (vs, ids) = payloads(id, &mut slot.seq, bn);
        let form = if op == POp::SendBatch { Form::SendBatch } else { Form::TrySendBatch };
        let mut ev = Ev::new(t16, id, Side::Tx, form, is_async);
        ev.vals = ids;
        ev.back_known = true;
        let idx = log.begin(ev);
        enum R {
          Ok(usize),
          Err(usize, Vec<Val>, Out),
          Cancelled,
        }
        let r = catch_unwind(AssertUnwindSafe(|| {
          let h = slot.h.as_mut().unwrap();
          if op == POp::SendBatch {
            let res = match h {
              TxH::S(h) => Some(h.send_batch(vs)),
              TxH::A(h) => {
                if cancel {
                  block_on_or_cancel_ex(h.send_batch(vs), cancel_patience(&mut rng), rng.chance(1, 3)).0
                } else {
                  Some(block_on(h.send_batch(vs)))
                }
              }
            };
            match res {
              Some(Ok(n)) => R::Ok(n),
              Some(Err(e)) => R::Err(e.sent, e.unsent, Out::Closed),
              None => R::Cancelled,
            }
          } else {
            let res = match h {
              TxH::S(h) => h.try_send_batch(vs),
              TxH::A(h) => h.try_send_batch(vs),
            };
            match res {
              Ok(n) => R::Ok(n),
              Err(e) => {
                let o = if e.reason == BatchSendErrorReason::Full { Out::Full } else { Out::Closed };
                R::Err(e.sent, e.unsent, o)
              }
            }
          }
        }));
        let mut o = Out::Ok;
        log.end(idx, |e| {
          match r {
            Ok(R::Ok(n)) => {
              e.out = Out::Ok;
              e.n_ok = n as u32;
            }
            Ok(R::Err(sent, unsent, out)) => {
              e.out = out;
              e.n_ok = sent as u32;
              e.back = ids_of(&unsent);
            }
            Ok(R::Cancelled) => {
              e.out = Out::Cancelled;
              e.back_known = false;
            }
            Err(p) => {
              e.out = Out::Panicked;
              e.note = Some(panic_note(p));
            }
          }
          o = e.out;
        });
        o
      }
      POp::SendBatchMut | POp::TrySendBatchMut => {
        let (mut vs, ids) = payloads(id, &mut slot.seq, bn);
        let form = if op == POp::SendBatchMut { Form::SendBatchMut } else { Form::TrySendBatchMut };
        let mut ev = Ev::new(t16, id, Side::Tx, form, is_async);
        ev.vals = ids;
        ev.back_known = true;
        let idx = log.begin(ev);
        let r = catch_unwind(AssertUnwindSafe(|| {
          let h = slot.h.as_mut().unwrap();
          if op == POp::SendBatchMut {
            match h {
              TxH::S(h) => Some(h.send_batch_mut(&mut vs)),
              TxH::A(h) => {
                if cancel {
                  block_on_or_cancel_ex(h.send_batch_mut(&mut vs), cancel_patience(&mut rng), rng.chance(1, 3)).0
                } else {
                  Some(block_on(h.send_batch_mut(&mut vs)))
                }
              }
            }
          } else {
            Some(match h {
              TxH::S(h) => h.try_send_batch_mut(&mut vs),
              TxH::A(h) => h.try_send_batch_mut(&mut vs),
            })
          }
        }));
        let mut o = Out::Ok;
        log.end(idx, |e| {
          e.back = ids_of(&vs);
          match r {
            Ok(Some(Ok(n))) => {
              e.out = Out::Ok;
              e.n_ok = n as u32;
            }
            Ok(Some(Err(_))) => {
              e.out = Out::Closed;
              e.n_ok = (e.vals.len() - e.back.len().min(e.vals.len())) as u32;
            }
            Ok(None) => e.out = Out::Cancelled,
            Err(p) => {
              e.out = Out::Panicked;
              e.note = Some(panic_note(p));
            }
          }
          o = e.out;
        });
        o
      }
      POp::Clone => {
        // What a clone of a close()d handle may be used for is not specified, but it is a sender handle like any
        // other for the disconnect protocol: it is made and dropped at once, and the end of the scenario still has
        // to be "every sender handle gone => receivers drain and see Disconnected".
        let of_closed = slot.closed;
        // ... and only while this thread holds another handle that is still open: the channel then has a live sender
        // for the whole life of the clone, so the clone can never bring a disconnected channel back to life (what a
        // receiver that has already seen Disconnected should observe then is not specified either).
        if of_closed && (!other_open || !rng.chance(1, 2)) {
          continue;
        }
        let new_id = sh.next_handle.fetch_add(1, Ordering::SeqCst);
        let mut ev = Ev::new(t16, id, Side::Tx, Form::Clone, is_async);
        ev.aux = new_id as u64;
        let idx = log.begin(ev);
        let c = catch_unwind(AssertUnwindSafe(|| match slot.h.as_ref().unwrap() {
          TxH::S(h) => h.try_clone().map(TxH::S),
          TxH::A(h) => h.try_clone().map(TxH::A),
        }))
        .unwrap_or(None);
        let ok = c.is_some();
        log.end(idx, |e| e.out = if ok { Out::Ok } else { Out::Empty });
        if let Some(c) = c {
          if slots.len() < 4 && !of_closed {
            slots.push(TxSlot { id: new_id, h: Some(c), seq: 0, closed: false, after_close_ops: 0 });
          } else {
            let mut tmp = TxSlot { id: new_id, h: Some(c), seq: 0, closed: false, after_close_ops: 0 };
            drop_tx(log, t16, &mut tmp);
          }
        }
        Out::Ok
      }
      POp::Close => {
        // keep at least one open handle until the last third of the script
        let open = slots.iter().filter(|s| s.h.is_some() && !s.closed).count();
        if open <= 1 && steps * 3 < scn.ops * 2 {
          continue;
        }
        let slot = &mut slots[si];
        let spent = false;
        let mut ev = Ev::new(t16, id, Side::Tx, Form::Close, is_async);
        if spent {
          ev.note = Some("spent".into());
        }
        let idx = log.begin(ev);
        let r = catch_unwind(AssertUnwindSafe(|| match slot.h.as_mut().unwrap() {
          TxH::S(h) => h.close(),
          TxH::A(h) => h.close(),
        }));
        let mut o = Out::Ok;
        log.end(idx, |e| {
          match &r {
            Ok(Ok(())) => e.out = Out::Ok,
            Ok(Err(_)) => e.out = Out::CloseErr,
            Err(_) => e.out = Out::Panicked,
          }
          o = e.out;
        });
        if let Err(p) = r {
          let note = panic_note(p);
          let mut g = log.evs.lock().unwrap();
          g[idx].note = Some(note);
        }
        if o == Out::Ok {
          slot.closed = true;
        }
        if o == Out::Panicked { Out::Panicked } else { Out::Ok }
      }
      POp::Convert => {
        if fl.oneshot() {
          continue;
        }
        convert_tx(log, t16, slot, !is_async);
        Out::Ok
      }
      POp::DropHandle => {
        let open = slots.iter().filter(|s| s.h.is_some()).count();
        if open <= 1 {
          continue;
        }
        drop_tx(log, t16, &mut slots[si]);
        Out::Ok
      }
    };
    stuck::progress();
    match out {
      Out::Panicked => panicked = true,
      Out::Closed => saw_closed += 1,
      Out::Full => std::thread::yield_now(),
      _ => {}
    }
    if rng.chance(1, 8) {
      probe_tx(log, t16, &slots[si], sh);
    }
  }
  for s in slots.iter_mut() {
    if s.h.is_some() {
      drop_tx(log, t16, s);
    }
  }
}

fn probe_tx(log: &Log, t16: u16, slot: &TxSlot, sh: &Shared) {
  let (len, cap) = match slot.h.as_ref() {
    Some(TxH::S(h)) => (h.len(), h.capacity()),
    Some(TxH::A(h)) => (h.len(), h.capacity()),
    None => return,
  };
  if let Some(l) = len {
    let mut ev = Ev::new(t16, slot.id, Side::Tx, Form::Probe, false);
    ev.aux = l as u64;
    ev.aux2 = cap.map(|c| c as u64).unwrap_or(u64::MAX);
    let idx = log.begin(ev);
    log.end(idx, |e| e.out = Out::Ok);
  }
  if let Some(c) = cap {
    *sh.cap_reported.lock().unwrap() = Some(c);
  }
}

fn convert_tx(log: &Log, t16: u16, slot: &mut TxSlot, to_async: bool) {
  let cur_async = matches!(slot.h, Some(TxH::A(_)));
  if cur_async == to_async || slot.h.is_none() {
    return;
  }
  let mut ev = Ev::new(t16, slot.id, Side::Tx, Form::Convert, cur_async);
  ev.aux = to_async as u64;
  let idx = log.begin(ev);
  let h = slot.h.take().unwrap();
  let r = catch_unwind(AssertUnwindSafe(move || match h {
    TxH::S(h) => TxH::A(h.into_async()),
    TxH::A(h) => TxH::S(h.into_sync()),
  }));
  log.end(idx, |e| match r {
    Ok(h) => {
      slot.h = Some(h);
      e.out = Out::Ok;
    }
    Err(p) => {
      e.out = Out::Panicked;
      e.note = Some(panic_note(p));
    }
  });
}

fn drop_tx(log: &Log, t16: u16, slot: &mut TxSlot) {
  if let Some(h) = slot.h.take() {
    let ev = Ev::new(t16, slot.id, Side::Tx, Form::Drop, matches!(h, TxH::A(_)));
    let idx = log.begin(ev);
    let r = catch_unwind(AssertUnwindSafe(move || drop(h)));
    log.end(idx, |e| match r {
      Ok(()) => e.out = Out::Ok,
      Err(p) => {
        e.out = Out::Panicked;
        e.note = Some(panic_note(p));
      }
    });
    stuck::progress();
  }
}

fn convert_rx(log: &Log, t16: u16, slot: &mut RxSlot, to_async: bool) {
  let cur_async = matches!(slot.h, Some(RxH::A(_)));
  if cur_async == to_async || slot.h.is_none() {
    return;
  }
  if let Some(RxH::A(h)) = &slot.h {
    if !h.can_sync() {
      return;
    }
  }
  let mut ev = Ev::new(t16, slot.id, Side::Rx, Form::Convert, cur_async);
  ev.aux = to_async as u64;
  let idx = log.begin(ev);
  let h = slot.h.take().unwrap();
  let r = catch_unwind(AssertUnwindSafe(move || match h {
    RxH::S(h) => RxH::A(h.into_async()),
    RxH::A(h) => RxH::S(h.into_sync()),
  }));
  log.end(idx, |e| match r {
    Ok(h) => {
      slot.h = Some(h);
      e.out = Out::Ok;
    }
    Err(p) => {
      e.out = Out::Panicked;
      e.note = Some(panic_note(p));
    }
  });
}

fn drop_rx(log: &Log, t16: u16, slot: &mut RxSlot) {
  if let Some(h) = slot.h.take() {
    let ev = Ev::new(t16, slot.id, Side::Rx, Form::Drop, matches!(h, RxH::A(_)));
    let idx = log.begin(ev);
    let r = catch_unwind(AssertUnwindSafe(move || drop(h)));
    log.end(idx, |e| match r {
      Ok(()) => e.out = Out::Ok,
      Err(p) => {
        e.out = Out::Panicked;
        e.note = Some(panic_note(p));
      }
    });
    stuck::progress();
  }
}

// ------------------------------------------------------------------------------------------
// Consumer thread
// ------------------------------------------------------------------------------------------

/// Executes one receive-type operation on `slot`, recording it. Returns the outcome.
fn do_recv(log: &Log, t16: u16, slot: &mut RxSlot, op: COp, rng: &mut Rng, cancel: bool, max: usize) -> Out {
  let is_async = matches!(slot.h, Some(RxH::A(_)));
  let id = slot.id;
  let form = match op {
    COp::Recv => Form::Recv,
    COp::TryRecv => Form::TryRecv,
    COp::RecvTimeout => Form::RecvTimeout,
    COp::RecvBatch => Form::RecvBatch,
    COp::RecvBatchMut => Form::RecvBatchMut,
    COp::TryRecvBatch => Form::TryRecvBatch,
    COp::TryRecvBatchMut => Form::TryRecvBatchMut,
    COp::StreamNext => Form::StreamNext,
    _ => unreachable!(),
  };
  let mut ev = Ev::new(t16, id, Side::Rx, form, is_async);
  let timeout = match rng.below(6) {
    0 => Duration::ZERO,
    1 | 2 => Duration::from_micros(rng.range(1, 60)),
    3 | 4 => Duration::from_micros(rng.range(60, 400)),
    _ => Duration::from_micros(rng.range(400, 2500)),
  };
  ev.aux = match op {
    COp::RecvTimeout => timeout.as_micros() as u64,
    COp::RecvBatch | COp::RecvBatchMut | COp::TryRecvBatch | COp::TryRecvBatchMut => max as u64,
    _ => 0,
  };
  let idx = log.begin(ev);
  enum R {
    Vals(Vec<Val>),
    Out(Out),
  }
  let mut spill: Vec<Val> = Vec::new();
  let r = catch_unwind(AssertUnwindSafe(|| -> R {
    let h = slot.h.as_mut().unwrap();
    macro_rules! drive {
      ($fut:expr) => {
        if cancel {
          block_on_or_cancel_ex($fut, cancel_patience(rng), rng.chance(1, 3)).0
        } else {
          Some(block_on($fut))
        }
      };
    }
    match (op, h) {
      (COp::Recv, RxH::S(h)) => match h.recv() {
        Ok(v) => R::Vals(vec![v]),
        Err(_) => R::Out(Out::Disconnected),
      },
      (COp::Recv, RxH::A(h)) => match drive!(h.recv()) {
        Some(Ok(v)) => R::Vals(vec![v]),
        Some(Err(_)) => R::Out(Out::Disconnected),
        None => R::Out(Out::Cancelled),
      },
      (COp::TryRecv, h) => {
        let r = match h {
          RxH::S(h) => h.try_recv(),
          RxH::A(h) => h.try_recv(),
        };
        match r {
          Ok(v) => R::Vals(vec![v]),
          Err(TryRecvError::Empty) => R::Out(Out::Empty),
          Err(TryRecvError::Disconnected) => R::Out(Out::Disconnected),
        }
      }
      (COp::RecvTimeout, RxH::S(h)) => match h.recv_timeout(timeout) {
        Ok(v) => R::Vals(vec![v]),
        Err(RecvErrorTimeout::Timeout) => R::Out(Out::Timeout),
        Err(RecvErrorTimeout::Disconnected) => R::Out(Out::Disconnected),
      },
      (COp::RecvBatch, RxH::S(h)) => match h.recv_batch(max) {
        Ok(vs) => R::Vals(vs),
        Err(_) => R::Out(Out::Disconnected),
      },
      (COp::RecvBatch, RxH::A(h)) => match drive!(h.recv_batch(max)) {
        Some(Ok(vs)) => R::Vals(vs),
        Some(Err(_)) => R::Out(Out::Disconnected),
        None => R::Out(Out::Cancelled),
      },
      (COp::RecvBatchMut, RxH::S(h)) => match h.recv_batch_mut(&mut spill, max) {
        Ok(_) => R::Out(Out::Ok),
        Err(_) => R::Out(Out::Disconnected),
      },
      (COp::RecvBatchMut, RxH::A(h)) => match drive!(h.recv_batch_mut(&mut spill, max)) {
        Some(Ok(_)) => R::Out(Out::Ok),
        Some(Err(_)) => R::Out(Out::Disconnected),
        None => R::Out(Out::Cancelled),
      },
      (COp::TryRecvBatch, h) => {
        let r = match h {
          RxH::S(h) => h.try_recv_batch(max),
          RxH::A(h) => h.try_recv_batch(max),
        };
        match r {
          Ok(vs) => R::Vals(vs),
          Err(TryRecvError::Empty) => R::Out(Out::Empty),
          Err(TryRecvError::Disconnected) => R::Out(Out::Disconnected),
        }
      }
      (COp::TryRecvBatchMut, h) => {
        let r = match h {
          RxH::S(h) => h.try_recv_batch_mut(&mut spill, max),
          RxH::A(h) => h.try_recv_batch_mut(&mut spill, max),
        };
        match r {
          Ok(_) => R::Out(Out::Ok),
          Err(TryRecvError::Empty) => R::Out(Out::Empty),
          Err(TryRecvError::Disconnected) => R::Out(Out::Disconnected),
        }
      }
      // A `Stream` poll that returned Pending leaves the *receiver* registered; abandoning
      // the wrapper future is not a cancellation of a library future (nothing is dropped), so
      // the harness always follows a stream poll through to Ready.
      (COp::StreamNext, RxH::A(h)) => match block_on(h.next()) {
        Some(v) => R::Vals(vec![v]),
        None => R::Out(Out::StreamEnd),
      },
      _ => R::Out(Out::Empty),
    }
  }));
  let mut o = Out::Ok;
  log.end(idx, |e| {
    match r {
      Ok(R::Vals(vs)) => {
        e.vals = ids_of(&vs);
        e.out = Out::Ok;
        if matches!(op, COp::RecvBatch | COp::TryRecvBatch) && vs.len() > max {
          e.note = Some(format!("batch returned {} > max {}", vs.len(), max));
        }
      }
      Ok(R::Out(out)) => {
        // in-place forms: whatever was appended to the caller's vec was received, whatever
        // the reported outcome (a cancelled in-place receive keeps what it already moved).
        e.vals = ids_of(&spill);
        e.out = out;
      }
      Err(p) => {
        e.vals = ids_of(&spill);
        e.out = Out::Panicked;
        e.note = Some(panic_note(p));
      }
    }
    e.n_ok = e.vals.len() as u32;
    o = e.out;
  });
  stuck::progress();
  o
}

fn run_consumer(sh: &Shared, tid: usize, first: RxH, first_id: u32, drainer: bool) {
  let scn = &sh.scn;
  let log = &sh.logs[tid];
  let mut rng = Rng::derive(scn.seed, 2000 + tid as u64, scn.exec);
  let _g = chaos::enter(scn.seed, scn.exec, tid as u64);
  let fl = scn.flavour;
  let t16 = tid as u16;
  let mut slots: Vec<RxSlot> = vec![RxSlot { id: first_id, h: Some(first), closed: false, disconnected: false, after_close_ops: 0 }];
  if !fl.oneshot() {
    if let Some(a) = want_async(scn.class, &mut rng) {
      convert_rx(log, t16, &mut slots[0], a);
    }
  }
  let ops = if scn.early_exit { (scn.ops / 4).max(1) } else { scn.ops };
  let mut steps = 0;
  let mut panicked = false;
  let mut oneshot_taken = false;
  while steps < ops && !sh.stop.load(Ordering::Relaxed) && !panicked {
    steps += 1;
    let live: Vec<usize> = (0..slots.len()).filter(|&i| slots[i].h.is_some() && !slots[i].disconnected).collect();
    if live.is_empty() {
      break;
    }
    let si = live[rng.below(live.len() as u64) as usize];
    if slots[si].closed {
      slots[si].after_close_ops += 1;
      if slots[si].after_close_ops > 3 {
        drop_rx(log, t16, &mut slots[si]);
        continue;
      }
    }
    let (is_async, has_stream) = match slots[si].h.as_ref().unwrap() {
      RxH::S(_) => (false, false),
      RxH::A(h) => (true, h.has_stream()),
    };
    let w = consumer_weights(scn.class, fl, is_async, has_stream);
    let weights: Vec<u32> = w.iter().map(|x| x.1).collect();
    let op = w[rng.weighted(&weights)].0;
    let cancel = is_async
      && (scn.class == Class::AsyncCancel && rng.chance(2, 5) || scn.class == Class::Mixed && rng.chance(1, 6));
    let max = rng.range(0, if scn.tiny { 4 } else { (2 * scn.cap as u64 + 3).min(40) }) as usize;
    match op {
      COp::Clone => {
        let slot = &slots[si];
        if slot.closed {
          continue;
        }
        let new_id = sh.next_handle.fetch_add(1, Ordering::SeqCst);
        let mut ev = Ev::new(t16, slot.id, Side::Rx, Form::Clone, is_async);
        ev.aux = new_id as u64;
        let idx = log.begin(ev);
        let c = catch_unwind(AssertUnwindSafe(|| match slot.h.as_ref().unwrap() {
          RxH::S(h) => h.try_clone().map(RxH::S),
          RxH::A(h) => h.try_clone().map(RxH::A),
        }))
        .unwrap_or(None);
        let ok = c.is_some();
        log.end(idx, |e| e.out = if ok { Out::Ok } else { Out::Empty });
        if let Some(c) = c {
          let mut ns = RxSlot { id: new_id, h: Some(c), closed: false, disconnected: false, after_close_ops: 0 };
          if slots.len() < 3 {
            slots.push(ns);
          } else {
            drop_rx(log, t16, &mut ns);
          }
        }
      }
      COp::Close => {
        // the drainer keeps its first handle open (the statement's premise), others may close
        if drainer && si == 0 {
          continue;
        }
        let slot = &mut slots[si];
        let ev = Ev::new(t16, slot.id, Side::Rx, Form::Close, is_async);
        let idx = log.begin(ev);
        let r = catch_unwind(AssertUnwindSafe(|| match slot.h.as_mut().unwrap() {
          RxH::S(h) => h.close(),
          RxH::A(h) => h.close(),
        }));
        let mut o = Out::Ok;
        log.end(idx, |e| {
          match &r {
            Ok(Ok(())) => e.out = Out::Ok,
            Ok(Err(_)) => e.out = Out::CloseErr,
            Err(_) => e.out = Out::Panicked,
          }
          o = e.out;
        });
        if let Err(p) = r {
          let note = panic_note(p);
          let mut g = log.evs.lock().unwrap();
          g[idx].note = Some(note);
          panicked = true;
        }
        if o == Out::Ok {
          slot.closed = true;
        }
      }
      COp::Convert => convert_rx(log, t16, &mut slots[si], !is_async),
      _ => {
        let out = do_recv(log, t16, &mut slots[si], op, &mut rng, cancel, max);
        match out {
          Out::Panicked => panicked = true,
          Out::Disconnected | Out::StreamEnd => {
            if !slots[si].closed {
              slots[si].disconnected = true;
            }
          }
          Out::Empty | Out::Timeout => std::thread::yield_now(),
          Out::Ok if fl.oneshot() => oneshot_taken = true,
          _ => {}
        }
      }
    }
    if rng.chance(1, 8) {
      if let Some(h) = slots[si].h.as_ref() {
        let (len, cap) = match h {
          RxH::S(h) => (h.len(), h.capacity()),
          RxH::A(h) => (h.len(), h.capacity()),
        };
        if let Some(l) = len {
          let mut ev = Ev::new(t16, slots[si].id, Side::Rx, Form::Probe, false);
          ev.aux = l as u64;
          ev.aux2 = cap.map(|c| c as u64).unwrap_or(u64::MAX);
          let idx = log.begin(ev);
          log.end(idx, |e| e.out = Out::Ok);
        }
      }
    }
  }
  // Final drain: the designated drainer keeps receiving on its first handle until it
  // observes Disconnected (the premise of the exactly-once statement).
  if drainer && !scn.early_exit && !panicked && !oneshot_taken && slots[0].h.is_some() && !slots[0].closed {
    let mut empties: u64 = 0;
    let mut last_value = Instant::now();
    while !slots[0].disconnected && !sh.stop.load(Ordering::Relaxed) {
      let (is_async, has_stream) = match slots[0].h.as_ref().unwrap() {
        RxH::S(_) => (false, false),
        RxH::A(h) => (true, h.has_stream()),
      };
      let op = match scn.class {
        Class::Try => COp::TryRecv,
        Class::Timed if !is_async => COp::RecvTimeout,
        Class::Batch if fl.has_batch() => *rng.pick(&[COp::RecvBatch, COp::RecvBatchMut, COp::Recv]),
        Class::Async | Class::AsyncCancel | Class::Mixed if is_async && has_stream && rng.chance(1, 3) => COp::StreamNext,
        _ if fl.oneshot() => {
          if scn.class == Class::Try {
            COp::TryRecv
          } else {
            COp::Recv
          }
        }
        _ => COp::Recv,
      };
      let max = 1 + rng.below(16) as usize;
      let out = do_recv(log, t16, &mut slots[0], op, &mut rng, false, max);
      match out {
        Out::Disconnected | Out::StreamEnd => slots[0].disconnected = true,
        Out::Panicked => break,
        Out::Empty | Out::Timeout => {
          empties += 1;
          if empties < 16 {
            std::thread::yield_now();
          } else if empties < 256 {
            std::thread::sleep(Duration::from_micros(20));
          } else {
            std::thread::sleep(Duration::from_micros(300));
          }
        }
        Out::Ok if fl.oneshot() => {
          // the single value was taken: the channel has served its purpose
          break;
        }
        _ => {
          last_value = Instant::now();
          empties = 0;
        }
      }
      // Give up polling after a long dry spell; the verdict comes from the history
      // (rule D9 / the stuck oracle), never from this clock.
      if last_value.elapsed() > Duration::from_secs(15) {
        break;
      }
    }
  }
  // After Disconnected nothing may arrive any more: probe twice (a value here is rule D2).
  if drainer && !panicked && !fl.oneshot() && slots[0].disconnected && slots[0].h.is_some() && !slots[0].closed {
    for _ in 0..2 {
      if do_recv(log, t16, &mut slots[0], COp::TryRecv, &mut rng, false, 1) == Out::Panicked {
        break;
      }
    }
  }
  for s in slots.iter_mut() {
    if s.h.is_some() {
      drop_rx(log, t16, s);
    }
  }
}

// ------------------------------------------------------------------------------------------
// Execution + stuck oracle
// ------------------------------------------------------------------------------------------

pub struct ExecOutcome {
  pub scn: Scenario,
  pub evs: Vec<Ev>,
  pub meta: Meta,
  pub complete: bool,
  /// Threads were left behind (stuck); the process must not start a new ledger epoch.
  pub leaked_threads: bool,
  pub stuck: Option<StuckReport>,
  pub ledger: Option<val::LedgerReport>,
  pub chaos: chaos::Totals,
  pub wall: Duration,
}

#[derive(Clone, Debug)]
pub struct StuckReport {
  pub blocked: Vec<Value>,
  pub model_enabled: bool,
  pub nudge_released: bool,
  pub forced_ready: u64,
  pub canary_max_gap_us: u64,
  pub any_async_blocked: bool,
  pub any_sync_blocked: bool,
  /// kernel-level confirmation that every unfinished worker was asleep (state S) through a
  /// sampling window right before the nudge; `Some(false)` = runnable (starved or spinning)
  pub parked: Option<bool>,
  pub parked_detail: String,
  pub reason: String,
}

impl StuckReport {
  /// True when the report supports a "parked forever although progress was possible" verdict:
  /// healthy scheduler canary, the unfinished workers were really asleep (kernel view) and
  /// either a legal nudge released one of them or the history model shows a blocked operation
  /// enabled. Everything else is inconclusive.
  pub fn decisive(&self, cfg: &StuckCfg) -> bool {
    self.canary_max_gap_us <= cfg.canary_limit_us && self.parked != Some(false) && (self.nudge_released || self.model_enabled)
  }
  pub fn why_inconclusive(&self, cfg: &StuckCfg) -> String {
    if self.canary_max_gap_us > cfg.canary_limit_us {
      format!("stuck window with unhealthy canary ({} us)", self.canary_max_gap_us)
    } else if self.parked == Some(false) {
      "quiet window with runnable (starved or spinning) threads: not a parked-forever verdict".to_string()
    } else {
      format!("stuck but not decidable: {}", self.reason)
    }
  }
}

pub struct StuckCfg {
  pub quiet: Duration,
  pub confirmations: u32,
  pub canary_limit_us: u64,
}

impl Default for StuckCfg {
  fn default() -> Self {
    StuckCfg { quiet: Duration::from_millis(1200), confirmations: 3, canary_limit_us: 250_000 }
  }
}

/// Decides from the recorded history whether some blocked operation is *enabled*
/// (conservative counts: only completed operations are trusted).
fn model_enabled(evs: &[Ev], scn: &Scenario, cap: usize) -> (bool, Vec<Value>, bool, bool) {
  let fl = scn.flavour;
  let mut sent_def: i64 = 0;
  let mut maybe: i64 = 0;
  let mut recvd: i64 = 0;
  for e in evs {
    if e.form.is_send() {
      if e.is_open() {
        maybe += e.vals.len() as i64;
      } else {
        match e.out {
          Out::Ok if matches!(e.form, Form::Send | Form::TrySend) => sent_def += 1,
          Out::Cancelled | Out::Panicked => maybe += e.vals.len() as i64,
          _ => sent_def += e.n_ok as i64,
        }
      }
    } else if e.form.is_recv() && !e.is_open() {
      recvd += e.vals.len() as i64;
    }
  }
  // handle liveness
  let mut tx_handles: std::collections::BTreeMap<u32, bool> = Default::default();
  let mut rx_handles: std::collections::BTreeMap<u32, bool> = Default::default();
  for e in evs {
    let m = if e.side == Side::Tx { &mut tx_handles } else { &mut rx_handles };
    m.entry(e.handle).or_insert(false);
    if e.form == Form::Clone && e.out == Out::Ok {
      m.entry(e.aux as u32).or_insert(false);
    }
    let gone = !e.is_open()
      && (e.form == Form::Drop || (e.form == Form::Close && e.out == Out::Ok) || (fl.oneshot() && e.form == Form::TrySend));
    if gone {
      m.insert(e.handle, true);
    }
  }
  let senders_gone = !tx_handles.is_empty() && tx_handles.values().all(|g| *g);
  let receivers_gone = !rx_handles.is_empty() && rx_handles.values().all(|g| *g);
  let open: Vec<&Ev> = evs.iter().filter(|e| e.is_open()).collect();
  let open_block_send = open.iter().any(|e| e.form.is_send() && e.form.is_blocking());
  let open_block_recv = open.iter().any(|e| e.form.is_recv() && e.form.is_blocking());
  let mut any = false;
  let mut blocked = Vec::new();
  let mut any_async = false;
  let mut any_sync = false;
  for e in &open {
    let mut why = "not enabled according to the history model";
    let mut en = false;
    if e.form.is_recv() {
      if sent_def - recvd > 0 {
        en = true;
        why = "values sent-OK exceed values received";
      } else if senders_gone {
        en = true;
        why = "every sender handle is closed/dropped";
      } else if fl.rendezvous() && open_block_send {
        en = true;
        why = "a sender is blocked in send on this rendezvous channel";
      }
    } else if e.form.is_send() {
      if receivers_gone {
        en = true;
        why = "every receiver handle is closed/dropped";
      } else if fl.unbounded() {
        en = true;
        why = "unbounded channel";
      } else if fl.bounded() && sent_def + maybe - recvd - (e.vals.len() as i64) < cap as i64 && sent_def - recvd < cap as i64 {
        en = true;
        why = "fewer values buffered than capacity";
      } else if fl.rendezvous() && open_block_recv {
        en = true;
        why = "a receiver is blocked in recv on this rendezvous channel";
      }
    }
    if e.is_async {
      any_async = true;
    } else {
      any_sync = true;
    }
    any |= en;
    let mut j = e.to_json();
    j.as_object_mut().unwrap().insert("enabled".into(), json!(en));
    j.as_object_mut().unwrap().insert("why".into(), json!(why));
    blocked.push(j);
  }
  (any, blocked, any_async, any_sync)
}

/// Inputs of the progress monitor (stuck oracle), so several engines can share it.
pub struct WatchIn<'a> {
  pub done: &'a dyn Fn() -> bool,
  /// thread slots (as recorded in `Ev::thread`) that have not finished
  pub unfinished: &'a dyn Fn() -> Vec<usize>,
  pub history: &'a dyn Fn() -> Vec<Ev>,
  pub threads: &'a dyn Fn() -> Vec<std::thread::Thread>,
  /// (some blocked op enabled?, blocked ops as JSON, any async blocked, any sync blocked)
  pub model: &'a dyn Fn(&[Ev]) -> (bool, Vec<Value>, bool, bool),
}

/// Watches a running scenario until every thread is done or it is stuck. Wall-clock only
/// decides *when to look*; the verdict needs: no progress through `confirmations` quiet
/// windows, every unfinished thread inside a blocking call, a healthy scheduler canary, and
/// then either a legal nudge (spurious unpark / spontaneous re-poll) releases a thread or the
/// history model shows a blocked operation enabled. Returns (report, threads left behind).
pub fn watch(w: &WatchIn<'_>, cfg: &StuckCfg, canary: &Canary) -> (Option<StuckReport>, bool) {
  let mut last_progress = stuck::progress_value();
  let mut last_change = Instant::now();
  let mut confirmations = 0u32;
  let mut stuck_report: Option<StuckReport> = None;
  let mut leaked = false;
  canary.reset();
  let mut spins = 0u32;
  loop {
    if (w.done)() {
      break;
    }
    spins += 1;
    if spins < 200 {
      std::thread::sleep(Duration::from_micros(200));
    } else {
      std::thread::sleep(Duration::from_millis(2));
    }
    let p = stuck::progress_value();
    if p != last_progress {
      last_progress = p;
      last_change = Instant::now();
      confirmations = 0;
      canary.reset();
      continue;
    }
    if last_change.elapsed() < cfg.quiet * (confirmations + 1) {
      continue;
    }
    // Quiet period elapsed: look at the history.
    let evs = (w.history)();
    let unfinished: Vec<usize> = (w.unfinished)();
    let all_blocked = unfinished.iter().all(|&t| evs.iter().any(|e| e.thread as usize == t && e.is_open()));
    let only_blocking_forms = evs.iter().filter(|e| e.is_open()).all(|e| e.form.is_blocking());
    if !all_blocked || !only_blocking_forms {
      // somebody is between operations or inside a non-blocking / timed call: just slow
      if last_change.elapsed() > Duration::from_secs(60) {
        stuck_report = Some(StuckReport {
          blocked: evs.iter().filter(|e| e.is_open()).map(|e| e.to_json()).collect(),
          model_enabled: false,
          nudge_released: false,
          forced_ready: 0,
          canary_max_gap_us: canary.max_gap_us(),
          any_async_blocked: false,
          any_sync_blocked: false,
          parked: None,
          parked_detail: String::new(),
          reason: "no progress for 60 s while a thread is outside a blocking call (harness or timed-call livelock)".into(),
        });
        leaked = true;
        break;
      }
      continue;
    }
    confirmations += 1;
    if confirmations < cfg.confirmations {
      continue;
    }
    let gap = canary.max_gap_us();
    let (enabled, blocked, any_async, any_sync) = (w.model)(&evs);
    let threads = (w.threads)();
    // Kernel view: are the unfinished workers asleep, or merely not getting CPU / spinning?
    let (parked, parked_detail) = if cfg!(miri) {
      // Under Miri there is no kernel view of the threads and interpretation is slow enough for 3.6 s without a
      // completed operation to mean nothing: the Miri slice looks for undefined behaviour, progress verdicts are
      // left to the native runs.
      (Some(false), "interpreted by Miri: no progress verdicts".to_string())
    } else {
      stuck::workers_asleep(25, Duration::from_millis(20))
    };
    if parked == Some(false) && std::env::var("VH_GDB").is_ok() {
      // triage aid: where are the runnable threads?
      let pid = std::process::id();
      let out = std::process::Command::new("gdb")
        .args(["-p", &pid.to_string(), "-batch", "-ex", "thread apply all bt 25"])
        .output();
      if let Ok(o) = out {
        let _ = std::fs::write(format!("/verif/replays/gdb-{}.txt", pid), o.stdout);
      }
    }
    // Nudge: a spurious unpark of every worker, and a spontaneous re-poll of every pending
    // future, are both legal events that change nothing in the channel. If they release a
    // thread, its operation had been possible all along.
    let before = stuck::progress_value();
    let forced0 = vh_core::stepper::FORCED_READY.load(Ordering::SeqCst);
    vh_core::stepper::FORCE_POLL.store(true, Ordering::SeqCst);
    for _ in 0..3 {
      for t in &threads {
        t.unpark();
      }
      std::thread::sleep(Duration::from_millis(150));
    }
    let released = stuck::progress_value() != before;
    // give released threads a chance to finish
    let t_wait = Instant::now();
    while !(w.done)() && t_wait.elapsed() < Duration::from_millis(1500) {
      for t in &threads {
        t.unpark();
      }
      std::thread::sleep(Duration::from_millis(20));
    }
    vh_core::stepper::FORCE_POLL.store(false, Ordering::SeqCst);
    let forced = vh_core::stepper::FORCED_READY.load(Ordering::SeqCst) - forced0;
    let reason = if gap > cfg.canary_limit_us {
      "scheduler canary unhealthy during the quiet window".to_string()
    } else if parked == Some(false) {
      format!("unfinished threads were runnable (starved or spinning), not parked: {}", parked_detail)
    } else if released {
      "a legal spurious wake / spontaneous re-poll released a thread that had been parked through the whole quiet window".to_string()
    } else if enabled {
      "an operation that the recorded history shows to be possible stayed blocked, even after a spurious wake".to_string()
    } else {
      "all threads blocked and the history model finds no enabled operation (scenario not closed?)".to_string()
    };
    stuck_report = Some(StuckReport {
      blocked,
      model_enabled: enabled,
      nudge_released: released,
      forced_ready: forced,
      canary_max_gap_us: gap,
      any_async_blocked: any_async,
      any_sync_blocked: any_sync,
      parked,
      parked_detail,
      reason,
    });
    if !(w.done)() {
      leaked = true;
    }
    break;
  }
  (stuck_report, leaked)
}

pub fn execute(scn: Scenario, cfg: &StuckCfg, canary: &Canary, ledger_on: bool) -> ExecOutcome {
  let t0 = Instant::now();
  let fl = scn.flavour;
  let nthreads = scn.producers + scn.consumers;
  vh_core::reset_stamp();
  if ledger_on {
    val::ledger_reset();
  }
  chaos::set_profile(&scn.profile);
  let _ = chaos::take_totals();
  let (tx0, rx0) = make(fl, scn.cap, scn.async_ctor);
  let sh = Arc::new(Shared {
    scn: scn.clone(),
    next_handle: AtomicU32::new(1),
    logs: (0..nthreads).map(|_| Arc::new(Log::default())).collect(),
    state: (0..nthreads).map(|_| AtomicU8::new(ST_RUN)).collect(),
    stop: AtomicBool::new(false),
    cap_reported: std::sync::Mutex::new(None),
    live_consumers: AtomicU32::new(scn.consumers as u32),
  });
  crate::hist::reset_phase_counters();
  // Hand out initial handles: producer 0 owns the original sender, others get clones made
  // here (recorded as Clone events of producer 0's log before the threads start).
  let mut txs: Vec<(TxH, u32)> = Vec::new();
  let id0 = sh.next_handle.fetch_add(1, Ordering::SeqCst);
  for p in 1..scn.producers {
    let nid = sh.next_handle.fetch_add(1, Ordering::SeqCst);
    let c = match &tx0 {
      TxH::S(h) => h.try_clone().map(TxH::S),
      TxH::A(h) => h.try_clone().map(TxH::A),
    }
    .expect("multi-producer flavour must clone");
    let mut ev = Ev::new(0, id0, Side::Tx, Form::Clone, false);
    ev.aux = nid as u64;
    let idx = sh.logs[0].begin(ev);
    sh.logs[0].end(idx, |e| e.out = Out::Ok);
    let _ = p;
    txs.push((c, nid));
  }
  txs.insert(0, (tx0, id0));
  let mut rxs: Vec<(RxH, u32)> = Vec::new();
  let rid0 = sh.next_handle.fetch_add(1, Ordering::SeqCst);
  for _ in 1..scn.consumers {
    let nid = sh.next_handle.fetch_add(1, Ordering::SeqCst);
    let c = match &rx0 {
      RxH::S(h) => h.try_clone().map(RxH::S),
      RxH::A(h) => h.try_clone().map(RxH::A),
    }
    .expect("multi-consumer flavour must clone");
    let mut ev = Ev::new(scn.producers as u16, rid0, Side::Rx, Form::Clone, false);
    ev.aux = nid as u64;
    let idx = sh.logs[scn.producers].begin(ev);
    sh.logs[scn.producers].end(idx, |e| e.out = Out::Ok);
    rxs.push((c, nid));
  }
  rxs.insert(0, (rx0, rid0));

  let start = Arc::new(std::sync::Barrier::new(nthreads + 1));
  let mut joins: Vec<Option<std::thread::JoinHandle<()>>> = Vec::new();
  let mut threads: Vec<std::thread::Thread> = Vec::new();
  for (tid, (h, id)) in txs.into_iter().enumerate() {
    let sh2 = sh.clone();
    let st = start.clone();
    let j = std::thread::Builder::new()
      .name(format!("vh-p{}", tid))
      .spawn(move || {
        st.wait();
        let r = catch_unwind(AssertUnwindSafe(|| run_producer(&sh2, tid, h, id)));
        if let Err(p) = r {
          let mut ev = Ev::new(tid as u16, 0, Side::Tx, Form::Probe, false);
          ev.note = Some(format!("harness thread panicked: {}", panic_note(p)));
          let idx = sh2.logs[tid].begin(ev);
          sh2.logs[tid].end(idx, |e| e.out = Out::Panicked);
        }
        chaos::leave();
        sh2.state[tid].store(ST_DONE, Ordering::SeqCst);
      })
      .unwrap();
    threads.push(j.thread().clone());
    joins.push(Some(j));
  }
  for (k, (h, id)) in rxs.into_iter().enumerate() {
    let tid = scn.producers + k;
    let sh2 = sh.clone();
    let st = start.clone();
    let j = std::thread::Builder::new()
      .name(format!("vh-c{}", k))
      .spawn(move || {
        st.wait();
        let r = catch_unwind(AssertUnwindSafe(|| run_consumer(&sh2, tid, h, id, k == 0)));
        sh2.live_consumers.fetch_sub(1, Ordering::SeqCst);
        {
          let _g = crate::hist::PHASE_LOCK.lock();
          crate::hist::PHASE_CV.notify_all();
        }
        if let Err(p) = r {
          let mut ev = Ev::new(tid as u16, 0, Side::Rx, Form::Probe, false);
          ev.note = Some(format!("harness thread panicked: {}", panic_note(p)));
          let idx = sh2.logs[tid].begin(ev);
          sh2.logs[tid].end(idx, |e| e.out = Out::Panicked);
        }
        chaos::leave();
        sh2.state[tid].store(ST_DONE, Ordering::SeqCst);
      })
      .unwrap();
    threads.push(j.thread().clone());
    joins.push(Some(j));
  }
  // Spurious-unpark gremlin (legal: park may return spuriously at any time).
  let gremlin_stop = Arc::new(AtomicBool::new(false));
  let gremlin = if scn.gremlin {
    let ts = threads.clone();
    let gs = gremlin_stop.clone();
    let seed = scn.seed;
    Some(std::thread::spawn(move || {
      let mut rng = Rng::new(seed ^ 0x6772656d);
      while !gs.load(Ordering::Relaxed) {
        ts[rng.below(ts.len() as u64) as usize].unpark();
        std::thread::sleep(Duration::from_micros(rng.range(20, 600)));
      }
    }))
  } else {
    None
  };
  start.wait();

  // ---- monitor loop
  let (stuck_report, leaked) = {
    let shd = sh.clone();
    let shu = sh.clone();
    let shh = sh.clone();
    let thr = threads.clone();
    let scn_m = scn.clone();
    let shc = sh.clone();
    watch(
      &WatchIn {
        done: &move || shd.state.iter().all(|s| s.load(Ordering::SeqCst) == ST_DONE),
        unfinished: &move || (0..nthreads).filter(|&t| shu.state[t].load(Ordering::SeqCst) != ST_DONE).collect(),
        history: &move || merge(&shh.logs),
        threads: &move || thr.clone(),
        model: &move |evs: &[Ev]| {
          let cap = shc.cap_reported.lock().unwrap().unwrap_or(scn_m.cap);
          model_enabled(evs, &scn_m, cap)
        },
      },
      cfg,
      canary,
    )
  };
  gremlin_stop.store(true, Ordering::Relaxed);
  if let Some(g) = gremlin {
    let _ = g.join();
  }
  sh.stop.store(true, Ordering::SeqCst);
  if !leaked {
    for j in joins.iter_mut() {
      if let Some(j) = j.take() {
        let _ = j.join();
      }
    }
  }
  let evs = merge(&sh.logs);
  let complete = !leaked && stuck_report.is_none();
  let cap_reported = *sh.cap_reported.lock().unwrap();
  let meta = Meta { flavour: fl, class: scn.class.name().to_string(), cap_requested: scn.cap, cap_reported, complete };
  let ledger = if ledger_on && !leaked { Some(val::ledger_report()) } else { None };
  let totals = chaos::take_totals();
  ExecOutcome {
    scn,
    evs,
    meta,
    complete,
    leaked_threads: leaked,
    stuck: stuck_report,
    ledger,
    chaos: totals,
    wall: t0.elapsed(),
  }
}

/// Findings derived from the stuck oracle and the drop ledger (C05 / C06 / C09).
pub fn extra_findings(o: &ExecOutcome, cfg: &StuckCfg) -> (Vec<Finding>, Vec<String>) {
  let mut f = Vec::new();
  let mut inconclusive = Vec::new();
  if let Some(s) = &o.stuck {
    if s.canary_max_gap_us > cfg.canary_limit_us {
      inconclusive.push(format!("stuck window with unhealthy canary ({} us)", s.canary_max_gap_us));
    } else if s.parked == Some(false) {
      inconclusive.push("quiet window with runnable (starved or spinning) threads: not a parked-forever verdict".to_string());
    } else if s.nudge_released || s.model_enabled {
      let async_only = s.any_async_blocked && !s.any_sync_blocked;
      let prop = if async_only || (s.forced_ready > 0 && !s.any_sync_blocked) { "C06" } else { "C05" };
      let forms: std::collections::BTreeSet<String> = s
        .blocked
        .iter()
        .filter_map(|b| b.get("op").and_then(|x| x.as_str()).map(|x| x.to_string()))
        .collect();
      f.push(Finding {
        prop,
        rule: if prop == "C06" { "stuck-async".to_string() } else { "stuck".to_string() },
        summary: format!(
          "threads stayed blocked in [{}] although progress was possible: {}",
          forms.into_iter().collect::<Vec<_>>().join(", "),
          s.reason
        ),
        detail: json!({"blocked": s.blocked, "model_enabled": s.model_enabled, "nudge_released": s.nudge_released,
          "spontaneous_repolls_ready": s.forced_ready, "canary_max_gap_us": s.canary_max_gap_us,
          "workers_asleep": s.parked, "worker_states": s.parked_detail}),
      });
      // the disconnect clause: once the other side is gone a blocked / pending operation must end with
      // Closed / Disconnected, it may not stay blocked
      let gone: Vec<&Value> = s
        .blocked
        .iter()
        .filter(|b| b.get("why").and_then(|w| w.as_str()).map_or(false, |w| w.starts_with("every receiver handle") || w.starts_with("every sender handle")))
        .collect();
      if !gone.is_empty() {
        let is_send = gone[0].get("why").and_then(|w| w.as_str()).map_or(false, |w| w.starts_with("every receiver"));
        f.push(Finding {
          prop: "C04",
          rule: if is_send { "send-blocked-after-receivers-gone".to_string() } else { "recv-blocked-after-senders-gone".to_string() },
          summary: format!(
            "{} stayed blocked / pending after every {} handle had been closed or dropped: it never reported {}",
            gone[0].get("op").and_then(|x| x.as_str()).unwrap_or("?"),
            if is_send { "receiver" } else { "sender" },
            if is_send { "Closed" } else { "Disconnected" }
          ),
          detail: json!({"blocked": s.blocked, "nudge_released": s.nudge_released}),
        });
      }
    } else {
      inconclusive.push(format!("stuck but not decidable: {}", s.reason));
    }
  }
  if let Some(l) = &o.ledger {
    let any_panic = o.evs.iter().any(|e| e.out == Out::Panicked);
    if !any_panic {
      if !l.multi.is_empty() {
        f.push(Finding {
          prop: "C09",
          rule: "double-drop".into(),
          summary: format!("{} payload(s) were dropped more than once", l.multi.len()),
          detail: json!({"values": l.multi.iter().take(10).map(|(id, c)| format!("{}:{} x{}", id >> 32, id & 0xffff_ffff, c)).collect::<Vec<_>>()}),
        });
      }
      if !l.leaked.is_empty() {
        f.push(Finding {
          prop: "C09",
          rule: "leak".into(),
          summary: format!("{} payload(s) were never dropped after every handle and future was gone", l.leaked.len()),
          detail: json!({"values": l.leaked.iter().take(10).map(|id| format!("{}:{}", id >> 32, id & 0xffff_ffff)).collect::<Vec<_>>(),
            "constructed": l.constructed}),
        });
      }
    }
  }
  // harness self-check: a panic inside harness code is a broken check, never a violation
  for e in &o.evs {
    if e.form == Form::Probe && e.out == Out::Panicked {
      inconclusive.push(format!("HARNESS-PANIC {}", e.note.clone().unwrap_or_default()));
    }
  }
  (f, inconclusive)
}

pub fn analyse(o: &ExecOutcome) -> oracle::Analysis {
  oracle::analyse(&o.evs, &o.meta)
}
