//! chan_seq — sequential differential for the queue flavours (the "operations do not overlap"
//! clauses of C02 and C03, and the sequential part of C04): generated single-threaded
//! programs of non-blocking operations (and blocking ones that cannot block in the model
//! state) over several cloned handles are run against a `VecDeque` model; every result -
//! values, Full, Empty, Closed, Disconnected, batch counts, hand-backs, len() - must equal
//! the model's.

use fibre::error::*;
use serde_json::json;
use std::collections::VecDeque;
use std::panic::{catch_unwind, AssertUnwindSafe};
use vh_channels::adapt::*;
use vh_channels::val::{vid, Val};
use vh_core::cli::Args;
use vh_core::result::ShardResult;
use vh_core::rng::Rng;
use vh_core::stepper::block_on;

/// Description + start of the blocking call in flight (single-threaded program: if such a call
/// does not return nobody else can ever release it, so a long wait is a definitive hang).
static IN_FLIGHT: std::sync::Mutex<Option<(String, std::time::Instant)>> = std::sync::Mutex::new(None);

fn guarded<R>(desc: String, f: impl FnOnce() -> R) -> R {
  *IN_FLIGHT.lock().unwrap() = Some((desc, std::time::Instant::now()));
  let r = f();
  *IN_FLIGHT.lock().unwrap() = None;
  r
}

struct Tx {
  h: Option<TxH>,
  id: u32,
  seq: u32,
  closed: bool,
}
struct Rx {
  h: Option<RxH>,
  closed: bool,
}

struct Finding {
  prop: &'static str,
  rule: String,
  summary: String,
}

fn ids(vs: &[Val]) -> Vec<u64> {
  vs.iter().map(|v| v.wid()).collect()
}

fn run(fl: Flavour, cap: usize, steps: usize, rng: &mut Rng) -> (Vec<Finding>, Vec<String>, bool) {
  let mut f: Vec<Finding> = vec![];
  let mut trace: Vec<String> = vec![];
  let (tx, rx) = make(fl, cap, rng.chance(1, 2));
  let mut txs = vec![Tx { h: Some(tx), id: 1, seq: 0, closed: false }];
  let mut rxs = vec![Rx { h: Some(rx), closed: false }];
  let mut q: VecDeque<u64> = VecDeque::new();
  let bounded = fl.bounded();
  let mut wrapped = false;
  let mut total_sent = 0usize;
  macro_rules! fail {
    ($prop:expr, $rule:expr, $($arg:tt)*) => {{
      f.push(Finding { prop: $prop, rule: $rule.to_string(), summary: format!($($arg)*) });
    }};
  }
  for _ in 0..steps {
    if !f.is_empty() {
      break;
    }
    let live_tx = txs.iter().filter(|t| t.h.is_some() && !t.closed).count();
    let live_rx = rxs.iter().filter(|r| r.h.is_some() && !r.closed).count();
    match rng.weighted(&[10, 10, 5, 5, 4, 4, 2, 2, 1, 1, 2, 2]) {
      // try_send / send-when-room
      0 => {
        let c: Vec<usize> = (0..txs.len()).filter(|&i| txs[i].h.is_some()).collect();
        if c.is_empty() {
          continue;
        }
        let i = c[rng.below(c.len() as u64) as usize];
        let t = &mut txs[i];
        let id = vid(t.id, t.seq);
        t.seq += 1;
        let full = bounded && q.len() >= cap;
        let expect_closed = t.closed || live_rx == 0;
        // a blocking / async send is only issued when the model says it cannot block
        // mpsc bounded releases *waiting* senders only on the consumer's K-cadenced progress
        // publication (known finding, see known_findings.jsonl: C06/mpsc_bounded/lost-wake-send):
        // in a single-threaded program such a send would hang for good, so only try_send is
        // used there.
        let blocking = !full && !expect_closed && rng.chance(1, 3) && fl != Flavour::MpscBounded;
        let v = Val::new(id);
        let r: Result<(), (String, Option<u64>)> = match (t.h.as_mut().unwrap(), blocking) {
          (TxH::S(h), true) => {
            let d = format!("C03|{}|blocking-send-never-returns-although-room|sequential|send with {} of {} slots occupied; trace tail: {:?}", fl.name(), q.len(), cap, trace.iter().rev().take(6).collect::<Vec<_>>());
            guarded(d, || h.send(v)).map_err(|e| (format!("{:?}", e), None))
          }
          (TxH::A(h), true) => {
            let d = format!("C03|{}|async-send-never-completes-although-room|sequential|send with {} of {} slots occupied; trace tail: {:?}", fl.name(), q.len(), cap, trace.iter().rev().take(6).collect::<Vec<_>>());
            guarded(d, || block_on(h.send(v))).map_err(|e| (format!("{:?}", e), None))
          }
          (TxH::S(h), false) => h.try_send(v).map_err(|e| match e {
            TrySendError::Full(v) => ("Full".into(), Some(v.wid())),
            TrySendError::Closed(v) => ("Closed".into(), Some(v.wid())),
            TrySendError::Sent(v) => ("Sent".into(), Some(v.wid())),
          }),
          (TxH::A(h), false) => h.try_send(v).map_err(|e| match e {
            TrySendError::Full(v) => ("Full".into(), Some(v.wid())),
            TrySendError::Closed(v) => ("Closed".into(), Some(v.wid())),
            TrySendError::Sent(v) => ("Sent".into(), Some(v.wid())),
          }),
        };
        trace.push(format!("tx{}.{}({}) -> {:?}   [model len {}]", i, if blocking { "send" } else { "try_send" }, id & 0xffff_ffff, r, q.len()));
        match (&r, expect_closed, full) {
          (Ok(()), false, false) => {
            q.push_back(id);
            total_sent += 1;
            if total_sent > cap {
              wrapped = true;
            }
          }
          (Ok(()), true, _) => fail!("C04", "send-accepted-when-closed", "a send succeeded although {}", if t.closed { "the handle was closed" } else { "no receiver is left" }),
          (Ok(()), _, true) => fail!("C03", "try_send-succeeded-when-full", "try_send succeeded with {} of {} slots occupied", q.len(), cap),
          (Err((e, back)), closed, full) => {
            let want = if closed { "Closed" } else if full { "Full" } else { "Ok" };
            if e.as_str() != want {
              fail!(
                if want == "Closed" || e == "Closed" { "C04" } else { "C03" },
                format!("try_send-{}-expected-{}", e.to_lowercase(), want.to_lowercase()),
                "try_send reported {} where the queue model says {} (len {}, capacity {}, closed side: {})",
                e, want, q.len(), cap, closed
              );
            }
            if !blocking && *back != Some(id) {
              fail!("C01", "handback", "try_send failed without handing the value back intact");
            }
          }
        }
      }
      // try_recv / recv-when-nonempty
      1 => {
        let c: Vec<usize> = (0..rxs.len()).filter(|&i| rxs[i].h.is_some()).collect();
        if c.is_empty() {
          continue;
        }
        let i = c[rng.below(c.len() as u64) as usize];
        let rxc = rxs[i].closed;
        let blocking = !q.is_empty() && !rxc && rng.chance(1, 3);
        let r: Result<u64, String> = match (rxs[i].h.as_mut().unwrap(), blocking) {
          (RxH::S(h), true) => {
            let d = format!("C02|{}|blocking-recv-never-returns-although-values-queued|sequential|recv with {} values queued; trace tail: {:?}", fl.name(), q.len(), trace.iter().rev().take(6).collect::<Vec<_>>());
            guarded(d, || h.recv()).map(|v| v.wid()).map_err(|e| format!("{:?}", e))
          }
          (RxH::A(h), true) => {
            let d = format!("C02|{}|async-recv-never-completes-although-values-queued|sequential|recv with {} values queued; trace tail: {:?}", fl.name(), q.len(), trace.iter().rev().take(6).collect::<Vec<_>>());
            guarded(d, || block_on(h.recv())).map(|v| v.wid()).map_err(|e| format!("{:?}", e))
          }
          (RxH::S(h), false) => h.try_recv().map(|v| v.wid()).map_err(|e| format!("{:?}", e)),
          (RxH::A(h), false) => h.try_recv().map(|v| v.wid()).map_err(|e| format!("{:?}", e)),
        };
        trace.push(format!("rx{}.{} -> {:?}   [model len {}]", i, if blocking { "recv" } else { "try_recv" }, r.as_ref().map(|v| v & 0xffff_ffff), q.len()));
        if rxc {
          if r.is_ok() {
            fail!("C04", "closed-receiver-still-receives", "a receive on a closed handle returned a value");
          }
          continue;
        }
        match (q.front().copied(), r) {
          (Some(e), Ok(g)) => {
            if e != g {
              fail!("C02", "not-fifo", "the queue model says the next value is {}:{} but {}:{} was returned", e >> 32, e & 0xffff_ffff, g >> 32, g & 0xffff_ffff);
            }
            q.pop_front();
          }
          (Some(e), Err(err)) => fail!(
            if err.contains("Disconnected") { "C04" } else { "C02" },
            format!("try_recv-{}-with-values-queued", err.to_lowercase()),
            "try_recv reported {} although {} value(s) are queued (next {}:{})",
            err, q.len(), e >> 32, e & 0xffff_ffff
          ),
          (None, Ok(g)) => fail!("C01", "phantom-or-duplicate", "a receive returned {}:{} from an empty queue", g >> 32, g & 0xffff_ffff),
          (None, Err(err)) => {
            let want = if live_tx == 0 { "Disconnected" } else { "Empty" };
            if !err.contains(want) {
              fail!("C04", format!("try_recv-{}-expected-{}", err.to_lowercase(), want.to_lowercase()), "try_recv on an empty queue reported {} with {} open sender handle(s)", err, live_tx);
            }
          }
        }
      }
      // try_send_batch (owned) / try_send_batch_mut
      2 | 3 if fl.has_batch() => {
        let c: Vec<usize> = (0..txs.len()).filter(|&i| txs[i].h.is_some() && !txs[i].closed).collect();
        if c.is_empty() || live_rx == 0 {
          continue;
        }
        let i = c[rng.below(c.len() as u64) as usize];
        let n = rng.range(0, (cap as u64 + 3).min(9)) as usize;
        let t = &mut txs[i];
        let mut vs = vec![];
        for _ in 0..n {
          vs.push(Val::new(vid(t.id, t.seq)));
          t.seq += 1;
        }
        let want_ids = ids(&vs);
        let room = if bounded { cap - q.len().min(cap) } else { usize::MAX };
        let expect_sent = n.min(room);
        let owned = rng.chance(1, 2);
        let (sent, back, label): (usize, Vec<u64>, String) = if owned {
          let r = match t.h.as_mut().unwrap() {
            TxH::S(h) => h.try_send_batch(vs),
            TxH::A(h) => h.try_send_batch(vs),
          };
          match r {
            Ok(k) => (k, vec![], format!("Ok({})", k)),
            Err(e) => (e.sent, ids(&e.unsent), format!("Err(sent {}, unsent {}, {:?})", e.sent, e.unsent.len(), e.reason)),
          }
        } else {
          let r = match t.h.as_mut().unwrap() {
            TxH::S(h) => h.try_send_batch_mut(&mut vs),
            TxH::A(h) => h.try_send_batch_mut(&mut vs),
          };
          match r {
            Ok(k) => (k, ids(&vs), format!("Ok({})", k)),
            Err(_) => (0, ids(&vs), "Err(Closed)".into()),
          }
        };
        trace.push(format!("tx{}.try_send_batch{}({} values) -> {}   [model len {}]", i, if owned { "" } else { "_mut" }, n, label, q.len()));
        if sent != expect_sent {
          fail!("C03", "try_send_batch-count", "try_send_batch sent {} of {} values where the queue model has room for exactly {}", sent, n, expect_sent);
        }
        if back[..] != want_ids[sent.min(n)..] {
          fail!("C01", "handback-batch", "the unsent remainder is not exactly input[sent..]");
        }
        for id in &want_ids[..sent.min(n)] {
          q.push_back(*id);
          total_sent += 1;
        }
        if total_sent > cap {
          wrapped = true;
        }
      }
      // try_recv_batch / try_recv_batch_mut
      4 | 5 if fl.has_batch() => {
        let c: Vec<usize> = (0..rxs.len()).filter(|&i| rxs[i].h.is_some() && !rxs[i].closed).collect();
        if c.is_empty() {
          continue;
        }
        let i = c[rng.below(c.len() as u64) as usize];
        let max = rng.range(0, 6) as usize;
        let owned = rng.chance(1, 2);
        let mut out = vec![];
        let r: Result<Vec<u64>, String> = if owned {
          match rxs[i].h.as_mut().unwrap() {
            RxH::S(h) => h.try_recv_batch(max),
            RxH::A(h) => h.try_recv_batch(max),
          }
          .map(|vs| ids(&vs))
          .map_err(|e| format!("{:?}", e))
        } else {
          match rxs[i].h.as_mut().unwrap() {
            RxH::S(h) => h.try_recv_batch_mut(&mut out, max),
            RxH::A(h) => h.try_recv_batch_mut(&mut out, max),
          }
          .map(|_| ids(&out))
          .map_err(|e| format!("{:?}", e))
        };
        trace.push(format!("rx{}.try_recv_batch{}({}) -> {:?}   [model len {}]", i, if owned { "" } else { "_mut" }, max, r.as_ref().map(|v| v.len()), q.len()));
        let expect: Vec<u64> = q.iter().take(max).copied().collect();
        match r {
          Ok(got) => {
            if got != expect && !(max == 0 && got.is_empty()) {
              fail!("C02", "batch-not-fifo-prefix", "try_recv_batch({}) returned {} values that are not the first {} of the queue model ({} queued)", max, got.len(), expect.len(), q.len());
            }
            for _ in 0..got.len().min(q.len()) {
              q.pop_front();
            }
          }
          Err(e) => {
            if !expect.is_empty() {
              fail!("C02", "try_recv_batch-error-with-values-queued", "try_recv_batch({}) reported {} although {} values are queued", max, e, q.len());
            } else if max > 0 {
              let want = if live_tx == 0 { "Disconnected" } else { "Empty" };
              if !e.contains(want) {
                fail!("C04", format!("try_recv_batch-{}-expected-{}", e.to_lowercase(), want.to_lowercase()), "try_recv_batch on an empty queue reported {} with {} open sender(s)", e, live_tx);
              }
            }
          }
        }
      }
      // clone sender
      6 => {
        if txs.len() < 4 {
          let c: Vec<usize> = (0..txs.len()).filter(|&i| txs[i].h.is_some() && !txs[i].closed).collect();
          if let Some(&i) = c.first() {
            let cl = match txs[i].h.as_ref().unwrap() {
              TxH::S(h) => h.try_clone().map(TxH::S),
              TxH::A(h) => h.try_clone().map(TxH::A),
            };
            if let Some(cl) = cl {
              let id = txs.len() as u32 + 1;
              trace.push(format!("tx{} = tx{}.clone()", txs.len(), i));
              txs.push(Tx { h: Some(cl), id, seq: 0, closed: false });
            }
          }
        }
      }
      // clone receiver
      7 => {
        if rxs.len() < 3 {
          let c: Vec<usize> = (0..rxs.len()).filter(|&i| rxs[i].h.is_some() && !rxs[i].closed).collect();
          if let Some(&i) = c.first() {
            let cl = match rxs[i].h.as_ref().unwrap() {
              RxH::S(h) => h.try_clone().map(RxH::S),
              RxH::A(h) => h.try_clone().map(RxH::A),
            };
            if let Some(cl) = cl {
              trace.push(format!("rx{} = rx{}.clone()", rxs.len(), i));
              rxs.push(Rx { h: Some(cl), closed: false });
            }
          }
        }
      }
      // close / drop a sender
      8 => {
        let c: Vec<usize> = (0..txs.len()).filter(|&i| txs[i].h.is_some()).collect();
        if c.len() > 1 || rng.chance(1, 4) {
          if let Some(&i) = c.get(rng.below(c.len().max(1) as u64) as usize) {
            if rng.chance(1, 2) {
              let r = match txs[i].h.as_mut().unwrap() {
                TxH::S(h) => h.close(),
                TxH::A(h) => h.close(),
              };
              trace.push(format!("tx{}.close() -> {:?}", i, r));
              if r.is_ok() == txs[i].closed {
                fail!("C04", "close-idempotence", "sender close() reported {:?} on a handle that was {}", r, if txs[i].closed { "already closed" } else { "open" });
              }
              txs[i].closed = true;
            } else {
              txs[i].h = None;
              txs[i].closed = true;
              trace.push(format!("drop(tx{})", i));
            }
          }
        }
      }
      // close / drop a receiver
      9 => {
        let c: Vec<usize> = (0..rxs.len()).filter(|&i| rxs[i].h.is_some()).collect();
        if c.len() > 1 || rng.chance(1, 6) {
          if let Some(&i) = c.get(rng.below(c.len().max(1) as u64) as usize) {
            if rng.chance(1, 2) {
              let r = match rxs[i].h.as_mut().unwrap() {
                RxH::S(h) => h.close(),
                RxH::A(h) => h.close(),
              };
              trace.push(format!("rx{}.close() -> {:?}", i, r));
              if r.is_ok() == rxs[i].closed {
                fail!("C04", "close-idempotence", "receiver close() reported {:?} on a handle that was {}", r, if rxs[i].closed { "already closed" } else { "open" });
              }
              rxs[i].closed = true;
            } else {
              rxs[i].h = None;
              rxs[i].closed = true;
              trace.push(format!("drop(rx{})", i));
            }
            // with the last receiver gone the channel may discard what is buffered
            if rxs.iter().all(|r| r.h.is_none() || r.closed) {
              q.clear();
            }
          }
        }
      }
      // len()/capacity() probes
      10 => {
        let c: Vec<usize> = (0..txs.len()).filter(|&i| txs[i].h.is_some()).collect();
        if let Some(&i) = c.first() {
          let (len, capr) = match txs[i].h.as_ref().unwrap() {
            TxH::S(h) => (h.len(), h.capacity()),
            TxH::A(h) => (h.len(), h.capacity()),
          };
          if let Some(l) = len {
            if live_rx > 0 && l != q.len() {
              fail!("C03", "len-differs-from-model", "len() = {} but the queue model holds {}", l, q.len());
            }
            if let Some(cp) = capr {
              if l > cp {
                fail!("C03", "len-exceeds-capacity", "len() {} > capacity() {}", l, cp);
              }
              if bounded && cp != cap {
                fail!("C03", "capacity-differs-from-requested", "capacity() = {} for a channel created with capacity {}", cp, cap);
              }
            }
          }
        }
      }
      // convert a handle
      _ => {
        if rng.chance(1, 2) {
          let c: Vec<usize> = (0..txs.len()).filter(|&i| txs[i].h.is_some()).collect();
          if let Some(&i) = c.get(rng.below(c.len().max(1) as u64) as usize) {
            let h = txs[i].h.take().unwrap();
            txs[i].h = Some(match h {
              TxH::S(h) => TxH::A(h.into_async()),
              TxH::A(h) => TxH::S(h.into_sync()),
            });
            trace.push(format!("tx{} converted", i));
          }
        } else {
          let c: Vec<usize> = (0..rxs.len()).filter(|&i| rxs[i].h.is_some()).collect();
          if let Some(&i) = c.get(rng.below(c.len().max(1) as u64) as usize) {
            let h = rxs[i].h.take().unwrap();
            rxs[i].h = Some(match h {
              RxH::S(h) => RxH::A(h.into_async()),
              RxH::A(h) => RxH::S(h.into_sync()),
            });
            trace.push(format!("rx{} converted", i));
          }
        }
      }
    }
  }
  (f, trace, wrapped)
}

fn main() {
  let args = Args::parse();
  vh_core::install_quiet_panic_hook();
  let prop = args.prop.clone();
  let mut res = ShardResult::new(&prop, "chan_seq", args.seed, args.shard);
  res.rule = "one evaluation = one generated single-threaded program (non-overlapping operations) of try_/batch/len \
    operations, clones, conversions, closes and drops over up to 4 sender and 3 receiver handles of one queue flavour, \
    compared step by step with a VecDeque model; non-trivial = more values were sent than the capacity (ring wrapped / \
    storage recycled); distinct = hash of (flavour, capacity, action trace)"
    .into();
  let flavours: Vec<Flavour> = [Flavour::SpscBounded, Flavour::MpscBounded, Flavour::MpscUnbounded, Flavour::MpmcBounded, Flavour::MpmcUnbounded, Flavour::MpmcExp].to_vec();
  let mut rng = Rng::new(args.shard_seed());
  let mut exec = 0u64;
  // watchdog for blocking calls (see IN_FLIGHT)
  {
    let out = args.out.clone();
    let prop2 = prop.clone();
    let (seed, shard, replay_dir) = (args.seed, args.shard, args.replay_dir.clone());
    std::thread::spawn(move || loop {
      std::thread::sleep(std::time::Duration::from_millis(250));
      let cur = IN_FLIGHT.lock().unwrap().clone();
      if let Some((desc, t0)) = cur {
        if t0.elapsed() > std::time::Duration::from_secs(8) {
          let parts: Vec<&str> = desc.splitn(5, '|').collect();
          let mut r = ShardResult::new(&prop2, "chan_seq", seed, shard);
          r.executions = 1;
          r.rule = "watchdog: a blocking call of a single-threaded program did not return".into();
          let sig = format!("{}/{}/{}/{}", parts[0], parts[1], parts[2], parts[3]);
          if parts[0] == prop2 {
            r.violation(&sig, &format!("in a single-threaded program (no other actor exists) {}", parts[4]), &replay_dir, &json!({"detail": parts[4]}));
          } else {
            r.count(&format!("other_property_observations/{}", sig.replace('/', "|")), 1);
          }
          r.notes.push("a blocking call never returned; shard stops early".into());
          r.write(&out, 0.0);
          std::process::exit(0);
        }
      }
    });
  }
  while args.time_left() {
    for _ in 0..200 {
      let fl = flavours[(exec as usize) % flavours.len()];
      exec += 1;
      let cap = *rng.pick(&[1usize, 2, 3, 4, 5, 7, 8, 16, 33, 100]);
      let steps = *rng.pick(&[20u64, 60, 200, 600]) as usize;
      let case_seed = rng.next();
      let mut crng = Rng::new(case_seed);
      let r = catch_unwind(AssertUnwindSafe(|| run(fl, cap, steps, &mut crng)));
      res.executions += 1;
      res.count(&format!("flavours/{}", fl.name()), 1);
      match r {
        Ok((findings, trace, wrapped)) => {
          res.count("actions", trace.len() as u64);
          if wrapped {
            let mut h = vh_core::Fnv::default();
            h.bytes(fl.name().as_bytes());
            h.u64(cap as u64);
            for t in &trace {
              h.bytes(t.as_bytes());
            }
            res.add_nontrivial(h.finish());
            res.count("programs_that_wrapped_the_buffer", 1);
          }
          if res.samples.len() < 3 && wrapped && trace.len() > 20 {
            res.sample(json!({"flavour": fl.name(), "cap": cap, "case_seed": case_seed, "trace": trace.iter().take(30).collect::<Vec<_>>()}), 3);
          }
          for f in findings {
            let sig = format!("{}/{}/{}/sequential", f.prop, fl.name(), f.rule);
            if f.prop == prop {
              res.violation(&sig, &f.summary, &args.replay_dir, &json!({"flavour": fl.name(), "cap": cap, "steps": steps, "case_seed": case_seed, "trace": trace}));
            } else {
              res.count(&format!("other_property_observations/{}", sig.replace('/', "|")), 1);
            }
          }
        }
        Err(p) => {
          let loc = vh_core::last_panic_location();
          let msg = vh_core::panic_message(&*p);
          if loc.contains("/repo/") {
            let sig = format!("C01/{}/panic/sequential", fl.name());
            if prop == "C01" {
              res.violation(&sig, &format!("library panicked: {} @ {}", msg, loc), &args.replay_dir, &json!({"flavour": fl.name(), "cap": cap, "case_seed": case_seed}));
            } else {
              res.count(&format!("other_property_observations/{}", sig.replace('/', "|")), 1);
            }
          } else {
            res.notes.push(format!("HARNESS-PANIC {} @ {}", msg, loc));
            res.count("harness_panics", 1);
          }
        }
      }
    }
  }
  res.write(&args.out, args.elapsed_s());
}
