//! lock_stress — fibre::sync::HybridMutex / HybridRwLock (C10).
//!
//! Threaded part: guards update occupancy counters that are asserted against the exclusion
//! matrix, a plain field behind the lock must equal the number of exclusive acquisitions,
//! closed scripts of blocking / async / cancelled / try_ acquisitions must terminate (stuck
//! oracle), try_ variants under a held lock must return None, a queued writer must get the
//! lock while readers keep overlapping (bounded, logical).
//! Stepper part: single-threaded programs that create, poll, re-poll and drop the three lock
//! futures and guards; spontaneous re-poll at quiescence detects lost wake-ups; at the end
//! try_write / try_lock then try_read must succeed (a leaked queue bit would make them fail).

use fibre::sync::{HybridMutex, HybridRwLock};
use serde_json::{json, Value};
use std::future::Future;
use std::panic::{catch_unwind, AssertUnwindSafe};
use std::pin::Pin;
use std::sync::atomic::{AtomicBool, AtomicI64, AtomicU64, Ordering};
use std::sync::{Arc, Barrier};
use std::task::Poll;
use std::time::Duration;
use vh_channels::engine::{watch, StuckCfg, WatchIn};
use vh_channels::hist::*;
use vh_core::chaos;
use vh_core::cli::Args;
use vh_core::result::ShardResult;
use vh_core::rng::Rng;
use vh_core::stepper::{block_on, block_on_or_cancel, poll_once, Flag};
use vh_core::stuck::{self, Canary};

struct Protected {
  plain: u64,
}

enum Lock {
  M(HybridMutex<Protected>),
  R(HybridRwLock<Protected>),
}

struct Occ {
  writers: AtomicI64,
  readers: AtomicI64,
  exclusive_acqs: AtomicU64,
  shared_acqs: AtomicU64,
  overlap_readers_seen: AtomicU64,
  violations: std::sync::Mutex<Vec<String>>,
}

impl Occ {
  fn enter_ex(&self) {
    let w = self.writers.fetch_add(1, Ordering::SeqCst);
    let r = self.readers.load(Ordering::SeqCst);
    if w != 0 || r != 0 {
      self.violations.lock().unwrap().push(format!("exclusive guard coexists with {} exclusive and {} shared guard(s)", w, r));
    }
    self.exclusive_acqs.fetch_add(1, Ordering::SeqCst);
  }
  fn leave_ex(&self) {
    self.writers.fetch_sub(1, Ordering::SeqCst);
  }
  fn enter_sh(&self) {
    let r = self.readers.fetch_add(1, Ordering::SeqCst);
    let w = self.writers.load(Ordering::SeqCst);
    if w != 0 {
      self.violations.lock().unwrap().push(format!("shared guard coexists with {} exclusive guard(s)", w));
    }
    if r > 0 {
      self.overlap_readers_seen.fetch_add(1, Ordering::Relaxed);
    }
    self.shared_acqs.fetch_add(1, Ordering::SeqCst);
  }
  fn leave_sh(&self) {
    self.readers.fetch_sub(1, Ordering::SeqCst);
  }
}

fn hold(rng: &mut Rng) {
  match rng.below(4) {
    0 => {}
    1 => std::thread::yield_now(),
    2 => {
      for _ in 0..rng.below(200) {
        std::hint::spin_loop();
      }
    }
    _ => std::thread::sleep(Duration::from_micros(rng.below(60))),
  }
}

#[derive(Clone, Debug)]
struct Scn {
  exec: u64,
  seed: u64,
  rw: bool,
  threads: usize,
  ops: usize,
  kind: u8, // 0 mixed closed script, 1 try-under-hold, 2 writer-vs-readers
  profile: chaos::Profile,
  gremlin: bool,
}

struct Sh {
  scn: Scn,
  lock: Lock,
  occ: Occ,
  logs: Vec<Arc<Log>>,
  done: Vec<AtomicBool>,
  try_blocked: AtomicU64,
  try_checked: AtomicU64,
  writer_called: AtomicBool,
  writer_got: AtomicBool,
  reads_after_writer_call: AtomicU64,
}

fn ev(t: usize, form: Form, is_async: bool) -> Ev {
  Ev::new(t as u16, 1, Side::Tx, form, is_async)
}

fn worker(sh: Arc<Sh>, tid: usize, start: Arc<Barrier>, hold_gate: Arc<(AtomicBool, AtomicBool)>) {
  let scn = sh.scn.clone();
  let log = sh.logs[tid].clone();
  let mut rng = Rng::derive(scn.seed, 900 + tid as u64, scn.exec);
  let writer_starve_role = scn.kind == 2 && tid == 0;
  start.wait();
  let _g = if writer_starve_role { None } else { Some(chaos::enter(scn.seed, scn.exec, tid as u64)) };
  let occ = &sh.occ;
  macro_rules! rec {
    ($form:expr, $async:expr, $body:expr) => {{
      let idx = log.begin(ev(tid, $form, $async));
      let r = $body;
      log.end(idx, |e| e.out = Out::Ok);
      stuck::progress();
      r
    }};
  }
  match scn.kind {
    1 => {
      // thread 0 holds the lock between two flags; the others call try_ variants meanwhile
      if tid == 0 {
        match &sh.lock {
          Lock::M(m) => {
            let g = rec!(Form::LockEx, false, m.lock());
            occ.enter_ex();
            hold_gate.0.store(true, Ordering::SeqCst);
            while !hold_gate.1.load(Ordering::SeqCst) {
              std::thread::yield_now();
            }
            occ.leave_ex();
            drop(g);
          }
          Lock::R(l) => {
            let g = rec!(Form::LockEx, false, l.write());
            occ.enter_ex();
            hold_gate.0.store(true, Ordering::SeqCst);
            while !hold_gate.1.load(Ordering::SeqCst) {
              std::thread::yield_now();
            }
            occ.leave_ex();
            drop(g);
          }
        }
      } else {
        while !hold_gate.0.load(Ordering::SeqCst) {
          std::thread::yield_now();
        }
        for _ in 0..scn.ops.min(20) {
          sh.try_checked.fetch_add(1, Ordering::SeqCst);
          let got = match &sh.lock {
            Lock::M(m) => rec!(Form::TryLockEx, false, m.try_lock().is_some()),
            Lock::R(l) => {
              if rng.chance(1, 2) {
                rec!(Form::TryLockEx, false, l.try_write().is_some())
              } else {
                rec!(Form::TryLockSh, false, l.try_read().is_some())
              }
            }
          };
          if got {
            occ.violations.lock().unwrap().push("a try_ variant obtained a guard while another thread held the exclusive guard".into());
          }
        }
        sh.try_blocked.fetch_add(1, Ordering::SeqCst);
        if sh.try_blocked.load(Ordering::SeqCst) as usize == scn.threads - 1 {
          hold_gate.1.store(true, Ordering::SeqCst);
        }
      }
    }
    2 => {
      let Lock::R(l) = &sh.lock else { return };
      if tid == 0 {
        // the writer: let the readers get going, then ask for the lock
        std::thread::sleep(Duration::from_micros(200 + rng.below(2000)));
        sh.writer_called.store(true, Ordering::SeqCst);
        let g = if rng.chance(1, 2) { rec!(Form::LockEx, false, l.write()) } else { rec!(Form::LockEx, true, block_on(l.write_async())) };
        sh.writer_got.store(true, Ordering::SeqCst);
        occ.enter_ex();
        occ.leave_ex();
        drop(g);
      } else {
        // readers keep overlapping read sections until the writer holds the lock
        let mut mine_after = 0u64;
        // per scenario: every reader sync, every reader async (only a sustained stream of one kind can starve a
        // writer through that kind's acquisition path), or a mix
        let reader_mode = (scn.seed >> 7) % 3;
        while !sh.writer_got.load(Ordering::SeqCst) {
          let asy = match reader_mode {
            0 => false,
            1 => true,
            _ => rng.chance(1, 4),
          };
          let g = if asy { block_on(l.read_async()) } else { l.read() };
          occ.enter_sh();
          if sh.writer_called.load(Ordering::SeqCst) && !sh.writer_got.load(Ordering::SeqCst) {
            mine_after += 1;
            sh.reads_after_writer_call.fetch_add(1, Ordering::Relaxed);
          }
          hold(&mut rng);
          occ.leave_sh();
          drop(g);
          stuck::progress();
          if mine_after > 3_000_000 {
            break;
          }
        }
      }
    }
    _ => {
      for _ in 0..scn.ops {
        let op = rng.below(if scn.rw { 10 } else { 4 });
        match &sh.lock {
          Lock::M(m) => {
            let g = match op {
              0 | 1 => Some(rec!(Form::LockEx, false, m.lock())),
              2 => Some(rec!(Form::LockEx, true, block_on(m.lock_async()))),
              _ => {
                if rng.chance(1, 2) {
                  let idx = log.begin(ev(tid, Form::LockEx, true));
                  let (g, _) = block_on_or_cancel(m.lock_async(), Duration::from_micros(rng.below(300)));
                  log.end(idx, |e| e.out = if g.is_some() { Out::Ok } else { Out::Cancelled });
                  stuck::progress();
                  g
                } else {
                  rec!(Form::TryLockEx, false, m.try_lock())
                }
              }
            };
            if let Some(mut g) = g {
              occ.enter_ex();
              g.plain += 1;
              hold(&mut rng);
              occ.leave_ex();
              drop(g);
            }
          }
          Lock::R(l) => match op {
            0 | 1 | 2 | 3 => {
              let g = match op {
                0 | 1 => Some(rec!(Form::LockSh, false, l.read())),
                2 => Some(rec!(Form::LockSh, true, block_on(l.read_async()))),
                _ => {
                  if rng.chance(1, 2) {
                    let idx = log.begin(ev(tid, Form::LockSh, true));
                    let (g, _) = block_on_or_cancel(l.read_async(), Duration::from_micros(rng.below(300)));
                    log.end(idx, |e| e.out = if g.is_some() { Out::Ok } else { Out::Cancelled });
                    stuck::progress();
                    g
                  } else {
                    rec!(Form::TryLockSh, false, l.try_read())
                  }
                }
              };
              if let Some(g) = g {
                occ.enter_sh();
                let _ = g.plain;
                hold(&mut rng);
                occ.leave_sh();
                drop(g);
              }
            }
            _ => {
              let g = match op {
                4 | 5 | 6 => Some(rec!(Form::LockEx, false, l.write())),
                7 => Some(rec!(Form::LockEx, true, block_on(l.write_async()))),
                _ => {
                  if rng.chance(1, 2) {
                    let idx = log.begin(ev(tid, Form::LockEx, true));
                    let (g, _) = block_on_or_cancel(l.write_async(), Duration::from_micros(rng.below(300)));
                    log.end(idx, |e| e.out = if g.is_some() { Out::Ok } else { Out::Cancelled });
                    stuck::progress();
                    g
                  } else {
                    rec!(Form::TryLockEx, false, l.try_write())
                  }
                }
              };
              if let Some(mut g) = g {
                occ.enter_ex();
                g.plain += 1;
                hold(&mut rng);
                occ.leave_ex();
                drop(g);
              }
            }
          },
        }
      }
    }
  }
  chaos::leave();
  sh.done[tid].store(true, Ordering::SeqCst);
}

struct Finding {
  rule: String,
  summary: String,
  detail: Value,
}

fn run_threaded(scn: Scn, cfg: &StuckCfg, canary: &Canary) -> (Vec<Finding>, Vec<String>, Value, bool, chaos::Totals, u64) {
  vh_core::reset_stamp();
  chaos::set_profile(&scn.profile);
  let _ = chaos::take_totals();
  let lock = if scn.rw { Lock::R(HybridRwLock::new(Protected { plain: 0 })) } else { Lock::M(HybridMutex::new(Protected { plain: 0 })) };
  let sh = Arc::new(Sh {
    scn: scn.clone(),
    lock,
    occ: Occ {
      writers: AtomicI64::new(0),
      readers: AtomicI64::new(0),
      exclusive_acqs: AtomicU64::new(0),
      shared_acqs: AtomicU64::new(0),
      overlap_readers_seen: AtomicU64::new(0),
      violations: std::sync::Mutex::new(vec![]),
    },
    logs: (0..scn.threads).map(|_| Arc::new(Log::default())).collect(),
    done: (0..scn.threads).map(|_| AtomicBool::new(false)).collect(),
    try_blocked: AtomicU64::new(0),
    try_checked: AtomicU64::new(0),
    writer_called: AtomicBool::new(false),
    writer_got: AtomicBool::new(false),
    reads_after_writer_call: AtomicU64::new(0),
  });
  let start = Arc::new(Barrier::new(scn.threads + 1));
  let gate = Arc::new((AtomicBool::new(false), AtomicBool::new(false)));
  let mut joins = vec![];
  let mut threads = vec![];
  for t in 0..scn.threads {
    let (s2, st, g2) = (sh.clone(), start.clone(), gate.clone());
    let j = std::thread::Builder::new()
      .name(format!("vh-l{}", t))
      .spawn(move || {
        let s3 = s2.clone();
        let r = catch_unwind(AssertUnwindSafe(|| worker(s2, t, st, g2)));
        if let Err(p) = r {
          let loc = vh_core::last_panic_location();
          let msg = vh_core::panic_message(&*p);
          let mut e = ev(t, Form::Probe, false);
          e.note = Some(format!("{} @ {}", msg, loc));
          let idx = s3.logs[t].begin(e);
          s3.logs[t].end(idx, |e| e.out = Out::Panicked);
          s3.done[t].store(true, Ordering::SeqCst);
        }
      })
      .unwrap();
    threads.push(j.thread().clone());
    joins.push(j);
  }
  let gstop = Arc::new(AtomicBool::new(false));
  let gremlin = if scn.gremlin {
    let ts = threads.clone();
    let gs = gstop.clone();
    let seed = scn.seed;
    Some(std::thread::spawn(move || {
      let mut rng = Rng::new(seed ^ 0x99);
      while !gs.load(Ordering::Relaxed) {
        ts[rng.below(ts.len() as u64) as usize].unpark();
        std::thread::sleep(Duration::from_micros(rng.range(20, 500)));
      }
    }))
  } else {
    None
  };
  start.wait();
  let (stuck_report, leaked) = {
    let (s1, s2, s3) = (sh.clone(), sh.clone(), sh.clone());
    let thr = threads.clone();
    watch(
      &WatchIn {
        done: &move || s1.done.iter().all(|d| d.load(Ordering::SeqCst)),
        unfinished: &move || (0..s2.done.len()).filter(|&t| !s2.done[t].load(Ordering::SeqCst)).collect(),
        history: &move || merge(&s3.logs),
        threads: &move || thr.clone(),
        model: &move |evs: &[Ev]| {
          // every unfinished thread is inside an acquisition, so nobody holds a guard: whoever
          // is first in line is enabled.
          let blocked: Vec<Value> = evs.iter().filter(|e| e.is_open()).map(|e| e.to_json()).collect();
          let any_async = evs.iter().any(|e| e.is_open() && e.is_async);
          let any_sync = evs.iter().any(|e| e.is_open() && !e.is_async);
          (true, blocked, any_async, any_sync)
        },
      },
      cfg,
      canary,
    )
  };
  gstop.store(true, Ordering::Relaxed);
  if let Some(g) = gremlin {
    let _ = g.join();
  }
  if !leaked {
    for j in joins {
      let _ = j.join();
    }
  }
  let totals = chaos::take_totals();
  let evs = merge(&sh.logs);
  let mut f = vec![];
  let mut inconclusive = vec![];
  for e in evs.iter().filter(|e| e.out == Out::Panicked) {
    let note = e.note.clone().unwrap_or_default();
    if note.contains("/repo/") {
      f.push(Finding { rule: "panic".into(), summary: format!("library panicked: {}", note), detail: e.to_json() });
    } else {
      inconclusive.push(format!("HARNESS-PANIC {}", note));
    }
  }
  for v in sh.occ.violations.lock().unwrap().iter().take(3) {
    let rule = if v.contains("try_") { "try-acquired-under-hold" } else { "mutual-exclusion" };
    f.push(Finding { rule: rule.into(), summary: v.clone(), detail: json!({"scenario_kind": scn.kind}) });
  }
  if let Some(s) = &stuck_report {
    if s.canary_max_gap_us > cfg.canary_limit_us {
      inconclusive.push("stuck window with unhealthy canary".into());
    } else if s.parked == Some(false) {
      inconclusive.push("quiet window with runnable (starved or spinning) threads: not a parked-forever verdict".into());
    } else if s.nudge_released || s.model_enabled {
      f.push(Finding {
        rule: if scn.kind == 1 { "try-variant-blocked-or-stuck".into() } else { "stuck".into() },
        summary: format!("acquirers stayed blocked although nobody held the lock: {}", s.reason),
        detail: json!({"blocked": s.blocked, "nudge_released": s.nudge_released, "spontaneous_repolls_ready": s.forced_ready}),
      });
    }
  }
  if !leaked && stuck_report.is_none() {
    // plain field == number of exclusive acquisitions that incremented it
    let plain = match &sh.lock {
      Lock::M(m) => m.try_lock().map(|g| g.plain),
      Lock::R(l) => l.try_write().map(|g| g.plain),
    };
    match plain {
      None => f.push(Finding {
        rule: "lock-not-free-at-end".into(),
        summary: "after every thread finished, try_lock/try_write failed: a holder or queue bit leaked".into(),
        detail: json!({}),
      }),
      Some(p) => {
        if scn.kind == 0 {
          let expect = sh.occ.exclusive_acqs.load(Ordering::SeqCst);
          if p != expect {
            f.push(Finding {
              rule: "lost-update".into(),
              summary: format!("the plain field behind the lock is {} after {} exclusive sections", p, expect),
              detail: json!({}),
            });
          }
        }
      }
    }
    if let Lock::R(l) = &sh.lock {
      if l.try_read().is_none() {
        f.push(Finding { rule: "lock-not-free-at-end".into(), summary: "try_read failed on an idle lock".into(), detail: json!({}) });
      }
    }
  }
  if scn.kind == 2 && !leaked {
    let after = sh.reads_after_writer_call.load(Ordering::SeqCst);
    if !sh.writer_got.load(Ordering::SeqCst) || after > 1_000_000 {
      if canary.max_gap_us() > cfg.canary_limit_us {
        inconclusive.push("writer-starvation run with unhealthy canary".into());
      } else {
        f.push(Finding {
          rule: "writer-starved".into(),
          summary: format!("readers completed {} further read sections after the writer had called write() and it still had not acquired", after),
          detail: json!({"reads_after_writer_call": after}),
        });
      }
    }
  }
  let stats = json!({
    "exclusive_sections": sh.occ.exclusive_acqs.load(Ordering::SeqCst),
    "shared_sections": sh.occ.shared_acqs.load(Ordering::SeqCst),
    "shared_sections_that_overlapped_another": sh.occ.overlap_readers_seen.load(Ordering::SeqCst),
    "try_calls_under_hold": sh.try_checked.load(Ordering::SeqCst),
    "reads_after_writer_call": sh.reads_after_writer_call.load(Ordering::SeqCst),
    "events": evs.len(),
  });
  let mut h = vh_core::Fnv::default();
  let mut pts: Vec<(u64, u64)> = vec![];
  for e in &evs {
    let tag = ((e.thread as u64) << 16) | ((e.form as u64) << 8) | e.out as u64;
    pts.push((e.call, tag << 1));
    if e.ret != 0 {
      pts.push((e.ret, (tag << 1) | 1));
    }
  }
  pts.sort();
  for (_, t) in pts.iter().take(4096) {
    h.u64(*t);
  }
  h.u64(scn.kind as u64 * 7 + scn.rw as u64);
  (f, inconclusive, stats, leaked, totals, h.finish())
}

// ------------------------------------------------------------------------------------------
// Stepper part
// ------------------------------------------------------------------------------------------

enum G<'a> {
  M(fibre::sync::MutexGuard<'a, Protected>),
  R(fibre::sync::ReadGuard<'a, Protected>),
  W(fibre::sync::WriteGuard<'a, Protected>),
}

type GFut<'a> = Pin<Box<dyn Future<Output = G<'a>> + 'a>>;

struct LTask<'a> {
  fut: Option<GFut<'a>>,
  exclusive: bool,
  flag: Arc<Flag>,
  seen: u64,
}

/// Runs one single-threaded program; returns (findings, had_pending, action trace, signature).
fn run_stepper(rw: bool, steps: usize, rng: &mut Rng) -> (Vec<Finding>, bool, Vec<String>, u64) {
  let m = HybridMutex::new(Protected { plain: 0 });
  let l = HybridRwLock::new(Protected { plain: 0 });
  let mut tasks: Vec<LTask> = vec![];
  let mut held: Vec<(G, bool)> = vec![];
  let mut f: Vec<Finding> = vec![];
  let mut trace: Vec<String> = vec![];
  let mut had_pending = false;
  let mut cancelled_woken = 0u64;

  fn admit<'a>(held: &mut Vec<(G<'a>, bool)>, g: G<'a>, ex: bool, f: &mut Vec<Finding>, trace: &[String]) {
    let any_ex = held.iter().any(|h| h.1);
    if (ex && !held.is_empty()) || (!ex && any_ex) {
      f.push(Finding {
        rule: "mutual-exclusion".into(),
        summary: format!("a {} guard was granted while {} guard(s) were held ({} exclusive)", if ex { "exclusive" } else { "shared" }, held.len(), held.iter().filter(|h| h.1).count()),
        detail: json!({"trace": trace}),
      });
    }
    held.push((g, ex));
  }

  macro_rules! poll_task {
    ($ti:expr, $new:expr) => {{
      let ti = $ti;
      if $new {
        tasks[ti].flag = Flag::new();
      }
      let flag = tasks[ti].flag.clone();
      tasks[ti].seen = flag.count();
      let mut fut = tasks[ti].fut.take().unwrap();
      match poll_once(fut.as_mut(), &flag) {
        Poll::Pending => {
          tasks[ti].fut = Some(fut);
          had_pending = true;
          false
        }
        Poll::Ready(g) => {
          drop(fut);
          let ex = tasks[ti].exclusive;
          admit(&mut held, g, ex, &mut f, &trace);
          true
        }
      }
    }};
  }

  for _ in 0..steps {
    let pending: Vec<usize> = (0..tasks.len()).filter(|&i| tasks[i].fut.is_some()).collect();
    match rng.weighted(&[10, 6, 6, 5, 5, 4, 3]) {
      0 => {
        // spawn an acquisition future
        let (fut, ex): (GFut, bool) = if rw {
          if rng.chance(1, 2) {
            (Box::pin(async { G::R(l.read_async().await) }), false)
          } else {
            (Box::pin(async { G::W(l.write_async().await) }), true)
          }
        } else {
          (Box::pin(async { G::M(m.lock_async().await) }), true)
        };
        trace.push(format!("spawn {}", if ex { "exclusive" } else { "shared" }));
        tasks.push(LTask { fut: Some(fut), exclusive: ex, flag: Flag::new(), seen: 0 });
        let ti = tasks.len() - 1;
        poll_task!(ti, false);
      }
      1 => {
        // run woken
        loop {
          let woken: Vec<usize> = (0..tasks.len()).filter(|&i| tasks[i].fut.is_some() && tasks[i].flag.count() > tasks[i].seen).collect();
          if woken.is_empty() {
            break;
          }
          for ti in woken {
            poll_task!(ti, false);
          }
        }
        trace.push("run woken".into());
      }
      2 => {
        // release a held guard
        if !held.is_empty() {
          let i = rng.below(held.len() as u64) as usize;
          let (g, ex) = held.swap_remove(i);
          drop(g);
          trace.push(format!("release {}", if ex { "exclusive" } else { "shared" }));
        }
      }
      3 => {
        // cancel a pending future (woken or not)
        if !pending.is_empty() {
          let ti = pending[rng.below(pending.len() as u64) as usize];
          let woken = tasks[ti].flag.count() > tasks[ti].seen;
          if woken {
            cancelled_woken += 1;
          }
          tasks[ti].fut = None;
          trace.push(format!("drop pending {} (woken={})", if tasks[ti].exclusive { "exclusive" } else { "shared" }, woken));
        }
      }
      4 => {
        // re-poll with a different waker
        if !pending.is_empty() {
          let ti = pending[rng.below(pending.len() as u64) as usize];
          let not_woken = tasks[ti].flag.count() == tasks[ti].seen;
          poll_task!(ti, not_woken);
          trace.push("repoll".into());
        }
      }
      5 => {
        // try_ variants never block; what they return must respect exclusion
        let any_ex = held.iter().any(|h| h.1);
        if rw {
          if rng.chance(1, 2) {
            if let Some(g) = l.try_write() {
              trace.push("try_write -> Some".into());
              admit(&mut held, G::W(g), true, &mut f, &trace);
            }
          } else if let Some(g) = l.try_read() {
            trace.push("try_read -> Some".into());
            admit(&mut held, G::R(g), false, &mut f, &trace);
          }
        } else if let Some(g) = m.try_lock() {
          trace.push("try_lock -> Some".into());
          admit(&mut held, G::M(g), true, &mut f, &trace);
        }
        let _ = any_ex;
      }
      _ => {
        // quiescence check mid-program: only meaningful when nothing is held (then every
        // pending acquirer is owed the lock in turn)
        if held.is_empty() {
          quiesce(&mut tasks, &mut held, &mut f, &mut had_pending, &trace, "mid-program");
        }
      }
    }
    if !f.is_empty() {
      break;
    }
  }
  // end: release everything, then quiescence, then the lock must be idle
  if f.is_empty() {
    held.clear();
    quiesce(&mut tasks, &mut held, &mut f, &mut had_pending, &trace, "end-of-program");
  }
  held.clear();
  for t in tasks.iter_mut() {
    t.fut = None;
  }
  if f.is_empty() {
    let ok = if rw {
      let w = l.try_write().is_some();
      let r = l.try_read().is_some();
      w && r
    } else {
      m.try_lock().is_some()
    };
    if !ok {
      f.push(Finding {
        rule: "lock-not-free-at-end".into(),
        summary: "with every guard and future dropped, try_write/try_lock or try_read failed: a holder count or queue bit leaked".into(),
        detail: json!({"trace": trace}),
      });
    }
  }
  let mut h = vh_core::Fnv::default();
  h.u64(rw as u64);
  for t in &trace {
    h.bytes(t.as_bytes());
  }
  let _ = cancelled_woken;
  (f, had_pending, trace, h.finish())
}

fn quiesce<'a>(tasks: &mut Vec<LTask<'a>>, held: &mut Vec<(G<'a>, bool)>, f: &mut Vec<Finding>, had_pending: &mut bool, trace: &[String], at: &str) {
  // executor: poll whatever was woken; each granted guard is released again at once so the
  // next waiter's turn comes
  let mut guard = 0;
  loop {
    guard += 1;
    let woken: Vec<usize> = (0..tasks.len()).filter(|&i| tasks[i].fut.is_some() && tasks[i].flag.count() > tasks[i].seen).collect();
    if woken.is_empty() || guard > 10_000 {
      break;
    }
    for ti in woken {
      let flag = tasks[ti].flag.clone();
      tasks[ti].seen = flag.count();
      let mut fut = tasks[ti].fut.take().unwrap();
      match poll_once(fut.as_mut(), &flag) {
        Poll::Pending => {
          tasks[ti].fut = Some(fut);
          *had_pending = true;
        }
        Poll::Ready(g) => {
          drop(fut);
          if !held.is_empty() {
            f.push(Finding { rule: "mutual-exclusion".into(), summary: "guard granted while another was held (quiescence phase)".into(), detail: json!({"trace": trace}) });
          }
          drop(g);
        }
      }
    }
  }
  // nothing is held and nobody is woken: a pending acquirer that completes on a spontaneous
  // poll had been owed a wake-up
  for ti in 0..tasks.len() {
    if tasks[ti].fut.is_none() {
      continue;
    }
    let flag = Flag::new();
    tasks[ti].flag = flag.clone();
    tasks[ti].seen = 0;
    let mut fut = tasks[ti].fut.take().unwrap();
    match poll_once(fut.as_mut(), &flag) {
      Poll::Pending => {
        tasks[ti].fut = Some(fut);
        f.push(Finding {
          rule: "pending-on-idle-lock".into(),
          summary: format!("{}: no guard is held and no waiter is woken, yet a lock future stays Pending even when polled", at),
          detail: json!({"trace": trace}),
        });
        return;
      }
      Poll::Ready(g) => {
        drop(fut);
        drop(g);
        f.push(Finding {
          rule: "lost-wake".into(),
          summary: format!("{}: a pending {} acquisition completed on a spontaneous re-poll: the lock was free but its waker had not been invoked", at, if tasks[ti].exclusive { "exclusive" } else { "shared" }),
          detail: json!({"trace": trace}),
        });
        return;
      }
    }
  }
}

/// Racing pair: from a quiescent single-threaded state (lock held, one or two futures Pending behind it) two
/// threads perform one action each at the same time - the holder releases, a pending future is dropped - under
/// schedule chaos. Afterwards the lock is free, so every future still pending must have been woken; a future
/// that completes on a spontaneous re-poll without its waker having fired lost the wake-up (it was spent on
/// the future that was being dropped). Returns (findings, signature).
fn run_race(rw: bool, seed: u64, exec: u64, rng: &mut Rng) -> (Vec<Finding>, u64) {
  let mut f: Vec<Finding> = vec![];
  let m = HybridMutex::new(Protected { plain: 0 });
  let l = HybridRwLock::new(Protected { plain: 0 });
  chaos::set_profile(&chaos::Profile::pick_tiny(rng));
  let shape = rng.below(if rw { 4 } else { 1 });
  // who holds, who waits first (the one to be dropped), who waits behind it
  let mut sig = vh_core::Fnv::default();
  sig.u64(rw as u64 * 16 + shape);
  macro_rules! race {
    ($guard:expr, $f1:expr, $f2:expr, $what:expr) => {{
      let g = $guard;
      let mut f1 = Box::pin($f1);
      let mut f2 = Box::pin($f2);
      let (fl1, fl2) = (Flag::new(), Flag::new());
      let p1 = poll_once(f1.as_mut(), &fl1).is_pending();
      let p2 = poll_once(f2.as_mut(), &fl2).is_pending();
      if p1 && p2 {
        let start = std::sync::Barrier::new(2);
        std::thread::scope(|sc| {
          let st = &start;
          sc.spawn(move || {
            let _c = chaos::enter(seed, exec, 1);
            st.wait();
            drop(g);
          });
          sc.spawn(move || {
            let _c = chaos::enter(seed, exec, 2);
            st.wait();
            drop(f1);
          });
        });
        // quiescent again: the lock is free and f1 is gone
        let woken = fl2.count() > 0;
        sig.u64(woken as u64 * 2 + (fl1.count() > 0) as u64);
        let fresh = Flag::new();
        match poll_once(f2.as_mut(), if woken { &fl2 } else { &fresh }) {
          Poll::Ready(_g2) => {
            if !woken {
              f.push(Finding {
                rule: "lost-wake".into(),
                summary: format!("{}: after the holder released and the first waiter's future was dropped at the same moment, the second waiter acquires on a spontaneous re-poll but its waker was never invoked (first waiter's waker fired: {})", $what, fl1.count() > 0),
                detail: json!({"shape": $what}),
              });
            }
          }
          Poll::Pending => {
            f.push(Finding {
              rule: "pending-on-idle-lock".into(),
              summary: format!("{}: the lock is free and nobody else waits, yet the remaining waiter's poll returns Pending", $what),
              detail: json!({"shape": $what, "woken": woken}),
            });
          }
        }
      }
    }};
  }
  if !rw {
    race!(m.try_lock().expect("fresh mutex"), m.lock_async(), m.lock_async(), "mutex: lock_async behind lock_async");
  } else {
    match shape {
      0 => race!(l.try_write().expect("fresh rwlock"), l.write_async(), l.write_async(), "rwlock: writer behind writer, held exclusively"),
      1 => race!(l.try_write().expect("fresh rwlock"), l.write_async(), l.read_async(), "rwlock: reader behind writer, held exclusively"),
      2 => race!(l.try_read().expect("fresh rwlock"), l.write_async(), l.write_async(), "rwlock: writer behind writer, held shared"),
      _ => race!(l.try_write().expect("fresh rwlock"), l.read_async(), l.write_async(), "rwlock: writer behind reader, held exclusively"),
    }
  }
  if rw && rng.chance(1, 3) {
    // A stream of overlapping async readers against a queued writer, polled by hand on this thread: every new
    // read_async is taken before the previous guard is released, so the reader count never reaches zero. A lock
    // that grants them one after another while the writer is queued starves that writer for as long as the stream lasts.
    let l2 = HybridRwLock::new(Protected { plain: 0 });
    let mut held = vec![l2.try_read().expect("fresh rwlock")];
    let mut wfut = Box::pin(l2.write_async());
    let wf = Flag::new();
    if poll_once(wfut.as_mut(), &wf).is_pending() {
      let mut granted = 0u32;
      for _ in 0..200 {
        let mut rf = Box::pin(l2.read_async());
        let fl = Flag::new();
        match poll_once(rf.as_mut(), &fl) {
          Poll::Ready(g) => {
            granted += 1;
            held.push(g);
            if held.len() > 2 {
              held.remove(0);
            }
          }
          Poll::Pending => break,
        }
      }
      sig.u64(1000 + granted as u64);
      if granted >= 200 {
        f.push(Finding {
          rule: "writer-starved".into(),
          summary: "200 overlapping read_async acquisitions were granted one after another while a write_async was queued behind the first read guard; the reader count never reached zero".into(),
          detail: json!({"shape": "reader-stream", "granted": granted}),
        });
      }
    }
    drop(held);
    drop(wfut);
  }
  (f, sig.finish())
}

fn main() {
  let args = Args::parse();
  vh_core::install_quiet_panic_hook();
  chaos::install();
  let prop = args.prop.clone();
  let mut res = ShardResult::new(&prop, "lock_stress", args.seed, args.shard);
  res.rule = "threaded: one evaluation = one generated scenario (mutex or rwlock; closed mixed script of blocking / async / \
    cancelled / try_ acquisitions, try-under-hold, or writer-vs-overlapping-readers) on 2-8 threads under schedule chaos, \
    non-trivial = more than one thread acquired, distinct = hash of the stamp-ordered acquisition interleaving; stepper: \
    one evaluation = one single-threaded program of spawn/poll/re-poll/drop of lock futures and guards, non-trivial = \
    some future was Pending, distinct = hash of the action trace; race: one evaluation = one racing pair (holder releases \
    while the first of two pending futures is dropped on another thread, under chaos), then a quiescence check"
    .into();
  let canary = Canary::start();
  let cfg = StuckCfg::default();
  let mut rng = Rng::new(args.shard_seed());
  let only = args.get("only").map(|s| s.to_string());
  let mut exec = 0u64;
  while args.time_left() {
    exec += 1;
    let threaded = match only.as_deref() {
      Some("threaded") => true,
      Some("stepper") | Some("race") => false,
      _ => exec % 2 == 0,
    };
    let race = !cfg!(miri) && match only.as_deref() {
      Some("race") => true,
      Some(_) => false,
      None => exec % 4 == 1,
    };
    if race {
      for i in 0..300u64 {
        let rw = rng.chance(2, 3);
        let case_seed = rng.next();
        let (findings, sig) = run_race(rw, case_seed, exec * 1000 + i, &mut rng);
        res.executions += 1;
        res.count("race/pairs", 1);
        res.add_nontrivial(sig ^ (case_seed & 0xff));
        for f in findings {
          let sig = format!("C10/{}/{}/race", if rw { "rwlock" } else { "mutex" }, f.rule);
          res.violation(&sig, &f.summary, &args.replay_dir, &json!({"rwlock": rw, "case_seed": case_seed, "detail": f.detail}));
        }
      }
      let totals = chaos::take_totals();
      res.count_obj("chaos", &totals.to_json());
    } else if threaded {
      let rw = rng.chance(2, 3);
      // odd shards: tiny scripts with change points on the first steps (short races around cancel / release)
      let tiny = cfg!(miri) || args.get("tiny").is_some() || args.shard % 2 == 1;
      let kind = if rw && !tiny { *rng.pick(&[0u8, 0, 0, 1, 2]) } else { *rng.pick(&[0u8, 0, 0, 1]) };
      let scn = Scn {
        exec: exec + args.shard * 1_000_003,
        seed: rng.next(),
        rw,
        threads: if tiny { rng.range(2, 3) as usize } else { rng.range(2, 8) as usize },
        ops: if tiny { *rng.pick(&[4usize, 8, 16]) } else { *rng.pick(&[10usize, 50, 200, 600]) },
        kind,
        profile: if tiny { chaos::Profile::pick_tiny(&mut rng) } else { chaos::Profile::pick(&mut rng) },
        gremlin: rng.chance(1, 3),
      };
      let (findings, inconclusive, stats, leaked, totals, sig) = run_threaded(scn.clone(), &cfg, &canary);
      res.executions += 1;
      res.count("threaded/executions", 1);
      res.count(&format!("threaded/kind/{}", ["mixed-script", "try-under-hold", "writer-vs-readers"][kind as usize]), 1);
      res.count_obj("threaded/observed", &stats);
      res.count_obj("chaos", &totals.to_json());
      if totals.parks() > 0 {
        res.count("threaded/executions_that_parked", 1);
      }
      res.add_nontrivial(sig);
      if res.samples.len() < 2 {
        res.sample(json!({"threaded_scenario": format!("{:?}", scn), "observed": stats}), 3);
      }
      for w in inconclusive {
        if w.starts_with("HARNESS-PANIC") {
          res.notes.push(w.clone());
          res.count("harness_panics", 1);
        }
        res.inconclusive(&w);
      }
      for f in findings {
        let sig = format!("C10/{}/{}/threaded", if scn.rw { "rwlock" } else { "mutex" }, f.rule);
        res.violation(&sig, &f.summary, &args.replay_dir, &json!({"scenario": format!("{:?}", scn), "detail": f.detail, "observed": stats}));
      }
      if leaked {
        res.notes.push(format!("execution {} left blocked threads behind; shard stops early", scn.exec));
        break;
      }
    } else {
      // a batch of stepper programs
      for _ in 0..(if cfg!(miri) { 4 } else { 200 }) {
        let rw = rng.chance(2, 3);
        let steps = rng.range(4, 40) as usize;
        let case_seed = rng.next();
        let mut crng = Rng::new(case_seed);
        let (findings, had_pending, trace, sig) = run_stepper(rw, steps, &mut crng);
        res.executions += 1;
        res.count("stepper/programs", 1);
        if had_pending {
          res.count("stepper/programs_with_a_pending_future", 1);
          res.add_nontrivial(sig);
        }
        res.count("stepper/actions", trace.len() as u64);
        if res.samples.len() < 3 && had_pending && trace.len() > 6 {
          res.sample(json!({"stepper_program": {"rwlock": rw, "case_seed": case_seed, "actions": trace}}), 3);
        }
        for f in findings {
          let sig = format!("C10/{}/{}/stepper", if rw { "rwlock" } else { "mutex" }, f.rule);
          res.violation(&sig, &f.summary, &args.replay_dir, &json!({"rwlock": rw, "steps": steps, "case_seed": case_seed, "detail": f.detail}));
        }
      }
    }
  }
  res.write(&args.out, args.elapsed_s());
}
