//! chan_stepper — deterministic single-threaded explorer of the async APIs (C06, and the
//! cancellation clauses of C01/C09). Futures are created, polled, re-polled with a different
//! waker and dropped at points chosen by a seeded program generator; wakers only count.
//!
//! Oracles
//!  * spontaneous re-poll at quiescence: after every woken task has been polled, each still
//!    pending future is polled once more with a fresh waker; `Ready` means the operation was
//!    able to complete and the waker registered by its last poll was never invoked = lost wake;
//!  * conservation after the final drain (the C01 rules of `oracle.rs` on the recorded
//!    history): cancelling futures neither loses nor duplicates a message;
//!  * drop ledger: every payload dropped exactly once (C09) — under Miri/ASan a waiter
//!    record outliving its future is a use-after-free report;
//!  * no panic.

use serde_json::{json, Value};
use std::future::Future;
use std::panic::{catch_unwind, AssertUnwindSafe};
use std::pin::Pin;
use std::sync::Arc;
use std::task::Poll;
use vh_channels::adapt::*;
use vh_channels::hist::*;
use vh_channels::oracle::{self, Meta};
use vh_channels::val::{self, vid, Val};
use vh_core::cli::Args;
use vh_core::result::ShardResult;
use vh_core::rng::Rng;
use vh_core::stepper::{poll_once, Flag};

use fibre::error::*;

enum TOut {
  Unit(Result<(), SendError>),
  Batch(Result<usize, SendBatchError<Val>>),
  BatchMut(Result<usize, SendError>),
  One(Result<Val, RecvError>),
  Many(Result<Vec<Val>, RecvError>),
  Count(Result<usize, RecvError>),
  Next(Option<Val>),
}

type TFut = Pin<Box<dyn Future<Output = TOut>>>;

/// Heap vector lent to an in-place batch future through a raw pointer (no Box moves while the
/// future holds the `&mut`, so the borrow stays valid under Stacked/Tree Borrows).
struct RawVec(*mut Vec<Val>);
impl RawVec {
  fn into_box(self) -> Box<Vec<Val>> {
    let p = self.0;
    std::mem::forget(self);
    // SAFETY: created by Box::into_raw; the future that borrowed it is gone by now.
    unsafe { Box::from_raw(p) }
  }
}
impl Drop for RawVec {
  fn drop(&mut self) {
    // SAFETY: as above.
    unsafe { drop(Box::from_raw(self.0)) }
  }
}

struct Task {
  fut: Option<TFut>,
  side: Side,
  hidx: usize,
  flag: Arc<Flag>,
  seen: u64,
  ev: usize,
  /// caller-owned vec of in-place batch forms (kept alive behind the future)
  vec: Option<RawVec>,
  form: Form,
  polls: u32,
  repolled_with_new_waker: bool,
}

struct TxS {
  id: u32,
  a: Option<Box<dyn ATx>>,
  s: Option<Box<dyn STx>>,
  seq: u32,
  busy: bool,
  closed: bool,
}
struct RxS {
  id: u32,
  a: Option<Box<dyn ARx>>,
  s: Option<Box<dyn SRx>>,
  busy: bool,
  closed: bool,
  disconnected: bool,
}

struct World {
  fl: Flavour,
  log: Log,
  txs: Vec<TxS>,
  rxs: Vec<RxS>,
  tasks: Vec<Task>,
  next_id: u32,
  pending_seen: bool,
  lost_wakes: Vec<Value>,
  actions: Vec<String>,
  panicked: Option<String>,
  cancelled_after_wake: u64,
  cancelled_before_wake: u64,
  repolls_new_waker: u64,
}

fn ids_of(vs: &[Val]) -> Vec<u64> {
  vs.iter().map(|v| v.wid()).collect()
}

impl World {
  fn new(fl: Flavour, cap: usize, rng: &mut Rng) -> World {
    let (tx, rx) = make(fl, cap, !fl.oneshot() && rng.chance(1, 2));
    let mut w = World {
      fl,
      log: Log::default(),
      txs: vec![],
      rxs: vec![],
      tasks: vec![],
      next_id: 1,
      pending_seen: false,
      lost_wakes: vec![],
      actions: vec![],
      panicked: None,
      cancelled_after_wake: 0,
      cancelled_before_wake: 0,
      repolls_new_waker: 0,
    };
    let id = w.fresh_id();
    let mut t = TxS { id, a: None, s: None, seq: 0, busy: false, closed: false };
    match tx {
      TxH::S(h) => t.s = Some(h),
      TxH::A(h) => t.a = Some(h),
    }
    w.txs.push(t);
    let id = w.fresh_id();
    let mut r = RxS { id, a: None, s: None, busy: false, closed: false, disconnected: false };
    match rx {
      RxH::S(h) => r.s = Some(h),
      RxH::A(h) => r.a = Some(h),
    }
    w.rxs.push(r);
    w
  }
  fn fresh_id(&mut self) -> u32 {
    let i = self.next_id;
    self.next_id += 1;
    i
  }
  fn note(&mut self, s: String) {
    if std::env::var_os("VH_TRACE").is_some() {
      eprintln!("  [act] {}", s);
    }
    if self.actions.len() < 400 {
      self.actions.push(s);
    }
  }

  // ------------------------------------------------------------------ handle management
  fn tx_to_async(&mut self, i: usize) -> bool {
    if self.fl.oneshot() {
      return false;
    }
    let t = &mut self.txs[i];
    if t.a.is_some() {
      return true;
    }
    if let Some(s) = t.s.take() {
      let mut ev = Ev::new(0, t.id, Side::Tx, Form::Convert, false);
      ev.aux = 1;
      let idx = self.log.begin(ev);
      match catch_unwind(AssertUnwindSafe(move || s.into_async())) {
        Ok(a) => {
          t.a = Some(a);
          self.log.end(idx, |e| e.out = Out::Ok);
          true
        }
        Err(p) => {
          let n = format!("{} @ {}", vh_core::panic_message(&*p), vh_core::last_panic_location());
          self.log.end(idx, |e| {
            e.out = Out::Panicked;
            e.note = Some(n.clone());
          });
          self.panicked = Some(n);
          false
        }
      }
    } else {
      false
    }
  }
  fn tx_to_sync(&mut self, i: usize) -> bool {
    if self.fl.oneshot() {
      return self.txs[i].s.is_some();
    }
    let t = &mut self.txs[i];
    if t.s.is_some() {
      return true;
    }
    if let Some(a) = t.a.take() {
      let ev = Ev::new(0, t.id, Side::Tx, Form::Convert, true);
      let idx = self.log.begin(ev);
      match catch_unwind(AssertUnwindSafe(move || a.into_sync())) {
        Ok(s) => {
          t.s = Some(s);
          self.log.end(idx, |e| e.out = Out::Ok);
          true
        }
        Err(p) => {
          let n = format!("{} @ {}", vh_core::panic_message(&*p), vh_core::last_panic_location());
          self.log.end(idx, |e| {
            e.out = Out::Panicked;
            e.note = Some(n.clone());
          });
          self.panicked = Some(n);
          false
        }
      }
    } else {
      false
    }
  }
  fn rx_to_async(&mut self, i: usize) -> bool {
    let r = &mut self.rxs[i];
    if r.a.is_some() {
      return true;
    }
    if let Some(s) = r.s.take() {
      let mut ev = Ev::new(0, r.id, Side::Rx, Form::Convert, false);
      ev.aux = 1;
      let idx = self.log.begin(ev);
      match catch_unwind(AssertUnwindSafe(move || s.into_async())) {
        Ok(a) => {
          r.a = Some(a);
          self.log.end(idx, |e| e.out = Out::Ok);
          true
        }
        Err(p) => {
          let n = format!("{} @ {}", vh_core::panic_message(&*p), vh_core::last_panic_location());
          self.log.end(idx, |e| {
            e.out = Out::Panicked;
            e.note = Some(n.clone());
          });
          self.panicked = Some(n);
          false
        }
      }
    } else {
      false
    }
  }
  fn rx_to_sync(&mut self, i: usize) -> bool {
    let r = &mut self.rxs[i];
    if r.s.is_some() {
      return true;
    }
    match &r.a {
      Some(a) if a.can_sync() => {}
      _ => return false,
    }
    let a = r.a.take().unwrap();
    let ev = Ev::new(0, r.id, Side::Rx, Form::Convert, true);
    let idx = self.log.begin(ev);
    match catch_unwind(AssertUnwindSafe(move || a.into_sync())) {
      Ok(s) => {
        r.s = Some(s);
        self.log.end(idx, |e| e.out = Out::Ok);
        true
      }
      Err(p) => {
        let n = format!("{} @ {}", vh_core::panic_message(&*p), vh_core::last_panic_location());
        self.log.end(idx, |e| {
          e.out = Out::Panicked;
          e.note = Some(n.clone());
        });
        self.panicked = Some(n);
        false
      }
    }
  }

  fn payloads(&mut self, i: usize, n: usize) -> (Vec<Val>, Vec<u64>) {
    let t = &mut self.txs[i];
    let mut vs = Vec::new();
    let mut ids = Vec::new();
    for _ in 0..n {
      let id = vid(t.id, t.seq);
      t.seq += 1;
      ids.push(id);
      vs.push(Val::new(id));
    }
    (vs, ids)
  }

  // ------------------------------------------------------------------ spawning futures
  fn spawn_send(&mut self, i: usize, kind: u8, n: usize) {
    if self.txs[i].busy || self.txs[i].a.is_none() {
      return;
    }
    let (mut vs, ids) = self.payloads(i, if kind == 0 { 1 } else { n });
    let form = match kind {
      0 => Form::Send,
      1 => Form::SendBatch,
      _ => Form::SendBatchMut,
    };
    let mut ev = Ev::new(0, self.txs[i].id, Side::Tx, form, true);
    ev.vals = ids;
    ev.back_known = kind != 0;
    let evi = self.log.begin(ev);
    // SAFETY: the handle lives in a Box owned by `self.txs[i]`; the future is stored in
    // `self.tasks` and is always dropped (see `finish_task`/`cancel_task`/`teardown`) before
    // the handle is touched again (`busy`) or dropped.
    let hp: *mut dyn ATx = &mut **self.txs[i].a.as_mut().unwrap();
    let h: &'static mut dyn ATx = unsafe { &mut *hp };
    let mut vecbox: Option<RawVec> = None;
    let fut: TFut = match kind {
      0 => {
        let v = vs.pop().unwrap();
        let f = h.send(v);
        Box::pin(async move { TOut::Unit(f.await) })
      }
      1 => {
        let f = h.send_batch(vs);
        Box::pin(async move { TOut::Batch(f.await) })
      }
      _ => {
        let vp: *mut Vec<Val> = Box::into_raw(Box::new(vs));
        vecbox = Some(RawVec(vp));
        let f = h.send_batch_mut(unsafe { &mut *vp });
        Box::pin(async move { TOut::BatchMut(f.await) })
      }
    };
    self.txs[i].busy = true;
    self.note(format!("spawn {} on tx{}", form.name(), self.txs[i].id));
    self.tasks.push(Task {
      fut: Some(fut),
      side: Side::Tx,
      hidx: i,
      flag: Flag::new(),
      seen: 0,
      ev: evi,
      vec: vecbox,
      form,
      polls: 0,
      repolled_with_new_waker: false,
    });
    let ti = self.tasks.len() - 1;
    self.poll_task(ti, false);
  }

  fn spawn_recv(&mut self, i: usize, kind: u8, max: usize) {
    if self.rxs[i].busy || self.rxs[i].a.is_none() {
      return;
    }
    let has_stream = self.rxs[i].a.as_ref().unwrap().has_stream();
    let kind = if kind == 3 && !has_stream { 0 } else { kind };
    let form = match kind {
      0 => Form::Recv,
      1 => Form::RecvBatch,
      2 => Form::RecvBatchMut,
      _ => Form::StreamNext,
    };
    let mut ev = Ev::new(0, self.rxs[i].id, Side::Rx, form, true);
    ev.aux = max as u64;
    let evi = self.log.begin(ev);
    let hp: *mut dyn ARx = &mut **self.rxs[i].a.as_mut().unwrap();
    let h: &'static mut dyn ARx = unsafe { &mut *hp };
    let mut vecbox: Option<RawVec> = None;
    let fut: TFut = match kind {
      0 => {
        let f = h.recv();
        Box::pin(async move { TOut::One(f.await) })
      }
      1 => {
        let f = h.recv_batch(max);
        Box::pin(async move { TOut::Many(f.await) })
      }
      2 => {
        let vp: *mut Vec<Val> = Box::into_raw(Box::new(Vec::new()));
        vecbox = Some(RawVec(vp));
        let f = h.recv_batch_mut(unsafe { &mut *vp }, max);
        Box::pin(async move { TOut::Count(f.await) })
      }
      _ => {
        let f = h.next();
        Box::pin(async move { TOut::Next(f.await) })
      }
    };
    self.rxs[i].busy = true;
    self.note(format!("spawn {} on rx{}", form.name(), self.rxs[i].id));
    self.tasks.push(Task {
      fut: Some(fut),
      side: Side::Rx,
      hidx: i,
      flag: Flag::new(),
      seen: 0,
      ev: evi,
      vec: vecbox,
      form,
      polls: 0,
      repolled_with_new_waker: false,
    });
    let ti = self.tasks.len() - 1;
    self.poll_task(ti, false);
  }

  /// Polls task `ti` once; `new_waker` replaces its waker (wakes of the old one no longer
  /// count). Returns true if it completed.
  fn poll_task(&mut self, ti: usize, new_waker: bool) -> bool {
    if self.tasks[ti].fut.is_none() {
      return true;
    }
    if new_waker {
      self.tasks[ti].flag = Flag::new();
      self.tasks[ti].seen = 0;
      self.tasks[ti].repolled_with_new_waker = true;
      self.repolls_new_waker += 1;
    }
    let flag = self.tasks[ti].flag.clone();
    self.tasks[ti].seen = flag.count();
    self.tasks[ti].polls += 1;
    let mut fut = self.tasks[ti].fut.take().unwrap();
    let r = catch_unwind(AssertUnwindSafe(|| poll_once(fut.as_mut(), &flag)));
    if std::env::var_os("VH_TRACE").is_some() {
      eprintln!(
        "  [poll] task{} {} new_waker={} -> {}",
        ti,
        self.tasks[ti].form.name(),
        new_waker,
        match &r {
          Ok(Poll::Pending) => "Pending",
          Ok(Poll::Ready(_)) => "Ready",
          Err(_) => "PANIC",
        }
      );
    }
    match r {
      Ok(Poll::Pending) => {
        self.tasks[ti].fut = Some(fut);
        self.pending_seen = true;
        false
      }
      Ok(Poll::Ready(out)) => {
        drop(fut);
        self.finish_task(ti, Some(out), None);
        true
      }
      Err(p) => {
        let n = format!("{} @ {}", vh_core::panic_message(&*p), vh_core::last_panic_location());
        // the future may be in an arbitrary state: leak it rather than run its Drop
        std::mem::forget(fut);
        self.finish_task(ti, None, Some(n));
        true
      }
    }
  }

  fn finish_task(&mut self, ti: usize, out: Option<TOut>, panic: Option<String>) {
    let (side, hidx, evi, form) = {
      let t = &self.tasks[ti];
      (t.side, t.hidx, t.ev, t.form)
    };
    let vec: Option<Box<Vec<Val>>> = self.tasks[ti].vec.take().map(|r| r.into_box());
    if side == Side::Tx {
      self.txs[hidx].busy = false;
    } else {
      self.rxs[hidx].busy = false;
    }
    let mut disc = false;
    self.log.end(evi, |e| {
      if let Some(v) = &vec {
        if form.is_send() {
          e.back = ids_of(v);
        } else {
          e.vals = ids_of(v);
        }
      }
      match out {
        None => {
          if let Some(n) = &panic {
            e.out = Out::Panicked;
            e.note = Some(n.clone());
          } else {
            e.out = Out::Cancelled;
            if form == Form::SendBatch {
              e.back_known = false;
            }
          }
        }
        Some(TOut::Unit(r)) => match r {
          Ok(()) => {
            e.out = Out::Ok;
            e.n_ok = 1;
          }
          Err(SendError::Closed) => e.out = Out::Closed,
          Err(SendError::Sent) => e.out = Out::Sent,
        },
        Some(TOut::Batch(r)) => match r {
          Ok(n) => {
            e.out = Out::Ok;
            e.n_ok = n as u32;
          }
          Err(err) => {
            e.out = Out::Closed;
            e.n_ok = err.sent as u32;
            e.back = ids_of(&err.unsent);
          }
        },
        Some(TOut::BatchMut(r)) => match r {
          Ok(n) => {
            e.out = Out::Ok;
            e.n_ok = n as u32;
          }
          Err(_) => {
            e.out = Out::Closed;
            e.n_ok = (e.vals.len() - e.back.len().min(e.vals.len())) as u32;
          }
        },
        Some(TOut::One(r)) => match r {
          Ok(v) => {
            e.vals = vec![v.wid()];
            e.out = Out::Ok;
          }
          Err(_) => {
            e.out = Out::Disconnected;
            disc = true;
          }
        },
        Some(TOut::Many(r)) => match r {
          Ok(vs) => {
            e.vals = ids_of(&vs);
            e.out = Out::Ok;
          }
          Err(_) => {
            e.out = Out::Disconnected;
            disc = true;
          }
        },
        Some(TOut::Count(r)) => match r {
          Ok(_) => e.out = Out::Ok,
          Err(_) => {
            e.out = Out::Disconnected;
            disc = true;
          }
        },
        Some(TOut::Next(r)) => match r {
          Some(v) => {
            e.vals = vec![v.wid()];
            e.out = Out::Ok;
          }
          None => {
            e.out = Out::StreamEnd;
            disc = true;
          }
        },
      }
      e.n_ok = if form.is_recv() { e.vals.len() as u32 } else { e.n_ok };
    });
    if let Some(n) = panic {
      self.panicked = Some(n);
    }
    if disc && side == Side::Rx && !self.rxs[hidx].closed {
      self.rxs[hidx].disconnected = true;
    }
    let _ = form;
  }

  /// Drops a pending future (cancellation).
  fn cancel_task(&mut self, ti: usize) {
    if let Some(fut) = self.tasks[ti].fut.take() {
      let woken = self.tasks[ti].flag.count() > self.tasks[ti].seen;
      if woken {
        self.cancelled_after_wake += 1;
      } else {
        self.cancelled_before_wake += 1;
      }
      let name = self.tasks[ti].form.name();
      self.note(format!("drop pending {} (woken={})", name, woken));
      let r = catch_unwind(AssertUnwindSafe(move || drop(fut)));
      match r {
        Ok(()) => self.finish_task(ti, None, None),
        Err(p) => {
          let n = format!("{} @ {}", vh_core::panic_message(&*p), vh_core::last_panic_location());
          self.finish_task(ti, None, Some(n));
        }
      }
    }
  }

  fn pending(&self) -> Vec<usize> {
    (0..self.tasks.len()).filter(|&i| self.tasks[i].fut.is_some()).collect()
  }

  /// Executor step: polls every task whose (current) waker was invoked since its last poll,
  /// until no such task is left.
  fn run_woken(&mut self) {
    let mut guard = 0;
    loop {
      let woken: Vec<usize> = self.pending().into_iter().filter(|&i| self.tasks[i].flag.count() > self.tasks[i].seen).collect();
      if woken.is_empty() || self.panicked.is_some() {
        break;
      }
      for ti in woken {
        self.poll_task(ti, false);
      }
      guard += 1;
      if guard > 10_000 {
        break;
      }
    }
  }

  /// Quiescence check: nothing is woken; a spontaneous poll that completes proves a lost wake.
  fn quiescence_check(&mut self, at: &str) {
    self.run_woken();
    if self.panicked.is_some() {
      return;
    }
    for ti in self.pending() {
      let form = self.tasks[ti].form;
      let evj = self.log.evs.lock().unwrap()[self.tasks[ti].ev].to_json();
      let polls = self.tasks[ti].polls;
      let renewed = self.tasks[ti].repolled_with_new_waker;
      let done = self.poll_task(ti, true);
      if done {
        let res = self.log.evs.lock().unwrap()[self.tasks[ti].ev].to_json();
        self.lost_wakes.push(json!({"at": at, "form": form.name(), "op": evj, "result_of_spontaneous_poll": res,
          "polls_before": polls, "had_been_repolled_with_new_waker": renewed}));
        // let tasks woken by that completion run before judging the next one
        self.run_woken();
      }
    }
  }
}

fn run_program(fl: Flavour, cap: usize, steps: usize, rng: &mut Rng, tiny: bool) -> (World, Vec<Ev>, bool) {
  vh_core::reset_stamp();
  let mut w = World::new(fl, cap, rng);
  for step in 0..steps {
    if w.panicked.is_some() {
      break;
    }
    let ntx = w.txs.len();
    let nrx = w.rxs.len();
    let action = rng.weighted(&[10, 10, 8, 8, 6, 6, 5, 3, 3, 2, 2, 3, 4, 3, 2]);
    match action {
      // spawn async send forms
      0 => {
        let i = rng.below(ntx as u64) as usize;
        if !w.txs[i].busy && w.txs[i].a.is_none() && w.txs[i].s.is_some() && !fl.oneshot() {
          w.tx_to_async(i);
        }
        let kind = if fl.has_batch() { rng.weighted(&[5, 2, 2]) as u8 } else { 0 };
        let n = rng.range(0, (cap as u64 * 2 + 2).min(if tiny { 3 } else { 9 })) as usize;
        w.spawn_send(i, kind, n);
      }
      // spawn async recv forms
      1 => {
        let i = rng.below(nrx as u64) as usize;
        if !w.rxs[i].busy && w.rxs[i].a.is_none() {
          w.rx_to_async(i);
        }
        let kind = if fl.has_batch() { rng.weighted(&[5, 2, 2, 3]) as u8 } else { 0 };
        let max = rng.range(0, 5) as usize;
        w.spawn_recv(i, kind, max);
      }
      // try_send on a free handle (sync or async flavour of the handle as it is)
      2 => {
        let i = rng.below(ntx as u64) as usize;
        if w.txs[i].busy || (w.txs[i].a.is_none() && w.txs[i].s.is_none()) {
          continue;
        }
        if fl.oneshot() && w.txs[i].s.is_none() {
          continue;
        }
        let (mut vs, ids) = w.payloads(i, 1);
        let v = vs.pop().unwrap();
        let is_async = w.txs[i].a.is_some();
        let mut ev = Ev::new(0, w.txs[i].id, Side::Tx, Form::TrySend, is_async);
        ev.vals = ids;
        ev.back_known = true;
        let idx = w.log.begin(ev);
        let t = &mut w.txs[i];
        let r = catch_unwind(AssertUnwindSafe(|| {
          if let Some(a) = t.a.as_mut() {
            a.try_send(v)
          } else {
            t.s.as_mut().unwrap().try_send(v)
          }
        }));
        if fl.oneshot() {
          t.s = None;
        }
        let mut pn = None;
        w.log.end(idx, |e| match r {
          Ok(Ok(())) => {
            e.out = Out::Ok;
            e.n_ok = 1;
          }
          Ok(Err(err)) => {
            let (o, v) = match err {
              TrySendError::Full(v) => (Out::Full, v),
              TrySendError::Closed(v) => (Out::Closed, v),
              TrySendError::Sent(v) => (Out::Sent, v),
            };
            e.out = o;
            e.back = vec![v.wid()];
          }
          Err(p) => {
            let n = format!("{} @ {}", vh_core::panic_message(&*p), vh_core::last_panic_location());
            e.out = Out::Panicked;
            e.note = Some(n.clone());
            pn = Some(n);
          }
        });
        if pn.is_some() {
          w.panicked = pn;
        }
        w.note(format!("try_send on tx{}", w.txs[i].id));
      }
      // try_recv on a free handle
      3 => {
        let i = rng.below(nrx as u64) as usize;
        if w.rxs[i].busy || (w.rxs[i].a.is_none() && w.rxs[i].s.is_none()) {
          continue;
        }
        let is_async = w.rxs[i].a.is_some();
        let ev = Ev::new(0, w.rxs[i].id, Side::Rx, Form::TryRecv, is_async);
        let idx = w.log.begin(ev);
        let r = &mut w.rxs[i];
        let res = catch_unwind(AssertUnwindSafe(|| {
          if let Some(a) = r.a.as_mut() {
            a.try_recv()
          } else {
            r.s.as_mut().unwrap().try_recv()
          }
        }));
        let mut pn = None;
        let mut disc = false;
        w.log.end(idx, |e| match res {
          Ok(Ok(v)) => {
            e.vals = vec![v.wid()];
            e.n_ok = 1;
            e.out = Out::Ok;
          }
          Ok(Err(TryRecvError::Empty)) => e.out = Out::Empty,
          Ok(Err(TryRecvError::Disconnected)) => {
            e.out = Out::Disconnected;
            disc = true;
          }
          Err(p) => {
            let n = format!("{} @ {}", vh_core::panic_message(&*p), vh_core::last_panic_location());
            e.out = Out::Panicked;
            e.note = Some(n.clone());
            pn = Some(n);
          }
        });
        if pn.is_some() {
          w.panicked = pn;
        }
        if disc && !w.rxs[i].closed {
          w.rxs[i].disconnected = true;
        }
        w.note(format!("try_recv on rx{}", w.rxs[i].id));
      }
      // run the executor: poll what was woken
      4 => w.run_woken(),
      // cancel a pending future (woken or not)
      5 => {
        // A `Stream` poll registers the *receiver* itself; abandoning the wrapper future drops
        // nothing of the library's, so it is not a cancellation (see DESIGN, C06 notes).
        let p: Vec<usize> = w.pending().into_iter().filter(|&t| w.tasks[t].form != Form::StreamNext).collect();
        if !p.is_empty() {
          let ti = p[rng.below(p.len() as u64) as usize];
          w.cancel_task(ti);
        }
      }
      // re-poll a pending future with a different waker
      6 => {
        let p = w.pending();
        if !p.is_empty() {
          let ti = p[rng.below(p.len() as u64) as usize];
          // only futures that are not currently woken: a woken one is simply due for a poll
          if w.tasks[ti].flag.count() == w.tasks[ti].seen {
            w.poll_task(ti, true);
          } else {
            w.poll_task(ti, false);
          }
        }
      }
      // clone a sender
      7 => {
        if ntx < 4 {
          let i = rng.below(ntx as u64) as usize;
          if w.txs[i].busy || w.txs[i].closed {
            continue;
          }
          let nid = w.fresh_id();
          let mut ev = Ev::new(0, w.txs[i].id, Side::Tx, Form::Clone, w.txs[i].a.is_some());
          ev.aux = nid as u64;
          let idx = w.log.begin(ev);
          let (a, s) = match (&w.txs[i].a, &w.txs[i].s) {
            (Some(a), _) => (a.try_clone(), None),
            (None, Some(s)) => (None, s.try_clone()),
            _ => (None, None),
          };
          let ok = a.is_some() || s.is_some();
          w.log.end(idx, |e| e.out = if ok { Out::Ok } else { Out::Empty });
          if ok {
            w.txs.push(TxS { id: nid, a, s, seq: 0, busy: false, closed: false });
          }
        }
      }
      // clone a receiver
      8 => {
        if nrx < 5 {
          let i = rng.below(nrx as u64) as usize;
          clone_rx(&mut w, i);
        }
      }
      // drop a sender handle (never the last one before the final third)
      9 => {
        let alive: Vec<usize> = (0..ntx).filter(|&i| w.txs[i].a.is_some() || w.txs[i].s.is_some()).collect();
        if alive.len() > 1 || step * 3 > steps * 2 || rng.chance(1, 8) {
          if let Some(&i) = alive.get(rng.below(alive.len().max(1) as u64) as usize) {
            drop_tx(&mut w, i);
          }
        }
      }
      // drop a receiver handle (keep receiver 0 for the final drain)
      10 => {
        let alive: Vec<usize> = (1..nrx).filter(|&i| w.rxs[i].a.is_some() || w.rxs[i].s.is_some()).collect();
        if !alive.is_empty() {
          let i = alive[rng.below(alive.len() as u64) as usize];
          drop_rx(&mut w, i);
        }
      }
      // convert a free handle between sync and async
      11 => {
        if rng.chance(1, 2) {
          let i = rng.below(ntx as u64) as usize;
          if !w.txs[i].busy {
            if w.txs[i].a.is_some() {
              w.tx_to_sync(i);
            } else {
              w.tx_to_async(i);
            }
          }
        } else {
          let i = rng.below(nrx as u64) as usize;
          if !w.rxs[i].busy {
            if w.rxs[i].a.is_some() {
              w.rx_to_sync(i);
            } else {
              w.rx_to_async(i);
            }
          }
        }
      }
      // mid-program quiescence check
      12 => w.quiescence_check("mid-program"),
      // Template "waiters, then values, then the other side leaves, then some woken waiters give up": every free
      // receiver handle gets a pending receive, a few values are placed with try_send, every sender handle is
      // dropped (the close wake reaches everybody) and a random subset of the woken futures is cancelled unpolled;
      // nothing is polled in between. What is left must drain the values before it sees Disconnected.
      14 => {
        if fl.oneshot() || fl.broadcast() || step * 2 < steps {
          continue;
        }
        if fl.multi_consumer() && rng.chance(1, 2) {
          // more waiters than the capacity
          let mut guard = 0;
          while w.rxs.len() < 5 && guard < 8 {
            guard += 1;
            clone_rx(&mut w, 0);
          }
        }
        let nrx = w.rxs.len();
        for i in 0..nrx {
          if w.panicked.is_some() {
            break;
          }
          if w.rxs[i].busy || w.rxs[i].closed || (w.rxs[i].a.is_none() && w.rxs[i].s.is_none()) {
            continue;
          }
          if w.rxs[i].a.is_none() && !w.rx_to_async(i) {
            continue;
          }
          let kind = if fl.has_batch() { rng.weighted(&[5, 2, 2, 3]) as u8 } else { 0 };
          let max = rng.range(1, 4) as usize;
          w.spawn_recv(i, kind, max);
        }
        w.note("template: receivers pending; now values, then every sender leaves".into());
        let batch = fl.has_batch() && rng.chance(1, 2);
        if batch {
          // one batch larger than the capacity, polled once
          for i in 0..ntx {
            if w.txs[i].busy || w.txs[i].closed || (w.txs[i].a.is_none() && w.txs[i].s.is_none()) {
              continue;
            }
            if w.txs[i].a.is_none() && !w.tx_to_async(i) {
              continue;
            }
            let n = cap + 1 + rng.below(3) as usize;
            w.spawn_send(i, 1 + rng.below(2) as u8, n);
            break;
          }
          // len() against capacity() while the values sit where the channel put them and nobody has been polled
          for i in 0..w.rxs.len() {
            let (len, capr) = match (&w.rxs[i].a, &w.rxs[i].s) {
              (Some(a), _) => (a.len(), a.capacity()),
              (None, Some(s)) => (s.len(), s.capacity()),
              _ => (None, None),
            };
            if let Some(l) = len {
              let mut ev = Ev::new(0, w.rxs[i].id, Side::Rx, Form::Probe, false);
              ev.aux = l as u64;
              ev.aux2 = capr.map(|c| c as u64).unwrap_or(u64::MAX);
              let idx = w.log.begin(ev);
              w.log.end(idx, |e| e.out = Out::Ok);
              break;
            }
          }
          if rng.chance(1, 2) {
            w.quiescence_check("template: waiters + batch");
            continue;
          }
        }
        let nvals = if batch { 0 } else { rng.range(1, 3) as usize };
        'vals: for _ in 0..nvals {
          for i in 0..ntx {
            if w.panicked.is_some() {
              break 'vals;
            }
            if w.txs[i].busy || w.txs[i].closed || (w.txs[i].a.is_none() && w.txs[i].s.is_none()) {
              continue;
            }
            let (mut vs, ids) = w.payloads(i, 1);
            let v = vs.pop().unwrap();
            let is_async = w.txs[i].a.is_some();
            let mut ev = Ev::new(0, w.txs[i].id, Side::Tx, Form::TrySend, is_async);
            ev.vals = ids;
            let idx = w.log.begin(ev);
            let t = &mut w.txs[i];
            let r = catch_unwind(AssertUnwindSafe(|| if let Some(a) = t.a.as_mut() { a.try_send(v) } else { t.s.as_mut().unwrap().try_send(v) }));
            let mut pn = None;
            w.log.end(idx, |e| match r {
              Ok(Ok(())) => {
                e.out = Out::Ok;
                e.n_ok = 1;
              }
              Ok(Err(err)) => {
                let (o, v) = match err {
                  TrySendError::Full(v) => (Out::Full, v),
                  TrySendError::Closed(v) => (Out::Closed, v),
                  TrySendError::Sent(v) => (Out::Sent, v),
                };
                e.out = o;
                e.back = vec![v.wid()];
              }
              Err(p) => {
                let n = format!("{} @ {}", vh_core::panic_message(&*p), vh_core::last_panic_location());
                e.out = Out::Panicked;
                e.note = Some(n.clone());
                pn = Some(n);
              }
            });
            if pn.is_some() {
              w.panicked = pn;
            }
            break;
          }
        }
        if w.panicked.is_some() {
          continue;
        }
        // pending sends of this program go first: their handles are busy
        let pend_tx: Vec<usize> = w.pending().into_iter().filter(|&t| w.tasks[t].form.is_send()).collect();
        for ti in pend_tx {
          w.cancel_task(ti);
        }
        for i in 0..w.txs.len() {
          if w.panicked.is_none() {
            drop_tx(&mut w, i);
          }
        }
        let woken: Vec<usize> = w.pending().into_iter().filter(|&t| w.tasks[t].form != Form::StreamNext && w.tasks[t].flag.count() > w.tasks[t].seen).collect();
        for ti in woken {
          if rng.chance(1, 2) && w.panicked.is_none() {
            w.cancel_task(ti);
          }
        }
        w.run_woken();
      }
      // A pending `Stream` poll left a registration inside the *receiver*. Abandon the polling task and,
      // in the same step, end that handle's async life (convert it to sync, or drop it): the handle must
      // take its registration with it, or the next wake is spent on a dead entry.
      _ => {
        let p: Vec<usize> = w.pending().into_iter().filter(|&t| w.tasks[t].form == Form::StreamNext).collect();
        if p.is_empty() {
          continue;
        }
        let ti = p[rng.below(p.len() as u64) as usize];
        let hidx = w.tasks[ti].hidx;
        if hidx == 0 && rng.chance(1, 2) {
          continue; // receiver 0 is mostly kept for the final drain
        }
        w.cancel_task(ti); // drops only the harness's poll_fn wrapper
        if w.panicked.is_some() {
          continue;
        }
        if hidx != 0 && rng.chance(1, 2) {
          w.note(format!("drop rx{} right after abandoning its pending stream poll", w.rxs[hidx].id));
          drop_rx(&mut w, hidx);
        } else {
          w.note(format!("rx{}.to_sync() right after abandoning its pending stream poll", w.rxs[hidx].id));
          w.rx_to_sync(hidx);
        }
      }
    }
  }
  // ---- end of script: quiescence check, then tear down and drain
  if w.panicked.is_none() {
    w.quiescence_check("end-of-program");
  }
  let had_pending = w.pending_seen;
  // cancel whatever is still pending, drop all senders, drain receiver 0 to Disconnected
  for ti in w.pending() {
    w.cancel_task(ti);
  }
  for i in 0..w.txs.len() {
    drop_tx(&mut w, i);
  }
  for i in 1..w.rxs.len() {
    drop_rx(&mut w, i);
  }
  if w.panicked.is_none() && !w.rxs[0].closed && (w.rxs[0].a.is_some() || w.rxs[0].s.is_some()) {
    let mut guard = 0;
    loop {
      guard += 1;
      let is_async = w.rxs[0].a.is_some();
      let ev = Ev::new(0, w.rxs[0].id, Side::Rx, Form::TryRecv, is_async);
      let idx = w.log.begin(ev);
      let r = &mut w.rxs[0];
      let res = catch_unwind(AssertUnwindSafe(|| {
        if let Some(a) = r.a.as_mut() {
          a.try_recv()
        } else {
          r.s.as_mut().unwrap().try_recv()
        }
      }));
      let mut stop = false;
      let mut pn = None;
      w.log.end(idx, |e| match res {
        Ok(Ok(v)) => {
          e.vals = vec![v.wid()];
          e.n_ok = 1;
          e.out = Out::Ok;
        }
        Ok(Err(TryRecvError::Empty)) => {
          e.out = Out::Empty;
          stop = true;
        }
        Ok(Err(TryRecvError::Disconnected)) => {
          e.out = Out::Disconnected;
          stop = true;
        }
        Err(p) => {
          let n = format!("{} @ {}", vh_core::panic_message(&*p), vh_core::last_panic_location());
          e.out = Out::Panicked;
          e.note = Some(n.clone());
          pn = Some(n);
          stop = true;
        }
      });
      if pn.is_some() {
        w.panicked = pn;
      }
      if stop || guard > 100_000 {
        break;
      }
    }
  }
  drop_rx(&mut w, 0);
  let evs = w.log.snapshot();
  (w, evs, had_pending)
}

fn clone_rx(w: &mut World, i: usize) {
  if w.rxs[i].busy || w.rxs[i].closed {
    return;
  }
  let nid = w.fresh_id();
  let mut ev = Ev::new(0, w.rxs[i].id, Side::Rx, Form::Clone, w.rxs[i].a.is_some());
  ev.aux = nid as u64;
  let idx = w.log.begin(ev);
  let (a, s) = match (&w.rxs[i].a, &w.rxs[i].s) {
    (Some(a), _) => (a.try_clone(), None),
    (None, Some(s)) => (None, s.try_clone()),
    _ => (None, None),
  };
  let ok = a.is_some() || s.is_some();
  w.log.end(idx, |e| e.out = if ok { Out::Ok } else { Out::Empty });
  if ok {
    w.rxs.push(RxS { id: nid, a, s, busy: false, closed: false, disconnected: false });
  }
}

fn drop_tx(w: &mut World, i: usize) {
  if w.txs[i].busy {
    let tis: Vec<usize> = w.pending().into_iter().filter(|&t| w.tasks[t].side == Side::Tx && w.tasks[t].hidx == i).collect();
    for t in tis {
      w.cancel_task(t);
    }
  }
  let t = &mut w.txs[i];
  if t.a.is_none() && t.s.is_none() {
    return;
  }
  let ev = Ev::new(0, t.id, Side::Tx, Form::Drop, t.a.is_some());
  let idx = w.log.begin(ev);
  let a = t.a.take();
  let s = t.s.take();
  let r = catch_unwind(AssertUnwindSafe(move || {
    drop(a);
    drop(s);
  }));
  let mut pn = None;
  w.log.end(idx, |e| match r {
    Ok(()) => e.out = Out::Ok,
    Err(p) => {
      let n = format!("{} @ {}", vh_core::panic_message(&*p), vh_core::last_panic_location());
      e.out = Out::Panicked;
      e.note = Some(n.clone());
      pn = Some(n);
    }
  });
  if pn.is_some() {
    w.panicked = pn;
  }
}

fn drop_rx(w: &mut World, i: usize) {
  if w.rxs[i].busy {
    let tis: Vec<usize> = w.pending().into_iter().filter(|&t| w.tasks[t].side == Side::Rx && w.tasks[t].hidx == i).collect();
    for t in tis {
      w.cancel_task(t);
    }
  }
  let t = &mut w.rxs[i];
  if t.a.is_none() && t.s.is_none() {
    return;
  }
  let ev = Ev::new(0, t.id, Side::Rx, Form::Drop, t.a.is_some());
  let idx = w.log.begin(ev);
  let a = t.a.take();
  let s = t.s.take();
  let r = catch_unwind(AssertUnwindSafe(move || {
    drop(a);
    drop(s);
  }));
  let mut pn = None;
  w.log.end(idx, |e| match r {
    Ok(()) => e.out = Out::Ok,
    Err(p) => {
      let n = format!("{} @ {}", vh_core::panic_message(&*p), vh_core::last_panic_location());
      e.out = Out::Panicked;
      e.note = Some(n.clone());
      pn = Some(n);
    }
  });
  if pn.is_some() {
    w.panicked = pn;
  }
}

fn main() {
  let args = Args::parse();
  vh_core::install_quiet_panic_hook();
  let prop = args.prop.clone();
  let tiny = cfg!(miri) || args.get("tiny").is_some();
  let mut res = ShardResult::new(&prop, "chan_stepper", args.seed, args.shard);
  res.rule = "one evaluation = one generated single-threaded program of create/poll/re-poll-with-new-waker/drop of \
    async futures interleaved with try_ operations, clones, conversions and handle drops on one channel, ending \
    with a quiescence check (spontaneous re-poll), teardown and drain; non-trivial = at least one future returned \
    Pending; distinct = distinct hash of (flavour, capacity, action sequence, outcome sequence)"
    .into();
  let mut rng = Rng::new(args.shard_seed());
  let flavours: Vec<Flavour> = match args.get("flavour") {
    Some(f) => f.split(',').map(|s| Flavour::from_name(s).expect("flavour")).collect(),
    None if prop == "C07" => vec![Flavour::Spmc],
    None => ALL_FLAVOURS.iter().copied().chain([Flavour::Spmc]).collect(),
  };
  if prop == "C09" || args.get("heap").is_some() {
    val::set_heap_payload(true);
  }
  let max_exec = args.get_u64("max-exec", u64::MAX);
  let mut exec = 0u64;
  if let Some(cs) = args.get("case") {
    // --case <flavour>:<cap>:<steps>:<case_seed>  (single traced run)
    let p: Vec<&str> = cs.split(':').collect();
    let fl = Flavour::from_name(p[0]).expect("flavour");
    let mut crng = Rng::new(p[3].parse().unwrap());
    let (w, evs, _) = run_program(fl, p[1].parse().unwrap(), p[2].parse().unwrap(), &mut crng, tiny);
    eprintln!("lost wakes: {}", serde_json::to_string_pretty(&w.lost_wakes).unwrap());
    for e in &evs {
      eprintln!("{}", e.to_json());
    }
    return;
  }
  while args.time_left() && exec < max_exec {
    let fl = flavours[(exec as usize) % flavours.len()];
    exec += 1;
    let cap = *rng.pick(&[1usize, 1, 2, 3, 3, 4, 5, 6, 8]);
    let steps = if tiny { rng.range(4, 14) } else { rng.range(6, 70) } as usize;
    let case_seed = rng.next();
    let mut crng = Rng::new(case_seed);
    val::ledger_reset();
    let (w, evs, had_pending) = run_program(fl, cap, steps, &mut crng, tiny);
    res.executions += 1;
    let lost = w.lost_wakes.clone();
    let cancelled_after_wake = w.cancelled_after_wake;
    let cancelled_before_wake = w.cancelled_before_wake;
    let repolls = w.repolls_new_waker;
    let actions = w.actions.clone();
    let panicked = w.panicked.clone();
    drop(w);
    let ledger = val::ledger_report();
    let meta = Meta { flavour: fl, class: "stepper".into(), cap_requested: cap, cap_reported: None, complete: true };
    let a = if fl.broadcast() { oracle::analyse_broadcast(&evs, &meta) } else { oracle::analyse(&evs, &meta) };
    res.count(&format!("flavours/{}", fl.name()), 1);
    res.count("events", evs.len() as u64);
    for e in &evs {
      res.count(&format!("ops_by_form/{}{}", if e.is_async { "async." } else { "" }, e.form.name()), 1);
      res.count(&format!("outcomes/{}", e.out.name()), 1);
    }
    res.count("futures_cancelled_after_their_waker_was_invoked", cancelled_after_wake);
    res.count("futures_cancelled_before_any_wake", cancelled_before_wake);
    res.count("repolls_with_a_different_waker", repolls);
    res.count("values/sent_ok", a.sent_ok as u64);
    res.count("values/received", a.received as u64);
    res.count("ledger/payloads_constructed", ledger.constructed as u64);
    res.count("ledger/dropped_exactly_once", ledger.dropped_once as u64);
    if had_pending {
      res.count("programs_with_a_pending_future", 1);
      let mut h = vh_core::Fnv::default();
      h.bytes(fl.name().as_bytes());
      h.u64(cap as u64);
      for s in &actions {
        h.bytes(s.as_bytes());
      }
      h.u64(a.interleaving_sig);
      res.add_nontrivial(h.finish());
    }
    if res.samples.len() < 3 && had_pending {
      res.sample(json!({"flavour": fl.name(), "cap": cap, "case_seed": case_seed, "actions": actions.iter().take(30).collect::<Vec<_>>(),
        "history_excerpt": history_json(&evs, 14)}), 3);
    }
    let witness = |detail: Value| {
      json!({"flavour": fl.name(), "cap": cap, "steps": steps, "case_seed": case_seed, "actions": actions,
        "detail": detail, "history": history_json(&evs, 400)})
    };
    // ---- verdicts
    let mut findings: Vec<(String, String, String, Value)> = Vec::new(); // (prop, sig, summary, detail)
    for lw in &lost {
      let form = lw["form"].as_str().unwrap_or("?");
      findings.push((
        "C06".into(),
        format!("C06/{}/lost-wake-{}/stepper", fl.name(), form),
        format!("a pending {} completed on a spontaneous re-poll at quiescence: it had become able to complete but the waker of its last poll was never invoked", form),
        lw.clone(),
      ));
    }
    for f in &a.findings {
      let mut p = f.prop.to_string();
      // message loss / duplication caused by dropping futures is the cancel-safety clause of C06
      if (p == "C01" || p == "C07") && prop == "C06" && (f.rule.starts_with("lost-value") || f.rule.starts_with("duplicate") || f.rule.starts_with("panic-in")) {
        p = "C06".into();
      }
      findings.push((p.clone(), format!("{}/{}/{}/stepper", p, fl.name(), f.rule), f.summary.clone(), f.detail.clone()));
    }
    if panicked.is_none() {
      if !ledger.multi.is_empty() {
        findings.push(("C09".into(), format!("C09/{}/double-drop/stepper", fl.name()),
          format!("{} payload(s) dropped more than once", ledger.multi.len()), json!({"n": ledger.multi.len()})));
      }
      if !ledger.leaked.is_empty() {
        findings.push(("C09".into(), format!("C09/{}/leak/stepper", fl.name()),
          format!("{} payload(s) never dropped after all futures and handles were gone", ledger.leaked.len()),
          json!({"values": ledger.leaked.iter().take(8).map(|id| format!("{}:{}", id >> 32, id & 0xffff_ffff)).collect::<Vec<_>>()})));
      }
    }
    for (p, sig, summary, detail) in findings {
      if p == prop {
        res.violation(&sig, &summary, &args.replay_dir, &witness(detail));
      } else {
        res.count(&format!("other_property_observations/{}", sig.replace('/', "|")), 1);
      }
    }
  }
  res.write(&args.out, args.elapsed_s());
}
