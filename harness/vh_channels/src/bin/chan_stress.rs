//! chan_stress — threaded, chaos-perturbed workloads over every point-to-point channel
//! flavour with history checkers for C01–C06 and the drop ledger for C09.

use serde_json::json;
use std::collections::BTreeMap;
use vh_channels::adapt::{Flavour, ALL_FLAVOURS};
use vh_channels::engine::*;
use vh_channels::hist::history_json;
use vh_core::cli::Args;
use vh_core::result::ShardResult;
use vh_core::rng::Rng;
use vh_core::stuck::Canary;

fn focus_for(prop: &str, args: &Args) -> Focus {
  let all: Vec<Flavour> = ALL_FLAVOURS.to_vec();
  let no_oneshot: Vec<Flavour> = all.iter().copied().filter(|f| !f.oneshot()).collect();
  let mut f = match prop {
    "C01" => Focus {
      flavours: all.clone(),
      classes: vec![
        (Class::Blocking, 2), (Class::Try, 2), (Class::Timed, 3), (Class::Batch, 3),
        (Class::Async, 2), (Class::AsyncCancel, 3), (Class::Mixed, 3), (Class::Lifecycle, 1),
      ],
      p_early_exit: (1, 10),
      p_gremlin: (1, 6),
      small_caps: false,
      big: false,
    },
    "C02" => Focus {
      flavours: no_oneshot.clone(),
      classes: vec![(Class::Blocking, 3), (Class::Batch, 3), (Class::Async, 2), (Class::AsyncCancel, 2), (Class::Mixed, 2), (Class::Try, 1), (Class::Timed, 1)],
      p_early_exit: (0, 1),
      p_gremlin: (1, 10),
      small_caps: false,
      big: true,
    },
    "C03" => Focus {
      flavours: all.iter().copied().filter(|f| !f.unbounded()).collect(),
      classes: vec![
        (Class::Blocking, 3), (Class::Try, 3), (Class::Batch, 3), (Class::Mixed, 3), (Class::Timed, 2),
        (Class::Async, 2), (Class::AsyncCancel, 2),
      ],
      p_early_exit: (1, 10),
      p_gremlin: (1, 10),
      small_caps: true,
      big: false,
    },
    "C04" => Focus {
      flavours: all.clone(),
      classes: vec![
        (Class::Lifecycle, 6), (Class::Mixed, 2), (Class::Blocking, 1), (Class::Try, 1), (Class::Timed, 1),
        (Class::Batch, 1), (Class::Async, 1), (Class::AsyncCancel, 1),
      ],
      p_early_exit: (1, 3),
      p_gremlin: (1, 10),
      small_caps: false,
      big: false,
    },
    "C05" => Focus {
      flavours: no_oneshot.clone(),
      classes: vec![(Class::Blocking, 5), (Class::Batch, 3), (Class::Timed, 3), (Class::Lifecycle, 1), (Class::Mixed, 3)],
      p_early_exit: (1, 3),
      p_gremlin: (1, 2),
      small_caps: true,
      big: false,
    },
    "C06" => Focus {
      flavours: all.clone(),
      classes: vec![(Class::Async, 3), (Class::AsyncCancel, 5), (Class::Mixed, 3)],
      p_early_exit: (1, 6),
      p_gremlin: (1, 6),
      small_caps: true,
      big: false,
    },
    "C09" => Focus {
      flavours: all.clone(),
      classes: vec![
        (Class::Blocking, 1), (Class::Try, 1), (Class::Timed, 2), (Class::Batch, 2), (Class::Async, 1),
        (Class::AsyncCancel, 3), (Class::Mixed, 2), (Class::Lifecycle, 3),
      ],
      p_early_exit: (1, 3),
      p_gremlin: (1, 10),
      small_caps: false,
      big: false,
    },
    other => panic!("chan_stress does not serve property {}", other),
  };
  if let Some(fl) = args.get("flavour") {
    f.flavours = fl.split(',').map(|s| Flavour::from_name(s).expect("flavour")).collect();
  }
  if let Some(cl) = args.get("class") {
    f.classes = cl.split(',').map(|s| (Class::from_name(s).expect("class"), 1)).collect();
  }
  f
}

/// A burst of tiny oneshot races. The receiver thread spins on `try_recv` (or re-polls one `recv` future with a
/// no-op waker: legal spontaneous polls) while the sender thread sends - `send` consumes the handle, so the last
/// sender is gone the moment the value is in. The scripted scenarios hardly ever make a receive overlap exactly that
/// instant. Rules, judged after both threads are done: a receiver that observed Disconnected must not obtain the
/// value afterwards (C04), and a value whose send reported Ok is obtained by a receiver that keeps receiving until
/// it observes Disconnected (C01).
fn oneshot_race_burst(prop: &str, rng: &mut Rng, res: &mut ShardResult, args: &Args, burst: u64) {
  use std::future::Future;
  use std::sync::atomic::{AtomicBool, Ordering};
  use std::task::{Context, Poll};
  let n = if cfg!(miri) { 3 } else { 150 };
  for i in 0..n {
    let (tx, rx) = fibre::oneshot::oneshot::<u64>();
    let poll_mode = rng.chance(1, 2);
    let delay = rng.below(400);
    let seed = rng.next();
    let exec = burst * 1000 + i;
    let id = 0x0511_0000_0000 + exec;
    let go = AtomicBool::new(false);
    vh_core::chaos::set_profile(&vh_core::chaos::Profile::pick_tiny(rng));
    let (first, sent, gave_up) = std::thread::scope(|sc| {
      let h = sc.spawn(|| {
        let _g = vh_core::chaos::enter(seed, exec, 1);
        while !go.load(Ordering::Acquire) {
          std::hint::spin_loop();
        }
        for _ in 0..delay {
          std::hint::spin_loop();
        }
        tx.send(id).is_ok()
      });
      let _g = vh_core::chaos::enter(seed, exec, 0);
      go.store(true, Ordering::Release);
      struct Nop;
      impl std::task::Wake for Nop {
        fn wake(self: std::sync::Arc<Self>) {}
      }
      let waker = std::task::Waker::from(std::sync::Arc::new(Nop));
      let mut cx = Context::from_waker(&waker);
      let mut fut = Box::pin(rx.recv());
      let mut spins = 0u64;
      let mut gave_up = false;
      let first: Option<u64> = loop {
        let step: Option<Result<u64, ()>> = if poll_mode {
          match fut.as_mut().poll(&mut cx) {
            Poll::Ready(Ok(v)) => Some(Ok(v)),
            Poll::Ready(Err(_)) => Some(Err(())),
            Poll::Pending => None,
          }
        } else {
          match rx.try_recv() {
            Ok(v) => Some(Ok(v)),
            Err(fibre::error::TryRecvError::Disconnected) => Some(Err(())),
            Err(_) => None,
          }
        };
        match step {
          Some(Ok(v)) => break Some(v),
          Some(Err(())) => break None,
          None => {
            spins += 1;
            if spins > 50_000_000 {
              gave_up = true;
              break None;
            }
            if spins % 256 == 0 {
              std::thread::yield_now();
            }
          }
        }
      };
      drop(fut);
      (first, h.join().unwrap_or(false), gave_up)
    });
    res.executions += 1;
    res.count("oneshot_race/races", 1);
    res.count(if poll_mode { "oneshot_race/receiver_repolls_recv_future" } else { "oneshot_race/receiver_spins_try_recv" }, 1);
    if gave_up {
      res.inconclusive("oneshot race: receiver saw neither the value nor Disconnected in 50M attempts");
      continue;
    }
    match first {
      Some(v) if v == id => res.count("oneshot_race/value_received", 1),
      Some(v) => {
        let w = json!({"engine": "oneshot race burst", "sent": id, "received": v});
        res.violation(&format!("{}/oneshot/phantom-value/race", prop), "oneshot receiver obtained a value that was not sent", &args.replay_dir, &w);
      }
      None if !sent => res.count("oneshot_race/disconnected_without_value", 1),
      None => {
        // send reported Ok, the receiver observed Disconnected first
        let late = rx.try_recv().ok();
        let w = json!({"engine": "oneshot race burst", "receiver_mode": if poll_mode { "one recv future re-polled with a no-op waker" } else { "try_recv loop" },
          "sender": "send(value) returned Ok on another thread (send consumes the handle: last sender gone right after)",
          "receiver_observed": "Disconnected", "try_recv_after_both_threads_finished": format!("{:?}", late), "sender_delay_spins": delay});
        match (prop, late) {
          ("C04", Some(_)) => res.violation("C04/oneshot/value-after-disconnected/race", "a oneshot receiver observed Disconnected and obtained the value afterwards", &args.replay_dir, &w),
          ("C01", _) => res.violation("C01/oneshot/lost-value/race", "a value whose send reported Ok was not delivered to the receiver that kept receiving until it observed Disconnected", &args.replay_dir, &w),
          _ => res.count("other_property_observations/oneshot_disconnected_before_value", 1),
        }
      }
    }
  }
}

fn main() {
  let args = Args::parse();
  vh_core::install_quiet_panic_hook();
  vh_core::chaos::install();
  let prop = args.prop.clone();
  let focus = focus_for(&prop, &args);
  // odd shards of the race-sensitive properties run tiny scenarios (a few operations per thread,
  // change points concentrated on the first steps): thousands of short races instead of long scripts
  let race_props = ["C01", "C04", "C05", "C06", "C09"];
  let tiny = match args.get("tiny") {
    Some("0") => false,
    Some(_) => true,
    None => cfg!(miri) || (race_props.contains(&prop.as_str()) && args.shard % 2 == 1),
  };
  let mut res = ShardResult::new(&prop, "chan_stress", args.seed, args.shard);
  res.rule = "one evaluation = one generated closed scenario (flavour x class x capacity x thread counts x op script) \
    executed on real threads under schedule chaos; non-trivial = operations of at least two threads overlapped in real \
    time (C05: at least one thread actually parked); distinct = distinct (scenario shape, stamp-ordered call/return \
    interleaving of all operations) hash"
    .into();
  let canary = Canary::start();
  let cfg = StuckCfg::default();
  let mut rng = Rng::new(args.shard_seed());
  let ledger_on = prop == "C09" || args.get("ledger").is_some();
  if prop == "C09" || args.get("heap").is_some() {
    vh_channels::val::set_heap_payload(true);
  }
  let max_exec = args.get_u64("max-exec", u64::MAX);
  let mut exec: u64 = 0;
  let mut inc_dumps = 0u32;
  let mut by_flavour: BTreeMap<String, u64> = BTreeMap::new();
  let mut sigs_seen: std::collections::HashSet<String> = Default::default();
  let oneshot_races = matches!(prop.as_str(), "C01" | "C04") && focus.flavours.iter().any(|f| f.oneshot());
  let mut bursts = 0u64;
  while args.time_left() && exec < max_exec {
    if oneshot_races && exec % 64 == 7 {
      bursts += 1;
      oneshot_race_burst(&prop, &mut rng, &mut res, &args, bursts + args.shard * 1_000_003);
    }
    let scn = gen_scenario(&mut rng, exec + args.shard * 1_000_003, &focus, tiny);
    exec += 1;
    let o = execute(scn, &cfg, &canary, ledger_on);
    res.executions += 1;
    *by_flavour.entry(o.scn.flavour.name().to_string()).or_default() += 1;
    let a = analyse(&o);
    let (extra, inconclusive) = extra_findings(&o, &cfg);
    // ---- evidence accounting
    res.count(&format!("flavours/{}", o.scn.flavour.name()), 1);
    res.count(&format!("classes/{}", o.scn.class.name()), 1);
    res.count("events", o.evs.len() as u64);
    for e in &o.evs {
      res.count(&format!("ops_by_form/{}{}", if e.is_async { "async." } else { "" }, e.form.name()), 1);
      res.count(&format!("outcomes/{}", e.out.name()), 1);
    }
    res.count_obj("chaos", &o.chaos.to_json());
    res.count("values/sent_ok", a.sent_ok as u64);
    res.count("values/received", a.received as u64);
    res.count("values/status_unknown_cancelled_or_open", a.maybe as u64);
    if a.premise_r3 {
      res.count("executions_drained_to_disconnected", 1);
    }
    if a.overlapping {
      res.count("executions_with_overlapping_ops", 1);
    }
    let parked = o.chaos.parks() > 0;
    if parked {
      res.count("executions_that_parked", 1);
    }
    if o.scn.early_exit {
      res.count("executions_receivers_left_early", 1);
    }
    if let Some(l) = &o.ledger {
      res.count("ledger/payloads_constructed", l.constructed as u64);
      res.count("ledger/dropped_exactly_once", l.dropped_once as u64);
    }
    let nontrivial = if prop == "C05" { parked && a.overlapping } else { a.overlapping };
    if nontrivial {
      let mut h = vh_core::Fnv::default();
      h.u64(o.scn.shape_sig());
      h.u64(a.interleaving_sig);
      res.add_nontrivial(h.finish());
    }
    if res.samples.len() < 3 && a.overlapping {
      res.sample(json!({"scenario": o.scn.describe(), "events": o.evs.len(),
        "history_excerpt": history_json(&o.evs, 14)}), 3);
    }
    if let (Some(st), false) = (&o.stuck, inconclusive.is_empty()) {
      // keep what was seen for triage (not a verdict)
      if inc_dumps < 3 {
        inc_dumps += 1;
        let path = format!("{}/INCONCLUSIVE-{}-{}-{}-sh{}-{}.json", args.replay_dir, prop, o.scn.flavour.name(), o.scn.class.name(), args.shard, o.scn.exec);
        let _ = std::fs::write(&path, serde_json::to_string(&json!({"scenario": o.scn.describe(), "reason": st.reason, "blocked": st.blocked,
          "model_enabled": st.model_enabled, "nudge_released": st.nudge_released, "workers_asleep": st.parked, "worker_states": st.parked_detail,
          "canary_max_gap_us": st.canary_max_gap_us, "complete": o.complete, "history": history_json(&o.evs, 300)})).unwrap_or_default());
      }
    }
    for why in inconclusive {
      if why.starts_with("HARNESS-PANIC") {
        res.notes.push(why.clone());
        res.count("harness_panics", 1);
      }
      res.inconclusive(&why);
    }
    // ---- verdicts
    for f in a.findings.iter().chain(extra.iter()) {
      let sig = f.signature(&o.meta);
      if f.prop == prop {
        let witness = json!({"scenario": o.scn.describe(), "rule": f.rule, "detail": f.detail,
          "complete": o.complete, "history": history_json(&o.evs, 600)});
        if sigs_seen.insert(sig.clone()) || res.violations.len() < 40 {
          res.violation(&sig, &f.summary, &args.replay_dir, &witness);
        } else {
          res.count("violations_beyond_cap", 1);
        }
      } else {
        res.count(&format!("other_property_observations/{}", sig.replace('/', "|")), 1);
      }
    }
    if o.leaked_threads {
      res.notes.push(format!("execution {} left blocked threads behind; shard stops early", o.scn.exec));
      break;
    }
  }
  for (k, v) in by_flavour {
    res.count(&format!("executions_by_flavour/{}", k), v);
  }
  res.write(&args.out, args.elapsed_s());
}
