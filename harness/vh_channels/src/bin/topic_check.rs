//! topic_check — topic pub/sub (C08; also the topic clauses of C04).
//!
//! Sequential differential: generated single-threaded programs over several sender handles
//! (clone / close / drop / to_async) and receiver handles (subscribe / unsubscribe / clone /
//! close / drop / to_async / try_recv / recv poll) against a model of per-receiver mailboxes
//! (capacity, drop-newest); every result must equal the model's.
//! Concurrent: publishing threads race subscription changes; interval rules only (a message
//! whose publish lies entirely inside a subscribed interval must arrive exactly once, one
//! entirely outside must not; per-sender order; no duplicates); mailboxes large enough that
//! overflow cannot happen, or static subscriptions with tiny mailboxes (subset rule); all
//! receivers drain until Disconnected after the senders left (stuck oracle).

use fibre::error::*;
use fibre::spmc::topic::{channel, channel_async, AsyncTopicReceiver, AsyncTopicSender, TopicReceiver, TopicSender};
use serde_json::{json, Value};
use std::collections::{BTreeSet, HashMap, VecDeque};
use std::panic::{catch_unwind, AssertUnwindSafe};
use std::sync::atomic::{AtomicBool, Ordering};
use std::sync::{Arc, Barrier, Mutex};
use std::task::Poll;
use std::time::Duration;
use vh_channels::engine::{watch, StuckCfg, WatchIn};
use vh_channels::hist::*;
use vh_core::chaos;
use vh_core::cli::Args;
use vh_core::result::ShardResult;
use vh_core::rng::Rng;
use vh_core::stepper::{poll_once, Flag};
use vh_core::stuck::{self, Canary};

type K = u8;
type T = u64;

enum Tx {
  S(TopicSender<K, T>),
  A(AsyncTopicSender<K, T>),
}
enum Rx {
  S(TopicReceiver<K, T>),
  /// boxed so that a pending `recv()` future (kept in `MRx::pending`) can borrow it across steps
  A(Box<AsyncTopicReceiver<K, T>>),
}

/// A `recv()` future that returned Pending and is kept across steps, with its counting waker.
struct PendingRecv {
  fut: std::pin::Pin<Box<dyn std::future::Future<Output = Result<(K, T), RecvError>>>>,
  flag: Arc<Flag>,
  seen: u64,
  polls: u32,
}

struct MTx {
  h: Option<Tx>,
  closed: bool,
}
struct MRx {
  /// declared before `h`: a pending future borrows the boxed receiver and must go first
  pending: Option<PendingRecv>,
  h: Option<Rx>,
  /// cloned after every sender handle was gone: open or closed is unspecified until closed
  unspecified: bool,
  closed: bool,
  subs: BTreeSet<K>,
  mailbox: VecDeque<(K, T)>,
  saw_disconnected: bool,
}

struct Finding {
  rule: String,
  summary: String,
}

/// One sequential program. Returns (findings, trace, nontrivial).
fn run_seq(cap: usize, steps: usize, rng: &mut Rng) -> (Vec<Finding>, Vec<String>, bool) {
  let mut f: Vec<Finding> = vec![];
  let mut trace: Vec<String> = vec![];
  let (tx, rx) = if rng.chance(1, 2) {
    let (t, r) = channel::<K, T>(cap);
    (Tx::S(t), Rx::S(r))
  } else {
    let (t, r) = channel_async::<K, T>(cap);
    (Tx::A(t), Rx::A(Box::new(r)))
  };
  let mut txs = vec![MTx { h: Some(tx), closed: false }];
  let mut rxs = vec![MRx { pending: None, h: Some(rx), unspecified: false, closed: false, subs: BTreeSet::new(), mailbox: VecDeque::new(), saw_disconnected: false }];
  let mut next_val: u64 = 1;
  let mut omitted = 0u64;
  let mut delivered = 0u64;
  macro_rules! fail {
    ($rule:expr, $($arg:tt)*) => {{
      f.push(Finding { rule: $rule.to_string(), summary: format!($($arg)*) });
    }};
  }
  let live_senders = |txs: &Vec<MTx>| txs.iter().filter(|t| t.h.is_some() && !t.closed).count();
  let live_receivers = |rxs: &Vec<MRx>| rxs.iter().filter(|r| r.h.is_some() && !r.closed).count();
  let mut pending_seen = false;
  // judges one receive outcome of receiver `$i` against the model
  macro_rules! judge {
    ($i:expr, $got:expr) => {{
      let i = $i;
      let got: Result<(K, T), TryRecvError> = $got;
      let all_gone = live_senders(&txs) == 0;
      let rx = &mut rxs[i];
      if rx.closed && rx.unspecified {
        match &got {
          Ok(_) => fail!("phantom-or-duplicate-message", "rx{} (cloned after all senders were gone) obtained {:?}", i, got),
          Err(TryRecvError::Empty) => fail!("no-disconnected-after-senders-gone", "rx{} was cloned after every sender handle was closed/dropped but reports Empty instead of Disconnected", i),
          Err(TryRecvError::Disconnected) => {}
        }
      } else if rx.closed {
        // a closed handle rejects: any error is accepted, a value is not
        if got.is_ok() {
          fail!("closed-receiver-still-receives", "receiver rx{} returned a message after its own close() had returned Ok", i);
        }
      } else {
        let expect = if got.is_ok() || rx.pending.is_none() { rx.mailbox.pop_front() } else { rx.mailbox.front().copied() };
        match (expect, got) {
          (Some(e), Ok(g)) => {
            if e != g {
              let in_subs = rx.subs.contains(&g.0);
              fail!(
                if !in_subs { "message-of-unsubscribed-topic" } else { "wrong-or-reordered-message" },
                "rx{} expected {:?} but obtained {:?}",
                i, e, g
              );
            }
            if rx.saw_disconnected {
              fail!("value-after-disconnected", "rx{} obtained {:?} after it had observed Disconnected", i, g);
            }
          }
          (Some(e), Err(err)) => fail!(
            if matches!(err, TryRecvError::Disconnected) { "disconnected-before-drained" } else { "message-lost" },
            "rx{} should obtain {:?} (published while subscribed, mailbox had room) but got {:?}",
            i, e, err
          ),
          (None, Ok(g)) => {
            let in_subs = rx.subs.contains(&g.0);
            fail!(if !in_subs { "message-of-unsubscribed-topic" } else { "phantom-or-duplicate-message" }, "rx{} obtained {:?} with an empty model mailbox", i, g);
          }
          (None, Err(err)) => match (err, all_gone) {
            (TryRecvError::Disconnected, false) => fail!("premature-disconnected", "rx{} observed Disconnected while a sender handle is still open", i),
            (TryRecvError::Empty, true) => fail!("no-disconnected-after-senders-gone", "rx{} (subscriptions {:?}) got Empty although every sender handle is closed/dropped and its mailbox is drained", i, rx.subs),
            (TryRecvError::Disconnected, true) => rx.saw_disconnected = true,
            _ => {}
          },
        }
      }
    }};
  }
  // quiescence: a kept future whose waker has not fired is polled with a fresh waker; Ready proves a lost wake
  macro_rules! quiesce {
    () => {{
      for i in 0..rxs.len() {
        let idle = match rxs[i].pending.as_ref() {
          Some(p) => p.flag.count() == p.seen,
          None => false,
        };
        if !idle || !f.is_empty() {
          continue;
        }
        let mut p = rxs[i].pending.take().unwrap();
        let fresh = Flag::new();
        p.polls += 1;
        match poll_once(p.fut.as_mut(), &fresh) {
          Poll::Ready(r) => {
            drop(p);
            let got = r.map_err(|_| TryRecvError::Disconnected);
            trace.push(format!("quiescence: spontaneous re-poll of rx{}'s pending recv -> {:?}", i, got));
            fail!("lost-wake-recv", "a pending recv() of rx{} completed with {:?} on a spontaneous re-poll: it had become able to complete but the waker of its last poll was never invoked", i, got);
            judge!(i, got);
          }
          Poll::Pending => {
            p.seen = fresh.count();
            p.flag = fresh;
            rxs[i].pending = Some(p);
          }
        }
      }
    }};
  }
  for _ in 0..steps {
    if !f.is_empty() {
      break;
    }
    if rng.chance(1, 2) {
      quiesce!();
      if !f.is_empty() {
        break;
      }
    }
    match rng.weighted(&[14, 10, 6, 4, 3, 3, 2, 2, 2, 2, 2, 6]) {
      // publish
      0 => {
        let cands: Vec<usize> = (0..txs.len()).filter(|&i| txs[i].h.is_some()).collect();
        if cands.is_empty() {
          continue;
        }
        let i = cands[rng.below(cands.len() as u64) as usize];
        let topic = rng.below(4) as K;
        let v = next_val;
        next_val += 1;
        let r = match txs[i].h.as_ref().unwrap() {
          Tx::S(h) => h.send(topic, v),
          Tx::A(h) => h.send(topic, v),
        };
        trace.push(format!("tx{}.send(topic {}, {}) -> {:?}", i, topic, v, r));
        let expect_closed = txs[i].closed || live_receivers(&rxs) == 0;
        match (&r, expect_closed) {
          (Ok(()), true) => fail!(
            if txs[i].closed { "closed-sender-still-sends" } else { "send-ok-without-receivers" },
            "send on {} reported Ok",
            if txs[i].closed { "a sender handle whose close() had returned Ok" } else { "a channel whose receivers are all closed or dropped" }
          ),
          (Err(_), false) => fail!("send-failed-with-live-receivers", "send reported {:?} although the handle is open and a receiver is alive", r),
          _ => {}
        }
        if r.is_ok() {
          for rx in rxs.iter_mut().filter(|r| r.h.is_some() && !r.closed) {
            if rx.subs.contains(&topic) {
              if rx.mailbox.len() < cap {
                rx.mailbox.push_back((topic, v));
                delivered += 1;
              } else {
                omitted += 1;
              }
            }
          }
        }
      }
      // receive (try_recv, or a poll of recv(); a Pending recv() future is sometimes kept across steps)
      1 => {
        let cands: Vec<usize> = (0..rxs.len()).filter(|&i| rxs[i].h.is_some() && rxs[i].pending.is_none()).collect();
        if cands.is_empty() {
          continue;
        }
        let i = cands[rng.below(cands.len() as u64) as usize];
        let use_poll = rng.chance(1, 3);
        let keep = rng.chance(2, 3);
        let mut kept = false;
        let got: Result<(K, T), TryRecvError> = match rxs[i].h.as_ref().unwrap() {
          Rx::S(h) => h.try_recv(),
          Rx::A(h) => {
            if use_poll {
              let flag = Flag::new();
              // SAFETY: the receiver lives in a Box owned by `rxs[i].h`; the future is stored in
              // `rxs[i].pending` (declared before `h`) and is dropped before the receiver is closed,
              // converted or dropped.
              let hp: *const AsyncTopicReceiver<K, T> = &**h;
              let hr: &'static AsyncTopicReceiver<K, T> = unsafe { &*hp };
              let mut fut: std::pin::Pin<Box<dyn std::future::Future<Output = Result<(K, T), RecvError>>>> = Box::pin(hr.recv());
              match poll_once(fut.as_mut(), &flag) {
                Poll::Ready(Ok(v)) => Ok(v),
                Poll::Ready(Err(_)) => Err(TryRecvError::Disconnected),
                Poll::Pending => {
                  if keep && !rxs[i].closed {
                    let seen = flag.count();
                    rxs[i].pending = Some(PendingRecv { fut, flag, seen, polls: 1 });
                    kept = true;
                  }
                  Err(TryRecvError::Empty)
                }
              }
            } else {
              h.try_recv()
            }
          }
        };
        trace.push(format!("rx{}.{} -> {:?}{}", i, if use_poll { "recv-poll" } else { "try_recv" }, got, if kept { " (future kept pending)" } else { "" }));
        pending_seen |= kept;
        judge!(i, got);
      }
      // drive a kept recv() future: poll it if its waker fired, re-poll it with a new waker, or drop it
      11 => {
        let cands: Vec<usize> = (0..rxs.len()).filter(|&i| rxs[i].pending.is_some()).collect();
        if cands.is_empty() {
          continue;
        }
        let i = cands[rng.below(cands.len() as u64) as usize];
        let woken = {
          let p = rxs[i].pending.as_ref().unwrap();
          p.flag.count() > p.seen
        };
        match rng.below(4) {
          0 => {
            rxs[i].pending = None;
            trace.push(format!("drop pending recv of rx{} (woken={})", i, woken));
          }
          _ if woken => {
            let mut p = rxs[i].pending.take().unwrap();
            p.seen = p.flag.count();
            p.polls += 1;
            match poll_once(p.fut.as_mut(), &p.flag) {
              Poll::Ready(r) => {
                drop(p);
                let got = r.map_err(|_| TryRecvError::Disconnected);
                trace.push(format!("rx{} woken recv re-polled -> {:?}", i, got));
                judge!(i, got);
              }
              Poll::Pending => {
                trace.push(format!("rx{} woken recv re-polled -> Pending", i));
                rxs[i].pending = Some(p);
              }
            }
          }
          _ => {}
        }
      }
      // subscribe
      2 => {
        let cands: Vec<usize> = (0..rxs.len()).filter(|&i| rxs[i].h.is_some() && !rxs[i].closed).collect();
        if cands.is_empty() {
          continue;
        }
        let i = cands[rng.below(cands.len() as u64) as usize];
        let topic = rng.below(4) as K;
        match rxs[i].h.as_ref().unwrap() {
          Rx::S(h) => h.subscribe(topic),
          Rx::A(h) => h.subscribe(topic),
        }
        rxs[i].subs.insert(topic);
        trace.push(format!("rx{}.subscribe({})", i, topic));
      }
      // unsubscribe
      3 => {
        let cands: Vec<usize> = (0..rxs.len()).filter(|&i| rxs[i].h.is_some() && !rxs[i].closed).collect();
        if cands.is_empty() {
          continue;
        }
        let i = cands[rng.below(cands.len() as u64) as usize];
        let topic = rng.below(4) as K;
        match rxs[i].h.as_ref().unwrap() {
          Rx::S(h) => h.unsubscribe(&topic),
          Rx::A(h) => h.unsubscribe(&topic),
        }
        rxs[i].subs.remove(&topic);
        trace.push(format!("rx{}.unsubscribe({})", i, topic));
      }
      // clone receiver (inherits subscriptions, empty mailbox)
      4 => {
        if rxs.len() >= 5 {
          continue;
        }
        let cands: Vec<usize> = (0..rxs.len()).filter(|&i| rxs[i].h.is_some() && !rxs[i].closed).collect();
        if cands.is_empty() {
          continue;
        }
        let i = cands[rng.below(cands.len() as u64) as usize];
        let c = match rxs[i].h.as_ref().unwrap() {
          Rx::S(h) => Rx::S(h.clone()),
          Rx::A(h) => Rx::A(Box::new((**h).clone())),
        };
        let subs = rxs[i].subs.clone();
        trace.push(format!("rx{} = rx{}.clone()", rxs.len(), i));
        // What a clone made after every sender handle is gone is, the statement does not say
        // (the library hands out an already-closed handle): nothing is asserted about it.
        let dead = live_senders(&txs) == 0;
        rxs.push(MRx { pending: None, h: Some(c), unspecified: dead, closed: dead, subs, mailbox: VecDeque::new(), saw_disconnected: false });
      }
      // clone sender (sync handles only)
      5 => {
        if txs.len() >= 4 {
          continue;
        }
        let cands: Vec<usize> = (0..txs.len()).filter(|&i| matches!(txs[i].h, Some(Tx::S(_))) && !txs[i].closed).collect();
        if cands.is_empty() {
          continue;
        }
        let i = cands[rng.below(cands.len() as u64) as usize];
        let c = match txs[i].h.as_ref().unwrap() {
          Tx::S(h) => Tx::S(h.clone()),
          _ => unreachable!(),
        };
        trace.push(format!("tx{} = tx{}.clone()", txs.len(), i));
        txs.push(MTx { h: Some(c), closed: false });
      }
      // close sender
      6 => {
        let cands: Vec<usize> = (0..txs.len()).filter(|&i| txs[i].h.is_some()).collect();
        if cands.is_empty() {
          continue;
        }
        let i = cands[rng.below(cands.len() as u64) as usize];
        let r = match txs[i].h.as_ref().unwrap() {
          Tx::S(h) => h.close(),
          Tx::A(h) => h.close(),
        };
        trace.push(format!("tx{}.close() -> {:?}", i, r));
        if r.is_ok() == txs[i].closed {
          fail!("close-idempotence", "tx{}.close() reported {:?} on a handle that was {}", i, r, if txs[i].closed { "already closed" } else { "open" });
        }
        txs[i].closed = true;
      }
      // drop sender
      7 => {
        let cands: Vec<usize> = (0..txs.len()).filter(|&i| txs[i].h.is_some()).collect();
        if cands.is_empty() {
          continue;
        }
        let i = cands[rng.below(cands.len() as u64) as usize];
        txs[i].h = None;
        txs[i].closed = true;
        trace.push(format!("drop(tx{})", i));
      }
      // close receiver
      8 => {
        let cands: Vec<usize> = (0..rxs.len()).filter(|&i| rxs[i].h.is_some()).collect();
        if cands.is_empty() {
          continue;
        }
        let i = cands[rng.below(cands.len() as u64) as usize];
        if rxs[i].pending.take().is_some() {
          trace.push(format!("drop pending recv of rx{} (before close)", i));
        }
        let r = match rxs[i].h.as_ref().unwrap() {
          Rx::S(h) => h.close(),
          Rx::A(h) => h.close(),
        };
        trace.push(format!("rx{}.close() -> {:?}", i, r));
        if r.is_ok() == rxs[i].closed && !rxs[i].unspecified {
          fail!("close-idempotence", "rx{}.close() reported {:?} on a handle that was {}", i, r, if rxs[i].closed { "already closed" } else { "open" });
        }
        rxs[i].unspecified = false;
        rxs[i].closed = true;
      }
      // drop receiver
      9 => {
        let cands: Vec<usize> = (0..rxs.len()).filter(|&i| rxs[i].h.is_some()).collect();
        if cands.len() <= 1 {
          continue;
        }
        let i = cands[rng.below(cands.len() as u64) as usize];
        rxs[i].pending = None;
        rxs[i].h = None;
        rxs[i].closed = true;
        trace.push(format!("drop(rx{})", i));
      }
      // convert a handle between sync and async
      _ => {
        if rng.chance(1, 2) {
          let cands: Vec<usize> = (0..txs.len()).filter(|&i| txs[i].h.is_some()).collect();
          if cands.is_empty() {
            continue;
          }
          let i = cands[rng.below(cands.len() as u64) as usize];
          let h = txs[i].h.take().unwrap();
          txs[i].h = Some(match h {
            Tx::S(h) => Tx::A(h.to_async()),
            Tx::A(h) => Tx::S(h.to_sync()),
          });
          trace.push(format!("tx{} converted", i));
        } else {
          let cands: Vec<usize> = (0..rxs.len()).filter(|&i| rxs[i].h.is_some()).collect();
          if cands.is_empty() {
            continue;
          }
          let i = cands[rng.below(cands.len() as u64) as usize];
          if rxs[i].pending.take().is_some() {
            trace.push(format!("drop pending recv of rx{} (before conversion)", i));
          }
          let h = rxs[i].h.take().unwrap();
          rxs[i].h = Some(match h {
            Rx::S(h) => Rx::A(Box::new(h.to_async())),
            Rx::A(h) => Rx::S((*h).to_sync()),
          });
          trace.push(format!("rx{} converted", i));
        }
      }
    }
  }
  if f.is_empty() {
    quiesce!();
  }
  // final: drop all senders; every open receiver drains its mailbox and then must see Disconnected
  if f.is_empty() {
    for t in txs.iter_mut() {
      t.h = None;
      t.closed = true;
    }
    trace.push("drop all senders".into());
    // pending futures must now be woken (Disconnected or a buffered message)
    quiesce!();
    for r in rxs.iter_mut() {
      r.pending = None;
    }
    for i in 0..rxs.len() {
      if !f.is_empty() {
        break;
      }
      if rxs[i].h.is_none() || rxs[i].closed {
        continue;
      }
      loop {
        let got = match rxs[i].h.as_ref().unwrap() {
          Rx::S(h) => h.try_recv(),
          Rx::A(h) => h.try_recv(),
        };
        let expect = rxs[i].mailbox.pop_front();
        match (expect, got) {
          (Some(e), Ok(g)) if e == g => continue,
          (None, Err(TryRecvError::Disconnected)) => break,
          (e, g) => {
            trace.push(format!("final drain rx{}: expected {:?}, got {:?}", i, e, g));
            let rule = match (&e, &g) {
              (None, Err(TryRecvError::Empty)) => "no-disconnected-after-senders-gone",
              (Some(_), Err(TryRecvError::Disconnected)) => "disconnected-before-drained",
              (Some(_), Err(_)) => "message-lost",
              _ => "wrong-or-reordered-message",
            };
            f.push(Finding { rule: rule.into(), summary: format!("final drain of rx{} (subscriptions {:?}): expected {:?}, got {:?}", i, rxs[i].subs, e, g) });
            break;
          }
        }
      }
      if !f.is_empty() {
        break;
      }
    }
  }
  let nontrivial = delivered > 0 && (omitted > 0 || rxs.len() > 1 || txs.len() > 1 || pending_seen);
  (f, trace, nontrivial)
}

// ------------------------------------------------------------------------------------------
// Concurrent variant
// ------------------------------------------------------------------------------------------

struct Conc {
  logs: Vec<Arc<Log>>,
  done: Vec<AtomicBool>,
  /// findings of the late-clone check made inside receiver threads
  late: Mutex<Vec<Finding>>,
  late_clones: std::sync::atomic::AtomicU64,
}

#[derive(Clone, Debug)]
struct SubEv {
  topic: K,
  on: bool,
  call: u64,
  ret: u64,
}

fn run_conc(scn_seed: u64, exec: u64, rng: &mut Rng, cfg: &StuckCfg, canary: &Canary) -> (Vec<Finding>, Vec<String>, Value, bool, u64) {
  vh_core::reset_stamp();
  let profile = chaos::Profile::pick(rng);
  chaos::set_profile(&profile);
  let _ = chaos::take_totals();
  let n_tx = rng.range(1, 3) as usize;
  let n_rx = rng.range(1, 4) as usize;
  let msgs = *rng.pick(&[20usize, 80, 300]);
  let dynamic = rng.chance(1, 2);
  // dynamic subscriptions need mailboxes that cannot overflow; static ones use tiny mailboxes
  let cap = if dynamic { n_tx * msgs + 8 } else { *rng.pick(&[1usize, 2, 4, 1000]) };
  let (tx0, rx0) = channel::<K, T>(cap);
  let mut txs = vec![tx0];
  for _ in 1..n_tx {
    txs.push(txs[0].clone());
  }
  let mut rxs = vec![rx0];
  for _ in 1..n_rx {
    rxs.push(rxs[0].clone());
  }
  // idle extra receivers make the last sender's disconnect sweep long, and a cloner thread keeps cloning a
  // receiver until every sender is gone: its last clones straddle that sweep and must still end up disconnected
  let ballast: Vec<TopicReceiver<K, T>> = (0..*rng.pick(&[0usize, 0, 40, 200])).map(|_| rxs[0].clone()).collect();
  let cloner_src = if rng.chance(2, 3) { Some(rxs[0].clone()) } else { None };
  let nthreads = n_tx + n_rx;
  let sh = Arc::new(Conc { logs: (0..nthreads).map(|_| Arc::new(Log::default())).collect(), done: (0..nthreads).map(|_| AtomicBool::new(false)).collect(),
    late: Mutex::new(vec![]), late_clones: std::sync::atomic::AtomicU64::new(0) });
  let start = Arc::new(Barrier::new(nthreads + 1));
  let subs_log: Arc<Mutex<Vec<Vec<SubEv>>>> = Arc::new(Mutex::new(vec![vec![]; n_rx]));
  let mut joins = vec![];
  let mut threads = vec![];
  // static subscriptions are installed before anything is sent
  let mut static_subs: Vec<BTreeSet<K>> = vec![];
  for r in rxs.iter() {
    let mut s = BTreeSet::new();
    if !dynamic {
      for t in 0..4u8 {
        if rng.chance(1, 2) {
          r.subscribe(t);
          s.insert(t);
        }
      }
    }
    static_subs.push(s);
  }
  for (ti, tx) in txs.into_iter().enumerate() {
    let (s2, st) = (sh.clone(), start.clone());
    let seed = scn_seed;
    let j = std::thread::spawn(move || {
      let mut rng = Rng::derive(seed, 10 + ti as u64, exec);
      st.wait();
      let _g = chaos::enter(seed, exec, ti as u64);
      let log = s2.logs[ti].clone();
      let mut tx = Some(Tx::S(tx));
      for m in 0..msgs {
        let topic = rng.below(4) as K;
        let v = ((ti as u64 + 1) << 32) | m as u64;
        let mut e = Ev::new(ti as u16, ti as u32 + 1, Side::Tx, Form::Send, false);
        e.vals = vec![v];
        e.aux = topic as u64;
        let idx = log.begin(e);
        let r = catch_unwind(AssertUnwindSafe(|| match tx.as_ref().unwrap() {
          Tx::S(h) => h.send(topic, v),
          Tx::A(h) => h.send(topic, v),
        }));
        log.end(idx, |e| {
          e.out = match r {
            Ok(Ok(())) => Out::Ok,
            Ok(Err(_)) => Out::Closed,
            Err(_) => Out::Panicked,
          };
          e.n_ok = (e.out == Out::Ok) as u32;
        });
        stuck::progress();
        if rng.chance(1, 40) {
          let h = tx.take().unwrap();
          tx = Some(match h {
            Tx::S(h) => Tx::A(h.to_async()),
            Tx::A(h) => Tx::S(h.to_sync()),
          });
        }
      }
      let e = Ev::new(ti as u16, ti as u32 + 1, Side::Tx, Form::Drop, false);
      let idx = log.begin(e);
      drop(tx);
      log.end(idx, |e| e.out = Out::Ok);
      stuck::progress();
      chaos::leave();
      s2.done[ti].store(true, Ordering::SeqCst);
    });
    threads.push(j.thread().clone());
    joins.push(j);
  }
  for (ri, rx) in rxs.into_iter().enumerate() {
    let tid = n_tx + ri;
    let (s2, st, sl) = (sh.clone(), start.clone(), subs_log.clone());
    let seed = scn_seed;
    let j = std::thread::spawn(move || {
      let mut rng = Rng::derive(seed, 50 + ri as u64, exec);
      st.wait();
      let _g = chaos::enter(seed, exec, tid as u64);
      let log = s2.logs[tid].clone();
      let mut cur: BTreeSet<K> = BTreeSet::new();
      let mut disconnected = false;
      // at a random moment (possibly racing the last sender's drop) the receiver clones itself; the
      // clone is only looked at after every sender thread has dropped its handle
      let mut late: Option<fibre::spmc::topic::TopicReceiver<K, T>> = None;
      let clone_at = rng.below(2 * msgs as u64 + 4);
      let mut iters = 0u64;
      while !disconnected {
        iters += 1;
        if late.is_none() && iters >= clone_at {
          late = Some(rx.clone());
        }
        if dynamic && rng.chance(1, 6) {
          let topic = rng.below(4) as K;
          let on = !cur.contains(&topic);
          let call = vh_core::stamp();
          if on {
            rx.subscribe(topic);
            cur.insert(topic);
          } else {
            rx.unsubscribe(&topic);
            cur.remove(&topic);
          }
          let ret = vh_core::stamp();
          sl.lock().unwrap()[ri].push(SubEv { topic, on, call, ret });
          stuck::progress();
          continue;
        }
        let form = *rng.pick(&[Form::Recv, Form::TryRecv, Form::RecvTimeout]);
        let e = Ev::new(tid as u16, 100 + ri as u32, Side::Rx, form, false);
        let idx = log.begin(e);
        let r: Result<(K, T), Out> = match form {
          Form::Recv => rx.recv().map_err(|_| Out::Disconnected),
          Form::TryRecv => rx.try_recv().map_err(|e| if matches!(e, TryRecvError::Empty) { Out::Empty } else { Out::Disconnected }),
          _ => rx
            .recv_timeout(Duration::from_micros(rng.below(500)))
            .map_err(|e| if matches!(e, RecvErrorTimeout::Timeout) { Out::Timeout } else { Out::Disconnected }),
        };
        log.end(idx, |e| match r {
          Ok((k, v)) => {
            e.vals = vec![v];
            e.aux = k as u64;
            e.out = Out::Ok;
          }
          Err(o) => {
            e.out = o;
            if o == Out::Disconnected {
              disconnected = true;
            }
          }
        });
        stuck::progress();
        if matches!(r, Err(Out::Empty) | Err(Out::Timeout)) {
          std::thread::yield_now();
        }
      }
      if late.is_none() {
        late = Some(rx.clone());
      }
      // `rx` observed Disconnected: every sender handle is gone (or going: wait for the sender threads)
      let t0 = std::time::Instant::now();
      while !(0..n_tx).all(|t| s2.done[t].load(Ordering::SeqCst)) && t0.elapsed() < Duration::from_secs(20) {
        std::thread::sleep(Duration::from_micros(200));
      }
      if (0..n_tx).all(|t| s2.done[t].load(Ordering::SeqCst)) {
        let lc = late.take().unwrap();
        s2.late_clones.fetch_add(1, Ordering::SeqCst);
        // buffered messages first, then Disconnected; Empty is wrong now that nobody can publish any more
        let mut n = 0;
        loop {
          n += 1;
          match lc.try_recv() {
            Ok(_) if n < 1_000_000 => continue,
            Ok(_) => break,
            Err(TryRecvError::Disconnected) => break,
            Err(TryRecvError::Empty) => {
              s2.late.lock().unwrap().push(Finding {
                rule: "no-disconnected-after-senders-gone".into(),
                summary: format!("a receiver cloned from receiver {} while senders were publishing / leaving reports Empty after every sender handle was dropped and its mailbox is drained: it never observes Disconnected", ri),
              });
              break;
            }
          }
        }
      }
      chaos::leave();
      s2.done[tid].store(true, Ordering::SeqCst);
    });
    threads.push(j.thread().clone());
    joins.push(j);
  }
  let cloner = cloner_src.map(|src| {
    let s2 = sh.clone();
    std::thread::spawn(move || {
      let mut last: VecDeque<TopicReceiver<K, T>> = VecDeque::new();
      let t0 = std::time::Instant::now();
      while !(0..n_tx).all(|t| s2.done[t].load(Ordering::SeqCst)) && t0.elapsed() < Duration::from_secs(20) {
        last.push_back(src.clone());
        if last.len() > 6 {
          last.pop_front();
        }
      }
      if !(0..n_tx).all(|t| s2.done[t].load(Ordering::SeqCst)) {
        return;
      }
      last.push_back(src);
      for (k, lc) in last.iter().enumerate() {
        s2.late_clones.fetch_add(1, Ordering::SeqCst);
        let mut n = 0;
        loop {
          n += 1;
          match lc.try_recv() {
            Ok(_) if n < 1_000_000 => continue,
            Ok(_) => break,
            Err(TryRecvError::Disconnected) => break,
            Err(TryRecvError::Empty) => {
              s2.late.lock().unwrap().push(Finding {
                rule: "no-disconnected-after-senders-gone".into(),
                summary: format!("receiver clone #{} of the last {} made while the senders were leaving reports Empty after every sender handle was dropped and its mailbox is drained: it never observes Disconnected", k, last.len()),
              });
              break;
            }
          }
        }
      }
    })
  });
  start.wait();
  let (stuck_report, leaked) = {
    let (s1, s2, s3) = (sh.clone(), sh.clone(), sh.clone());
    let thr = threads.clone();
    let ntx = n_tx;
    watch(
      &WatchIn {
        done: &move || s1.done.iter().all(|d| d.load(Ordering::SeqCst)),
        unfinished: &move || (0..s2.done.len()).filter(|&t| !s2.done[t].load(Ordering::SeqCst)).collect(),
        history: &move || merge(&s3.logs),
        threads: &move || thr.clone(),
        model: &move |evs: &[Ev]| {
          let senders_gone = evs.iter().filter(|e| e.side == Side::Tx && e.form == Form::Drop && !e.is_open()).count() == ntx;
          let blocked: Vec<Value> = evs.iter().filter(|e| e.is_open()).map(|e| e.to_json()).collect();
          let any_send_blocked = evs.iter().any(|e| e.is_open() && e.form.is_send());
          // publishing never blocks; a receiver blocked after every sender left must see Disconnected
          (senders_gone || any_send_blocked, blocked, false, true)
        },
      },
      cfg,
      canary,
    )
  };
  if !leaked {
    for j in joins {
      let _ = j.join();
    }
    if let Some(c) = cloner {
      let _ = c.join();
    }
  }
  drop(ballast);
  let totals = chaos::take_totals();
  let evs = merge(&sh.logs);
  let mut f: Vec<Finding> = vec![];
  let mut trace: Vec<String> = vec![format!("concurrent: {} senders x {} msgs, {} receivers, mailbox {}, dynamic subscriptions: {}", n_tx, msgs, n_rx, cap, dynamic)];
  if let Some(s) = &stuck_report {
    if s.decisive(cfg) {
      let sends_blocked = evs.iter().any(|e| e.is_open() && e.form.is_send());
      f.push(Finding {
        rule: if sends_blocked { "publish-blocked".into() } else { "no-disconnected-after-senders-gone".into() },
        summary: format!("threads stayed blocked: {} ({})", s.reason, if sends_blocked { "a publish call did not return" } else { "a receiver blocked in recv never observed Disconnected after every sender handle was gone" }),
      });
    }
  }
  for e in evs.iter().filter(|e| e.out == Out::Panicked) {
    f.push(Finding { rule: "panic".into(), summary: format!("library panicked in {}", e.form.name()) });
  }
  if !leaked {
    f.extend(sh.late.lock().unwrap().drain(..));
  }
  // per receiver checks
  let sends: Vec<&Ev> = evs.iter().filter(|e| e.form.is_send() && e.out == Out::Ok).collect();
  let send_by_val: HashMap<u64, &Ev> = sends.iter().map(|e| (e.vals[0], *e)).collect();
  let last_sender_gone_call = evs.iter().filter(|e| e.side == Side::Tx && e.form == Form::Drop).map(|e| e.call).max();
  let subs_log = subs_log.lock().unwrap();
  let mut checked = 0u64;
  if !leaked && f.is_empty() {
    for ri in 0..n_rx {
      let tid = n_tx + ri;
      let mine: Vec<&Ev> = evs.iter().filter(|e| e.thread as usize == tid && e.form.is_recv()).collect();
      let mut seen: BTreeSet<u64> = BTreeSet::new();
      let mut last_seq: HashMap<u64, u64> = HashMap::new();
      // subscription intervals per topic
      let mut sure_in: Vec<(K, u64, u64)> = vec![]; // [sub.ret, unsub.call]
      let mut maybe_in: Vec<(K, u64, u64)> = vec![]; // [sub.call, unsub.ret]
      if dynamic {
        for topic in 0..4u8 {
          let mut open: Option<&SubEv> = None;
          for s in subs_log[ri].iter().filter(|s| s.topic == topic) {
            if s.on {
              open = Some(s);
            } else if let Some(o) = open.take() {
              sure_in.push((topic, o.ret, s.call));
              maybe_in.push((topic, o.call, s.ret));
            }
          }
          if let Some(o) = open {
            sure_in.push((topic, o.ret, u64::MAX));
            maybe_in.push((topic, o.call, u64::MAX));
          }
        }
      } else {
        for t in &static_subs[ri] {
          sure_in.push((*t, 0, u64::MAX));
          maybe_in.push((*t, 0, u64::MAX));
        }
      }
      for e in &mine {
        if e.vals.is_empty() {
          if e.out == Out::Disconnected && last_sender_gone_call.map(|t| e.ret < t).unwrap_or(true) {
            f.push(Finding { rule: "premature-disconnected".into(), summary: format!("receiver {} observed Disconnected while a sender handle was still alive", ri) });
          }
          continue;
        }
        let v = e.vals[0];
        checked += 1;
        let Some(s) = send_by_val.get(&v) else {
          f.push(Finding { rule: "phantom-or-duplicate-message".into(), summary: format!("receiver {} obtained value {:#x} that no successful publish carried", ri, v) });
          continue;
        };
        if s.aux != e.aux {
          f.push(Finding { rule: "wrong-or-reordered-message".into(), summary: format!("value {:#x} published on topic {} arrived labelled topic {}", v, s.aux, e.aux) });
        }
        if !seen.insert(v) {
          f.push(Finding { rule: "phantom-or-duplicate-message".into(), summary: format!("receiver {} obtained value {:#x} twice", ri, v) });
        }
        let topic = s.aux as K;
        if !maybe_in.iter().any(|(t, a, b)| *t == topic && s.call <= *b && s.ret >= *a) {
          f.push(Finding { rule: "message-of-unsubscribed-topic".into(), summary: format!("receiver {} obtained a message of topic {} published entirely outside its subscription to that topic", ri, topic) });
        }
        let sender = v >> 32;
        let seq = v & 0xffff_ffff;
        if let Some(prev) = last_seq.insert(sender, seq) {
          if seq <= prev {
            f.push(Finding { rule: "wrong-or-reordered-message".into(), summary: format!("receiver {} obtained message {} of sender {} after message {}", ri, seq, sender, prev) });
          }
        }
      }
      // completeness where overflow is impossible
      if cap >= n_tx * msgs {
        for s in &sends {
          let topic = s.aux as K;
          if sure_in.iter().any(|(t, a, b)| *t == topic && s.call > *a && s.ret < *b) && !seen.contains(&s.vals[0]) {
            f.push(Finding {
              rule: "message-lost".into(),
              summary: format!("receiver {} never obtained a message of topic {} published entirely inside its subscription although its mailbox could not overflow", ri, topic),
            });
            break;
          }
        }
      }
    }
  }
  let mut seenr = BTreeSet::new();
  f.retain(|x| seenr.insert(x.rule.clone()));
  trace.push(format!("messages checked at receivers: {}", checked));
  let stats = json!({"events": evs.len(), "published": sends.len(), "received_checked": checked,
    "clones_made_while_senders_active_checked_after_they_left": sh.late_clones.load(Ordering::SeqCst),
    "subscription_changes": subs_log.iter().map(|v| v.len()).sum::<usize>(), "chaos": totals.to_json()});
  let mut h = vh_core::Fnv::default();
  let mut pts: Vec<(u64, u64)> = vec![];
  for e in &evs {
    let tag = ((e.thread as u64) << 16) | ((e.form as u64) << 8) | e.out as u64;
    pts.push((e.call, tag << 1));
    if e.ret != 0 {
      pts.push((e.ret, (tag << 1) | 1));
    }
  }
  pts.sort();
  for (_, t) in pts.iter().take(4096) {
    h.u64(*t);
  }
  (f, trace, stats, leaked, h.finish())
}

fn main() {
  let args = Args::parse();
  vh_core::install_quiet_panic_hook();
  chaos::install();
  let prop = args.prop.clone();
  let mut res = ShardResult::new(&prop, "topic_check", args.seed, args.shard);
  res.rule = "sequential: one evaluation = one generated single-threaded program of publish / receive / subscribe / \
    unsubscribe / clone / close / drop / convert over up to 4 sender and 5 receiver handles, compared step by step with a \
    mailbox model; non-trivial = something was delivered and more than one handle or a full mailbox was involved; \
    concurrent: one evaluation = publishers racing receivers (and subscription changes) under schedule chaos, checked by \
    interval rules; distinct = hash of the action trace / the stamp-ordered interleaving"
    .into();
  let canary = Canary::start();
  let cfg = StuckCfg::default();
  let mut rng = Rng::new(args.shard_seed());
  let only = args.get("only").map(|s| s.to_string());
  // C04 claims only the disconnect/close clauses; C08 claims everything
  let c04_rules = ["closed-sender-still-sends", "send-ok-without-receivers", "closed-receiver-still-receives", "premature-disconnected",
    "disconnected-before-drained", "value-after-disconnected", "close-idempotence", "send-failed-with-live-receivers",
    "no-disconnected-after-senders-gone"];
  let mut exec = 0u64;
  while args.time_left() {
    exec += 1;
    let conc = match only.as_deref() {
      Some("conc") => true,
      Some("seq") => false,
      _ => exec % 2 == 0,
    };
    let mut batch: Vec<(Vec<Finding>, Vec<String>, Value, u64, &str)> = vec![];
    if conc {
      let seed = rng.next();
      let (f, trace, stats, leaked, sig) = run_conc(seed, exec + args.shard * 1_000_003, &mut rng, &cfg, &canary);
      res.executions += 1;
      res.count("concurrent/executions", 1);
      res.count_obj("concurrent/observed", &stats);
      res.add_nontrivial(sig);
      if res.samples.len() < 2 {
        res.sample(json!({"concurrent": trace, "observed": stats}), 3);
      }
      batch.push((f, trace, json!({"seed": seed}), sig, "concurrent"));
      if leaked {
        res.notes.push(format!("execution {} left blocked threads behind; shard stops early", exec));
      }
      report(&mut res, &args, &prop, &c04_rules, batch);
      if leaked {
        break;
      }
    } else {
      for _ in 0..300 {
        let cap = *rng.pick(&[1usize, 1, 2, 3, 8]);
        let steps = rng.range(6, 80) as usize;
        let case_seed = rng.next();
        let mut crng = Rng::new(case_seed);
        let (f, trace, nontrivial) = run_seq(cap, steps, &mut crng);
        res.executions += 1;
        res.count("sequential/programs", 1);
        res.count("sequential/actions", trace.len() as u64);
        let mut h = vh_core::Fnv::default();
        h.u64(cap as u64);
        for t in &trace {
          h.bytes(t.as_bytes());
        }
        if nontrivial {
          res.add_nontrivial(h.finish());
        }
        if res.samples.len() < 3 && nontrivial && trace.len() > 10 {
          res.sample(json!({"sequential_program": {"cap": cap, "case_seed": case_seed, "trace": trace.iter().take(40).collect::<Vec<_>>()}}), 3);
        }
        if !f.is_empty() {
          batch.push((f, trace, json!({"cap": cap, "steps": steps, "case_seed": case_seed}), h.finish(), "sequential"));
        }
      }
      report(&mut res, &args, &prop, &c04_rules, batch);
    }
  }
  res.write(&args.out, args.elapsed_s());
}

fn report(res: &mut ShardResult, args: &Args, prop: &str, c04_rules: &[&str], batch: Vec<(Vec<Finding>, Vec<String>, Value, u64, &str)>) {
  for (fs, trace, meta, _sig, mode) in batch {
    for f in fs {
      let is_c04 = c04_rules.contains(&f.rule.as_str());
      // a lost wake of a pending recv() is the async clause (C06); the disconnect clauses are shared with C04
      let owner = if f.rule.starts_with("lost-wake") {
        "C06"
      } else if prop == "C04" {
        if is_c04 { "C04" } else { "C08" }
      } else if prop == "C06" {
        "C08"
      } else {
        "C08"
      };
      let sig = format!("{}/topic/{}/{}", owner, f.rule, mode);
      if owner == prop {
        res.violation(&sig, &f.summary, &args.replay_dir, &json!({"meta": meta, "trace": trace}));
      } else {
        res.count(&format!("other_property_observations/{}", sig.replace('/', "|")), 1);
      }
    }
  }
}
