//! spmc_stress — broadcast spmc (C07): every receiver obtains every value sent after it was
//! created, exactly once and in order; the sender is held back by the slowest live receiver;
//! closing/dropping a receiver releases the backpressure it caused.

use serde_json::{json, Value};
use std::panic::{catch_unwind, AssertUnwindSafe};
use std::sync::atomic::{AtomicBool, AtomicU32, AtomicUsize, Ordering};
use std::sync::{Arc, Mutex};
use std::time::Duration;
use vh_channels::adapt::*;
use vh_channels::engine::{watch, StuckCfg, WatchIn};
use vh_channels::hist::*;
use vh_channels::val::{vid, Val};
use vh_core::chaos;
use vh_core::cli::Args;
use vh_core::result::ShardResult;
use vh_core::rng::Rng;
use vh_core::stepper::block_on;
use vh_core::stuck::{self, Canary};

use fibre::error::*;

#[derive(Clone, Debug)]
struct Scn {
  exec: u64,
  seed: u64,
  cap: usize,
  async_ctor: bool,
  receivers0: usize,
  max_receivers: usize,
  values: usize,
  recv_ops: usize,
  profile: chaos::Profile,
  gremlin: bool,
  batchy: bool,
}

impl Scn {
  fn describe(&self) -> Value {
    json!({"exec": self.exec, "seed": self.seed, "cap": self.cap, "async_ctor": self.async_ctor,
      "initial_receivers": self.receivers0, "max_receivers": self.max_receivers, "values_to_send": self.values,
      "recv_ops_per_receiver": self.recv_ops, "spurious_unparks": self.gremlin, "batch_heavy": self.batchy})
  }
}

struct RxMeta {
  handle: u32,
  start: usize,
  thread: usize,
}

struct Shared {
  scn: Scn,
  next_handle: AtomicU32,
  logs: Mutex<Vec<Arc<Log>>>,
  done: Mutex<Vec<Arc<AtomicBool>>>,
  threads: Mutex<Vec<std::thread::Thread>>,
  joins: Mutex<Vec<std::thread::JoinHandle<()>>>,
  rx_meta: Mutex<Vec<RxMeta>>,
  live_receivers: AtomicUsize,
  total_receivers: AtomicUsize,
  cap_reported: AtomicUsize,
  stop: AtomicBool,
}

fn ids_of(vs: &[Val]) -> Vec<u64> {
  vs.iter().map(|v| v.wid()).collect()
}
fn pnote(p: Box<dyn std::any::Any + Send>) -> String {
  format!("{} @ {}", vh_core::panic_message(&*p), vh_core::last_panic_location())
}

fn new_thread_slot(sh: &Shared) -> (usize, Arc<Log>, Arc<AtomicBool>) {
  let mut logs = sh.logs.lock().unwrap();
  let log = Arc::new(Log::default());
  logs.push(log.clone());
  let d = Arc::new(AtomicBool::new(false));
  sh.done.lock().unwrap().push(d.clone());
  (logs.len() - 1, log, d)
}

fn run_sender(sh: Arc<Shared>, tid: usize, log: Arc<Log>, mut h: TxH) {
  let scn = &sh.scn;
  let mut rng = Rng::derive(scn.seed, 77, scn.exec);
  let _g = chaos::enter(scn.seed, scn.exec, tid as u64);
  let t16 = tid as u16;
  let hid = 1u32;
  let mut seq = 0u32;
  let mut sent = 0usize;
  let mut guard = 0u64;
  // sometimes convert up front
  if rng.chance(1, 3) {
    let ev = Ev::new(t16, hid, Side::Tx, Form::Convert, matches!(h, TxH::A(_)));
    let idx = log.begin(ev);
    h = match h {
      TxH::S(s) => TxH::A(s.into_async()),
      TxH::A(a) => TxH::S(a.into_sync()),
    };
    log.end(idx, |e| e.out = Out::Ok);
  }
  while sent < scn.values && !sh.stop.load(Ordering::Relaxed) {
    guard += 1;
    if guard > 5_000_000 {
      break;
    }
    let is_async = matches!(h, TxH::A(_));
    let w: &[u32] = if scn.batchy { &[2, 2, 3, 3, 2, 2] } else { &[6, 3, 1, 1, 1, 1] };
    let op = rng.weighted(w);
    let bn = rng.range(0, (2 * scn.cap as u64 + 2).min(12)) as usize;
    let n = if op < 2 { 1 } else { bn };
    let mut vs = Vec::new();
    let mut ids = Vec::new();
    for _ in 0..n {
      let id = vid(hid, seq);
      seq += 1;
      ids.push(id);
      vs.push(Val::new(id));
    }
    let form = [Form::Send, Form::TrySend, Form::SendBatch, Form::SendBatchMut, Form::TrySendBatch, Form::TrySendBatchMut][op];
    let mut ev = Ev::new(t16, hid, Side::Tx, form, is_async);
    ev.vals = ids;
    ev.back_known = op != 0;
    let idx = log.begin(ev);
    enum R {
      Unit(Result<(), SendError>),
      Try(Result<(), TrySendError<Val>>),
      Batch(Result<usize, SendBatchError<Val>>),
      TryBatch(Result<usize, TrySendBatchError<Val>>),
      Mut(Result<usize, SendError>, Vec<Val>),
    }
    let r = catch_unwind(AssertUnwindSafe(|| match (op, &mut h) {
      (0, TxH::S(h)) => R::Unit(h.send(vs.pop().unwrap())),
      (0, TxH::A(h)) => R::Unit(block_on(h.send(vs.pop().unwrap()))),
      (1, TxH::S(h)) => R::Try(h.try_send(vs.pop().unwrap())),
      (1, TxH::A(h)) => R::Try(h.try_send(vs.pop().unwrap())),
      (2, TxH::S(h)) => R::Batch(h.send_batch(std::mem::take(&mut vs))),
      (2, TxH::A(h)) => R::Batch(block_on(h.send_batch(std::mem::take(&mut vs)))),
      (3, TxH::S(h)) => {
        let r = h.send_batch_mut(&mut vs);
        R::Mut(r, std::mem::take(&mut vs))
      }
      (3, TxH::A(h)) => {
        let r = block_on(h.send_batch_mut(&mut vs));
        R::Mut(r, std::mem::take(&mut vs))
      }
      (4, TxH::S(h)) => R::TryBatch(h.try_send_batch(std::mem::take(&mut vs))),
      (4, TxH::A(h)) => R::TryBatch(h.try_send_batch(std::mem::take(&mut vs))),
      (_, TxH::S(h)) => {
        let r = h.try_send_batch_mut(&mut vs);
        R::Mut(r, std::mem::take(&mut vs))
      }
      (_, TxH::A(h)) => {
        let r = h.try_send_batch_mut(&mut vs);
        R::Mut(r, std::mem::take(&mut vs))
      }
    }));
    let mut out = Out::Ok;
    let mut n_ok = 0usize;
    log.end(idx, |e| {
      match r {
        Ok(R::Unit(Ok(()))) | Ok(R::Try(Ok(()))) => {
          e.n_ok = 1;
        }
        Ok(R::Unit(Err(_))) => e.out = Out::Closed,
        Ok(R::Try(Err(err))) => {
          let (o, v) = match err {
            TrySendError::Full(v) => (Out::Full, v),
            TrySendError::Closed(v) => (Out::Closed, v),
            TrySendError::Sent(v) => (Out::Sent, v),
          };
          e.out = o;
          e.back = vec![v.wid()];
        }
        Ok(R::Batch(Ok(k))) | Ok(R::TryBatch(Ok(k))) => e.n_ok = k as u32,
        Ok(R::Batch(Err(err))) => {
          e.out = Out::Closed;
          e.n_ok = err.sent as u32;
          e.back = ids_of(&err.unsent);
        }
        Ok(R::TryBatch(Err(err))) => {
          e.out = if err.reason == BatchSendErrorReason::Full { Out::Full } else { Out::Closed };
          e.n_ok = err.sent as u32;
          e.back = ids_of(&err.unsent);
        }
        Ok(R::Mut(r, rest)) => {
          e.back = ids_of(&rest);
          match r {
            Ok(k) => e.n_ok = k as u32,
            Err(_) => {
              e.out = Out::Closed;
              e.n_ok = (e.vals.len() - e.back.len().min(e.vals.len())) as u32;
            }
          }
        }
        Err(p) => {
          e.out = Out::Panicked;
          e.note = Some(pnote(p));
        }
      }
      if e.out == Out::Open {
        e.out = Out::Ok;
      }
      out = e.out;
      n_ok = e.n_ok as usize;
    });
    stuck::progress();
    sent += n_ok;
    match out {
      Out::Closed | Out::Panicked => break,
      Out::Full => std::thread::yield_now(),
      _ => {}
    }
    if rng.chance(1, 10) {
      let (len, cap) = match &h {
        TxH::S(h) => (h.len(), h.capacity()),
        TxH::A(h) => (h.len(), h.capacity()),
      };
      if let (Some(l), Some(c)) = (len, cap) {
        sh.cap_reported.store(c, Ordering::Relaxed);
        let mut ev = Ev::new(t16, hid, Side::Tx, Form::Probe, false);
        ev.aux = l as u64;
        ev.aux2 = c as u64;
        let idx = log.begin(ev);
        log.end(idx, |e| e.out = Out::Ok);
      }
    }
  }
  // close or drop the sender
  if rng.chance(1, 3) {
    let ev = Ev::new(t16, hid, Side::Tx, Form::Close, matches!(h, TxH::A(_)));
    let idx = log.begin(ev);
    let r = catch_unwind(AssertUnwindSafe(|| match &mut h {
      TxH::S(h) => h.close(),
      TxH::A(h) => h.close(),
    }));
    log.end(idx, |e| {
      e.out = match r {
        Ok(Ok(())) => Out::Ok,
        Ok(Err(_)) => Out::CloseErr,
        Err(_) => Out::Panicked,
      }
    });
  }
  let ev = Ev::new(t16, hid, Side::Tx, Form::Drop, matches!(h, TxH::A(_)));
  let idx = log.begin(ev);
  let r = catch_unwind(AssertUnwindSafe(move || drop(h)));
  log.end(idx, |e| e.out = if r.is_ok() { Out::Ok } else { Out::Panicked });
  stuck::progress();
}

fn spawn_receiver(sh: &Arc<Shared>, h: RxH, hid: u32, start: usize, early: bool) {
  let (tid, log, done) = new_thread_slot(sh);
  sh.rx_meta.lock().unwrap().push(RxMeta { handle: hid, start, thread: tid });
  sh.live_receivers.fetch_add(1, Ordering::SeqCst);
  let sh2 = sh.clone();
  let j = std::thread::Builder::new()
    .name(format!("vh-r{}", tid))
    .spawn(move || {
      let r = catch_unwind(AssertUnwindSafe(|| run_receiver(sh2.clone(), tid, log.clone(), h, hid, start, early)));
      if let Err(p) = r {
        let mut ev = Ev::new(tid as u16, 0, Side::Rx, Form::Probe, false);
        ev.note = Some(format!("harness thread panicked: {}", pnote(p)));
        let idx = log.begin(ev);
        log.end(idx, |e| e.out = Out::Panicked);
      }
      chaos::leave();
      done.store(true, Ordering::SeqCst);
    })
    .unwrap();
  sh.threads.lock().unwrap().push(j.thread().clone());
  sh.joins.lock().unwrap().push(j);
}

fn run_receiver(sh: Arc<Shared>, tid: usize, log: Arc<Log>, mut h: RxH, hid: u32, start: usize, early: bool) {
  let scn = sh.scn.clone();
  let mut rng = Rng::derive(scn.seed, 500 + tid as u64, scn.exec);
  let _g = chaos::enter(scn.seed, scn.exec, tid as u64);
  let t16 = tid as u16;
  let mut consumed = 0usize;
  let mut steps = 0usize;
  let mut disconnected = false;
  let mut panicked = false;
  let ops = if early { (scn.recv_ops / 3).max(1) } else { scn.recv_ops };
  let mut do_op = |h: &mut RxH, drain: bool, rng: &mut Rng, consumed: &mut usize| -> Out {
    let is_async = matches!(h, RxH::A(_));
    let w: &[u32] = if drain {
      &[6, 0, 0, 2, 2, 0, 0, 2]
    } else if scn.batchy {
      &[2, 1, 1, 3, 3, 2, 2, 1]
    } else {
      &[6, 3, 3, 1, 1, 1, 1, 2]
    };
    let mut op = rng.weighted(w);
    if is_async && op == 2 {
      op = 0;
    }
    if !is_async && op == 7 {
      op = 0;
    }
    let form = [Form::Recv, Form::TryRecv, Form::RecvTimeout, Form::RecvBatch, Form::RecvBatchMut, Form::TryRecvBatch, Form::TryRecvBatchMut, Form::StreamNext][op];
    let max = rng.range(0, 6) as usize;
    let timeout = Duration::from_micros([0u64, 20, 200, 1500][rng.below(4) as usize]);
    let mut ev = Ev::new(t16, hid, Side::Rx, form, is_async);
    ev.aux = if op == 2 { timeout.as_micros() as u64 } else { max as u64 };
    let idx = log.begin(ev);
    let mut spill: Vec<Val> = Vec::new();
    enum R {
      Vals(Vec<Val>),
      Out(Out),
    }
    let r = catch_unwind(AssertUnwindSafe(|| -> R {
      match (op, &mut *h) {
        (0, RxH::S(h)) => h.recv().map(|v| R::Vals(vec![v])).unwrap_or(R::Out(Out::Disconnected)),
        (0, RxH::A(h)) => block_on(h.recv()).map(|v| R::Vals(vec![v])).unwrap_or(R::Out(Out::Disconnected)),
        (1, h) => {
          let r = match h {
            RxH::S(h) => h.try_recv(),
            RxH::A(h) => h.try_recv(),
          };
          match r {
            Ok(v) => R::Vals(vec![v]),
            Err(TryRecvError::Empty) => R::Out(Out::Empty),
            Err(TryRecvError::Disconnected) => R::Out(Out::Disconnected),
          }
        }
        (2, RxH::S(h)) => match h.recv_timeout(timeout) {
          Ok(v) => R::Vals(vec![v]),
          Err(RecvErrorTimeout::Timeout) => R::Out(Out::Timeout),
          Err(RecvErrorTimeout::Disconnected) => R::Out(Out::Disconnected),
        },
        (3, RxH::S(h)) => h.recv_batch(max).map(R::Vals).unwrap_or(R::Out(Out::Disconnected)),
        (3, RxH::A(h)) => block_on(h.recv_batch(max)).map(R::Vals).unwrap_or(R::Out(Out::Disconnected)),
        (4, RxH::S(h)) => match h.recv_batch_mut(&mut spill, max) {
          Ok(_) => R::Out(Out::Ok),
          Err(_) => R::Out(Out::Disconnected),
        },
        (4, RxH::A(h)) => match block_on(h.recv_batch_mut(&mut spill, max)) {
          Ok(_) => R::Out(Out::Ok),
          Err(_) => R::Out(Out::Disconnected),
        },
        (5, h) => {
          let r = match h {
            RxH::S(h) => h.try_recv_batch(max),
            RxH::A(h) => h.try_recv_batch(max),
          };
          match r {
            Ok(vs) => R::Vals(vs),
            Err(TryRecvError::Empty) => R::Out(Out::Empty),
            Err(TryRecvError::Disconnected) => R::Out(Out::Disconnected),
          }
        }
        (6, h) => {
          let r = match h {
            RxH::S(h) => h.try_recv_batch_mut(&mut spill, max),
            RxH::A(h) => h.try_recv_batch_mut(&mut spill, max),
          };
          match r {
            Ok(_) => R::Out(Out::Ok),
            Err(TryRecvError::Empty) => R::Out(Out::Empty),
            Err(TryRecvError::Disconnected) => R::Out(Out::Disconnected),
          }
        }
        (_, RxH::A(h)) => match block_on(h.next()) {
          Some(v) => R::Vals(vec![v]),
          None => R::Out(Out::StreamEnd),
        },
        _ => R::Out(Out::Empty),
      }
    }));
    let mut o = Out::Ok;
    log.end(idx, |e| {
      match r {
        Ok(R::Vals(vs)) => {
          e.vals = ids_of(&vs);
          e.out = Out::Ok;
        }
        Ok(R::Out(out)) => {
          e.vals = ids_of(&spill);
          e.out = out;
        }
        Err(p) => {
          e.vals = ids_of(&spill);
          e.out = Out::Panicked;
          e.note = Some(pnote(p));
        }
      }
      e.n_ok = e.vals.len() as u32;
      *consumed += e.vals.len();
      o = e.out;
    });
    stuck::progress();
    o
  };
  while steps < ops && !disconnected && !panicked && !sh.stop.load(Ordering::Relaxed) {
    steps += 1;
    // clone: the new receiver starts at this receiver's current position
    if rng.chance(1, 12) && sh.total_receivers.load(Ordering::SeqCst) < scn.max_receivers {
      sh.total_receivers.fetch_add(1, Ordering::SeqCst);
      let nid = sh.next_handle.fetch_add(1, Ordering::SeqCst);
      let mut ev = Ev::new(t16, hid, Side::Rx, Form::Clone, matches!(h, RxH::A(_)));
      ev.aux = nid as u64;
      ev.aux2 = (start + consumed) as u64;
      let idx = log.begin(ev);
      let c = match &h {
        RxH::S(h) => h.try_clone().map(RxH::S),
        RxH::A(h) => h.try_clone().map(RxH::A),
      };
      log.end(idx, |e| e.out = if c.is_some() { Out::Ok } else { Out::Empty });
      if let Some(c) = c {
        let early2 = rng.chance(1, 3);
        spawn_receiver(&sh, c, nid, start + consumed, early2);
      }
      continue;
    }
    if rng.chance(1, 25) {
      let is_async = matches!(h, RxH::A(_));
      let mut ev = Ev::new(t16, hid, Side::Rx, Form::Convert, is_async);
      ev.aux = !is_async as u64;
      let idx = log.begin(ev);
      h = match h {
        RxH::S(s) => RxH::A(s.into_async()),
        RxH::A(a) => RxH::S(a.into_sync()),
      };
      log.end(idx, |e| e.out = Out::Ok);
      continue;
    }
    match do_op(&mut h, false, &mut rng, &mut consumed) {
      Out::Disconnected | Out::StreamEnd => disconnected = true,
      Out::Panicked => panicked = true,
      Out::Empty | Out::Timeout => std::thread::yield_now(),
      _ => {}
    }
  }
  if !early && !panicked {
    // keep receiving until Disconnected (blocking forms: terminates once the sender is gone)
    while !disconnected && !sh.stop.load(Ordering::Relaxed) {
      match do_op(&mut h, true, &mut rng, &mut consumed) {
        Out::Disconnected | Out::StreamEnd => disconnected = true,
        Out::Panicked => break,
        _ => {}
      }
    }
  }
  if early && rng.chance(1, 2) {
    let ev = Ev::new(t16, hid, Side::Rx, Form::Close, matches!(h, RxH::A(_)));
    let idx = log.begin(ev);
    let r = catch_unwind(AssertUnwindSafe(|| match &mut h {
      RxH::S(h) => h.close(),
      RxH::A(h) => h.close(),
    }));
    log.end(idx, |e| {
      e.out = match r {
        Ok(Ok(())) => Out::Ok,
        Ok(Err(_)) => Out::CloseErr,
        Err(_) => Out::Panicked,
      }
    });
  }
  let ev = Ev::new(t16, hid, Side::Rx, Form::Drop, matches!(h, RxH::A(_)));
  let idx = log.begin(ev);
  let r = catch_unwind(AssertUnwindSafe(move || drop(h)));
  log.end(idx, |e| e.out = if r.is_ok() { Out::Ok } else { Out::Panicked });
  sh.live_receivers.fetch_sub(1, Ordering::SeqCst);
  stuck::progress();
}

struct Finding {
  rule: String,
  summary: String,
  detail: Value,
}

fn fid(id: u64) -> String {
  format!("{}", id & 0xffff_ffff)
}

fn check(evs: &[Ev], metas: &[RxMeta], cap: usize, complete: bool) -> (Vec<Finding>, usize, usize, bool) {
  let mut f = Vec::new();
  for e in evs.iter().filter(|e| e.out == Out::Panicked && e.form != Form::Probe) {
    f.push(Finding { rule: format!("panic-in-{}", e.form.name()), summary: format!("library panicked in {}: {}", e.form.name(), e.note.clone().unwrap_or_default()), detail: e.to_json() });
  }
  if !f.is_empty() {
    return (f, 0, 0, false);
  }
  // the sent sequence, in send order (single sender thread, sequential)
  let mut sent: Vec<u64> = Vec::new();
  let mut sent_at_ret: Vec<(u64, u64, usize)> = Vec::new(); // (call, ret, cumulative count)
  for e in evs.iter().filter(|e| e.form.is_send() && !e.is_open()) {
    let k = e.n_ok as usize;
    if e.back_known && e.out != Out::Ok && (k + e.back.len() != e.vals.len() || e.back[..] != e.vals[k.min(e.vals.len())..]) {
      f.push(Finding { rule: format!("handback-{}", e.form.name()), summary: "failed send did not hand back exactly input[sent..]".into(), detail: e.to_json() });
    }
    sent.extend_from_slice(&e.vals[..k.min(e.vals.len())]);
    if k > 0 {
      sent_at_ret.push((e.call, e.ret, sent.len()));
    }
  }
  // A send that had not returned when the scenario was given up (incomplete history) may have placed any prefix of
  // its values: they count as possibly sent, after everything the sender completed before (one sender thread).
  for e in evs.iter().filter(|e| e.form.is_send() && e.is_open()) {
    sent.extend_from_slice(&e.vals);
  }
  let pos_of: std::collections::HashMap<u64, usize> = sent.iter().enumerate().map(|(i, id)| (*id, i)).collect();
  let sender_gone_call = evs.iter().filter(|e| e.side == Side::Tx && (e.form == Form::Drop || (e.form == Form::Close && e.out == Out::Ok))).map(|e| e.call).min();
  let sender_gone_ret = evs.iter().filter(|e| e.side == Side::Tx && (e.form == Form::Drop || (e.form == Form::Close && e.out == Out::Ok))).map(|e| e.ret).min();
  let mut overlapping = false;
  let mut received_total = 0usize;
  for m in metas {
    let mine: Vec<&Ev> = evs.iter().filter(|e| e.side == Side::Rx && e.handle == m.handle).collect();
    let mut expect = m.start;
    let closed_call = mine.iter().filter(|e| e.form == Form::Close && e.out == Out::Ok).map(|e| e.call).min();
    for e in mine.iter().filter(|e| e.form.is_recv()) {
      for id in &e.vals {
        received_total += 1;
        match pos_of.get(id) {
          None => {
            f.push(Finding { rule: "phantom-value".into(), summary: format!("receiver {} obtained value {} that was never sent successfully", m.handle, fid(*id)), detail: e.to_json() });
          }
          Some(p) => {
            if *p != expect {
              let rule = if *p < expect { "duplicate-or-reordered" } else { "gap" };
              f.push(Finding {
                rule: rule.into(),
                summary: format!(
                  "receiver {} (created at position {}) expected the value at position {} of the sent sequence but obtained position {}",
                  m.handle, m.start, expect, p
                ),
                detail: json!({"op": e.to_json(), "receiver_start": m.start}),
              });
              expect = *p;
            }
            expect += 1;
          }
        }
      }
      if matches!(e.out, Out::Disconnected | Out::StreamEnd) && !e.is_open() {
        let own_closed = closed_call.map(|c| c < e.ret).unwrap_or(false);
        if !own_closed {
          if sender_gone_call.map(|t| e.ret < t).unwrap_or(true) {
            f.push(Finding { rule: "premature-disconnected".into(), summary: format!("receiver {} observed Disconnected while the sender was alive", m.handle), detail: e.to_json() });
          } else if complete && expect != sent.len() {
            f.push(Finding {
              rule: "disconnected-before-drained".into(),
              summary: format!("receiver {} observed Disconnected at position {} although {} values were sent", m.handle, expect, sent.len()),
              detail: e.to_json(),
            });
          }
        }
      }
    }
    // backpressure: at the return of a send, the sender is at most `cap` ahead of what this
    // receiver had at least been asked to take.
    let created_ret = evs.iter().find(|e| e.form == Form::Clone && e.aux as u32 == m.handle).map(|e| e.ret).unwrap_or(0);
    let gone_call = mine.iter().filter(|e| e.form == Form::Drop || (e.form == Form::Close && e.out == Out::Ok)).map(|e| e.call).min().unwrap_or(u64::MAX);
    let mut recv_pts: Vec<(u64, usize)> = mine.iter().filter(|e| e.form.is_recv() && !e.vals.is_empty()).map(|e| (e.call, e.vals.len())).collect();
    recv_pts.sort();
    for (scall, sret, cum) in &sent_at_ret {
      if created_ret < *scall && gone_call > *sret {
        let taken: usize = recv_pts.iter().take_while(|(c, _)| c < sret).map(|(_, n)| *n).sum();
        let ahead = *cum as i64 - (m.start + taken) as i64;
        if ahead > cap as i64 {
          f.push(Finding {
            rule: "backpressure".into(),
            summary: format!("the sender completed value #{} while live receiver {} had only been asked for {} values: {} ahead with capacity {}", cum, m.handle, m.start + taken, ahead, cap),
            detail: json!({"receiver": m.handle, "receiver_start": m.start, "capacity": cap}),
          });
          break;
        }
      }
    }
  }
  // len probes
  for e in evs.iter().filter(|e| e.form == Form::Probe && e.aux2 != 0) {
    if e.aux > e.aux2 {
      f.push(Finding { rule: "len-exceeds-capacity".into(), summary: format!("len() {} > capacity() {}", e.aux, e.aux2), detail: e.to_json() });
      break;
    }
  }
  // sends after every receiver is gone must fail
  let _ = sender_gone_ret;
  // overlap
  let mut iv: Vec<(u64, u64, u16)> = evs.iter().filter(|e| e.form.is_send() || e.form.is_recv()).map(|e| (e.call, if e.ret == 0 { u64::MAX } else { e.ret }, e.thread)).collect();
  iv.sort();
  let mut best: Vec<(u64, u16)> = Vec::new();
  for (c, r, t) in iv {
    if best.iter().any(|(end, bt)| *bt != t && *end > c) {
      overlapping = true;
      break;
    }
    best.push((r, t));
    best.sort_by(|a, b| b.0.cmp(&a.0));
    best.dedup_by_key(|x| x.1);
    best.truncate(3);
  }
  // dedup findings by rule
  let mut seen = std::collections::HashSet::new();
  f.retain(|x| seen.insert(x.rule.clone()));
  (f, sent.len(), received_total, overlapping)
}

fn main() {
  let args = Args::parse();
  vh_core::install_quiet_panic_hook();
  chaos::install();
  let prop = args.prop.clone();
  let mut res = ShardResult::new(&prop, "spmc_stress", args.seed, args.shard);
  res.rule = "one evaluation = one generated broadcast scenario (capacity, 1-3 initial receivers, receivers cloned / \
    dropped / closed / converted mid-run, one sender mixing single, batch, in-place, try and async forms) run on real \
    threads under schedule chaos; non-trivial = operations of at least two threads overlapped; distinct = hash of \
    (shape, stamp-ordered call/return interleaving)"
    .into();
  let canary = Canary::start();
  let cfg = StuckCfg::default();
  let mut rng = Rng::new(args.shard_seed());
  let mut exec = 0u64;
  while args.time_left() {
    exec += 1;
    let scn = Scn {
      exec: exec + args.shard * 1_000_003,
      seed: rng.next(),
      cap: *rng.pick(&[1usize, 1, 2, 3, 4, 5, 8]),
      async_ctor: rng.chance(1, 3),
      receivers0: rng.range(1, 3) as usize,
      max_receivers: rng.range(2, 5) as usize,
      values: if cfg!(miri) { *rng.pick(&[4usize, 8, 14]) } else { *rng.pick(&[10usize, 40, 120, 400]) },
      recv_ops: if cfg!(miri) { *rng.pick(&[3usize, 6, 12]) } else { *rng.pick(&[5usize, 20, 60, 200]) },
      profile: chaos::Profile::pick(&mut rng),
      gremlin: rng.chance(1, 3),
      batchy: rng.chance(1, 3),
    };
    vh_core::reset_stamp();
    chaos::set_profile(&scn.profile);
    let _ = chaos::take_totals();
    let (tx, rx0) = make_spmc(scn.cap, scn.async_ctor);
    let sh = Arc::new(Shared {
      scn: scn.clone(),
      next_handle: AtomicU32::new(2),
      logs: Mutex::new(Vec::new()),
      done: Mutex::new(Vec::new()),
      threads: Mutex::new(Vec::new()),
      joins: Mutex::new(Vec::new()),
      rx_meta: Mutex::new(Vec::new()),
      live_receivers: AtomicUsize::new(0),
      total_receivers: AtomicUsize::new(scn.receivers0),
      cap_reported: AtomicUsize::new(scn.cap),
      stop: AtomicBool::new(false),
    });
    // initial receivers (clones made before anything is sent: all start at position 0)
    let mut rxs = vec![];
    for _ in 1..scn.receivers0 {
      let c = match &rx0 {
        RxH::S(h) => h.try_clone().map(RxH::S),
        RxH::A(h) => h.try_clone().map(RxH::A),
      }
      .expect("spmc receiver clones");
      rxs.push(c);
    }
    rxs.insert(0, rx0);
    // sender thread slot first
    let (stid, slog, sdone) = new_thread_slot(&sh);
    for (i, r) in rxs.into_iter().enumerate() {
      let hid = sh.next_handle.fetch_add(1, Ordering::SeqCst);
      // the last initial receiver always drains (keeps the scenario closed)
      let early = i + 1 != scn.receivers0 && rng.chance(1, 3);
      spawn_receiver(&sh, r, hid, 0, early);
    }
    {
      let sh2 = sh.clone();
      let j = std::thread::Builder::new()
        .name("vh-s".into())
        .spawn(move || {
          let r = catch_unwind(AssertUnwindSafe(|| run_sender(sh2.clone(), stid, slog.clone(), tx)));
          if let Err(p) = r {
            let mut ev = Ev::new(stid as u16, 0, Side::Tx, Form::Probe, false);
            ev.note = Some(format!("harness thread panicked: {}", pnote(p)));
            let idx = slog.begin(ev);
            slog.end(idx, |e| e.out = Out::Panicked);
          }
          chaos::leave();
          sdone.store(true, Ordering::SeqCst);
        })
        .unwrap();
      sh.threads.lock().unwrap().push(j.thread().clone());
      sh.joins.lock().unwrap().push(j);
    }
    let gstop = Arc::new(AtomicBool::new(false));
    let gremlin = if scn.gremlin {
      let shg = sh.clone();
      let gs = gstop.clone();
      let seed = scn.seed;
      Some(std::thread::spawn(move || {
        let mut rng = Rng::new(seed ^ 0x6772);
        while !gs.load(Ordering::Relaxed) {
          {
            let ts = shg.threads.lock().unwrap();
            if !ts.is_empty() {
              ts[rng.below(ts.len() as u64) as usize].unpark();
            }
          }
          std::thread::sleep(Duration::from_micros(rng.range(20, 600)));
        }
      }))
    } else {
      None
    };
    let (stuck_report, leaked) = {
      let (s1, s2, s3, s4, s5) = (sh.clone(), sh.clone(), sh.clone(), sh.clone(), sh.clone());
      watch(
        &WatchIn {
          done: &move || s1.done.lock().unwrap().iter().all(|d| d.load(Ordering::SeqCst)),
          unfinished: &move || s2.done.lock().unwrap().iter().enumerate().filter(|(_, d)| !d.load(Ordering::SeqCst)).map(|(i, _)| i).collect(),
          history: &move || merge(&s3.logs.lock().unwrap()),
          threads: &move || s4.threads.lock().unwrap().clone(),
          model: &move |evs: &[Ev]| {
            // enabledness from definite counts
            let metas = s5.rx_meta.lock().unwrap();
            let cap = s5.cap_reported.load(Ordering::Relaxed);
            let sent: usize = evs.iter().filter(|e| e.form.is_send() && !e.is_open()).map(|e| e.n_ok as usize).sum();
            let open_send_vals: usize = evs.iter().filter(|e| e.form.is_send() && e.is_open()).map(|e| e.vals.len()).sum();
            let sender_gone = evs.iter().any(|e| e.side == Side::Tx && !e.is_open() && (e.form == Form::Drop || (e.form == Form::Close && e.out == Out::Ok)));
            let mut any = false;
            let mut blocked = vec![];
            let mut any_async = false;
            let mut any_sync = false;
            let mut min_pos: Option<usize> = None;
            for m in metas.iter() {
              let gone = evs.iter().any(|e| e.side == Side::Rx && e.handle == m.handle && !e.is_open() && (e.form == Form::Drop || (e.form == Form::Close && e.out == Out::Ok)));
              if !gone {
                let c: usize = evs.iter().filter(|e| e.side == Side::Rx && e.handle == m.handle && e.form.is_recv() && !e.is_open()).map(|e| e.vals.len()).sum();
                min_pos = Some(min_pos.map_or(m.start + c, |p: usize| p.min(m.start + c)));
              }
            }
            for e in evs.iter().filter(|e| e.is_open()) {
              let mut en = false;
              let mut why = "not enabled according to the history model";
              if e.form.is_recv() {
                let m = metas.iter().find(|m| m.handle == e.handle);
                let c: usize = evs.iter().filter(|x| x.side == Side::Rx && x.handle == e.handle && x.form.is_recv() && !x.is_open()).map(|x| x.vals.len()).sum();
                if let Some(m) = m {
                  if sent > m.start + c {
                    en = true;
                    why = "values sent after this receiver's position are available";
                  } else if sender_gone {
                    en = true;
                    why = "the sender is gone";
                  }
                }
              } else if e.form.is_send() {
                match min_pos {
                  None => {
                    en = true;
                    why = "no live receiver is left";
                  }
                  Some(p) => {
                    if sent + open_send_vals < p + cap {
                      en = true;
                      why = "the slowest live receiver leaves room";
                    }
                  }
                }
              }
              if e.is_async {
                any_async = true;
              } else {
                any_sync = true;
              }
              any |= en;
              let mut j = e.to_json();
              j.as_object_mut().unwrap().insert("enabled".into(), json!(en));
              j.as_object_mut().unwrap().insert("why".into(), json!(why));
              blocked.push(j);
            }
            (any, blocked, any_async, any_sync)
          },
        },
        &cfg,
        &canary,
      )
    };
    gstop.store(true, Ordering::Relaxed);
    if let Some(g) = gremlin {
      let _ = g.join();
    }
    sh.stop.store(true, Ordering::SeqCst);
    if !leaked {
      // threads may still be spawning clones; join until stable
      loop {
        let j = sh.joins.lock().unwrap().pop();
        match j {
          Some(j) => {
            let _ = j.join();
          }
          None => break,
        }
      }
    }
    let evs = merge(&sh.logs.lock().unwrap());
    let totals = chaos::take_totals();
    let complete = !leaked && stuck_report.is_none();
    let metas = sh.rx_meta.lock().unwrap();
    let cap = sh.cap_reported.load(Ordering::Relaxed);
    let (mut findings, n_sent, n_recv, overlapping) = check(&evs, &metas, cap, complete);
    res.executions += 1;
    res.count("events", evs.len() as u64);
    for e in &evs {
      res.count(&format!("ops_by_form/{}{}", if e.is_async { "async." } else { "" }, e.form.name()), 1);
      res.count(&format!("outcomes/{}", e.out.name()), 1);
    }
    res.count_obj("chaos", &totals.to_json());
    res.count("values/sent", n_sent as u64);
    res.count("values/received_over_all_receivers", n_recv as u64);
    res.count("receivers_total", metas.len() as u64);
    res.count("receivers_created_mid_run", metas.iter().filter(|m| m.start > 0).count() as u64);
    if totals.parks() > 0 {
      res.count("executions_that_parked", 1);
    }
    let mut inconclusive = vec![];
    if let Some(s) = &stuck_report {
      if s.canary_max_gap_us > cfg.canary_limit_us {
        inconclusive.push("stuck window with unhealthy canary".to_string());
      } else if s.parked == Some(false) {
      inconclusive.push("quiet window with runnable (starved or spinning) threads: not a parked-forever verdict".into());
    } else if s.nudge_released || s.model_enabled {
        findings.push(Finding {
          rule: "stuck".into(),
          summary: format!("threads stayed blocked although progress was possible: {}", s.reason),
          detail: json!({"blocked": s.blocked, "model_enabled": s.model_enabled, "nudge_released": s.nudge_released}),
        });
      } else {
        inconclusive.push(format!("stuck but not decidable: {}", s.reason));
      }
    }
    for e in evs.iter().filter(|e| e.form == Form::Probe && e.out == Out::Panicked) {
      res.notes.push(format!("HARNESS-PANIC {}", e.note.clone().unwrap_or_default()));
      res.count("harness_panics", 1);
    }
    for w in inconclusive {
      res.inconclusive(&w);
    }
    if overlapping {
      let mut h = vh_core::Fnv::default();
      h.u64(scn.cap as u64 * 31 + scn.receivers0 as u64);
      let mut pts: Vec<(u64, u64)> = vec![];
      for e in &evs {
        let tag = ((e.thread as u64) << 16) | ((e.form as u64) << 8) | e.out as u64;
        pts.push((e.call, tag << 1));
        if e.ret != 0 {
          pts.push((e.ret, (tag << 1) | 1));
        }
      }
      pts.sort();
      for (_, t) in pts.iter().take(8192) {
        h.u64(*t);
      }
      res.add_nontrivial(h.finish());
    }
    if res.samples.len() < 3 && overlapping {
      res.sample(json!({"scenario": scn.describe(), "events": evs.len(), "history_excerpt": history_json(&evs, 14)}), 3);
    }
    for f in findings {
      // C04 claims the disconnect clauses of the broadcast channel, C07 everything
      let c04_rule = matches!(f.rule.as_str(), "premature-disconnected" | "disconnected-before-drained") || f.rule.starts_with("panic-in-");
      // C06 claims only the progress clause (a pending / blocked operation that had become possible)
      // C02 claims the order clauses (each receiver's run is the sent sequence: no gap, duplicate, reorder, phantom)
      let c02_rule = matches!(f.rule.as_str(), "duplicate-or-reordered" | "gap" | "phantom-value") || f.rule.starts_with("panic-in-");
      if (prop == "C04" && !c04_rule) || ((prop == "C06" || prop == "C05") && f.rule != "stuck") || (prop == "C02" && !c02_rule) {
        res.count(&format!("other_property_observations/C07|spmc|{}|broadcast", f.rule), 1);
        continue;
      }
      let sig = format!("{}/spmc/{}/broadcast", if ["C02", "C04", "C05", "C06"].contains(&prop.as_str()) { prop.as_str() } else { "C07" }, f.rule);
      let witness = json!({"scenario": scn.describe(), "detail": f.detail, "complete": complete,
        "receivers": metas.iter().map(|m| json!({"handle": m.handle, "start": m.start, "thread": m.thread})).collect::<Vec<_>>(),
        "history": history_json(&evs, 600)});
      res.violation(&sig, &f.summary, &args.replay_dir, &witness);
    }
    drop(metas);
    if leaked {
      res.notes.push(format!("execution {} left blocked threads behind; shard stops early", scn.exec));
      break;
    }
  }
  res.write(&args.out, args.elapsed_s());
}
