//! Client-boundary history of channel operations. The call stamp is taken *before* invoking
//! the library, the return stamp *after* it replied; both come from one global counter.

use serde_json::{json, Value};
use std::sync::Mutex;

#[derive(Clone, Copy, Debug, PartialEq, Eq, Hash)]
#[repr(u8)]
pub enum Form {
  Send,
  TrySend,
  SendBatch,
  TrySendBatch,
  SendBatchMut,
  TrySendBatchMut,
  Recv,
  TryRecv,
  RecvTimeout,
  RecvBatch,
  RecvBatchMut,
  TryRecvBatch,
  TryRecvBatchMut,
  StreamNext,
  Close,
  Drop,
  Clone,
  Convert,
  Probe,
  /// lock engine: exclusive / shared acquisition (blocking or async), try variants, release
  LockEx,
  LockSh,
  TryLockEx,
  TryLockSh,
  Unlock,
  /// threaded engine: a producer pauses until everything definitely sent so far was received
  AwaitDrain,
}

impl Form {
  pub fn name(self) -> &'static str {
    match self {
      Form::Send => "send",
      Form::TrySend => "try_send",
      Form::SendBatch => "send_batch",
      Form::TrySendBatch => "try_send_batch",
      Form::SendBatchMut => "send_batch_mut",
      Form::TrySendBatchMut => "try_send_batch_mut",
      Form::Recv => "recv",
      Form::TryRecv => "try_recv",
      Form::RecvTimeout => "recv_timeout",
      Form::RecvBatch => "recv_batch",
      Form::RecvBatchMut => "recv_batch_mut",
      Form::TryRecvBatch => "try_recv_batch",
      Form::TryRecvBatchMut => "try_recv_batch_mut",
      Form::StreamNext => "stream_next",
      Form::Close => "close",
      Form::Drop => "drop",
      Form::Clone => "clone",
      Form::Convert => "convert",
      Form::Probe => "probe",
      Form::LockEx => "lock_exclusive",
      Form::LockSh => "lock_shared",
      Form::TryLockEx => "try_lock_exclusive",
      Form::TryLockSh => "try_lock_shared",
      Form::Unlock => "unlock",
      Form::AwaitDrain => "await_drain",
    }
  }
  pub fn is_send(self) -> bool {
    matches!(
      self,
      Form::Send | Form::TrySend | Form::SendBatch | Form::TrySendBatch | Form::SendBatchMut | Form::TrySendBatchMut
    )
  }
  pub fn is_recv(self) -> bool {
    matches!(
      self,
      Form::Recv
        | Form::TryRecv
        | Form::RecvTimeout
        | Form::RecvBatch
        | Form::RecvBatchMut
        | Form::TryRecvBatch
        | Form::TryRecvBatchMut
        | Form::StreamNext
    )
  }
  /// Forms that may wait indefinitely for the other side.
  pub fn is_blocking(self) -> bool {
    matches!(
      self,
      Form::Send
        | Form::SendBatch
        | Form::SendBatchMut
        | Form::Recv
        | Form::RecvBatch
        | Form::RecvBatchMut
        | Form::StreamNext
        | Form::LockEx
        | Form::LockSh
        | Form::AwaitDrain
    )
  }
}

#[derive(Clone, Copy, Debug, PartialEq, Eq, Hash)]
#[repr(u8)]
pub enum Out {
  Open,
  Ok,
  Full,
  Closed,
  Sent,
  Empty,
  Disconnected,
  Timeout,
  Cancelled,
  Panicked,
  CloseErr,
  StreamEnd,
}

impl Out {
  pub fn name(self) -> &'static str {
    match self {
      Out::Open => "OPEN",
      Out::Ok => "Ok",
      Out::Full => "Full",
      Out::Closed => "Closed",
      Out::Sent => "Sent",
      Out::Empty => "Empty",
      Out::Disconnected => "Disconnected",
      Out::Timeout => "Timeout",
      Out::Cancelled => "Cancelled",
      Out::Panicked => "Panicked",
      Out::CloseErr => "CloseError",
      Out::StreamEnd => "StreamEnd",
    }
  }
}

#[derive(Clone, Copy, Debug, PartialEq, Eq)]
pub enum Side {
  Tx,
  Rx,
}

#[derive(Clone, Debug)]
pub struct Ev {
  pub thread: u16,
  pub handle: u32,
  pub side: Side,
  pub form: Form,
  pub is_async: bool,
  pub call: u64,
  pub ret: u64,
  /// send forms: ids attempted, in order; recv forms: ids received, in order.
  pub vals: Vec<u64>,
  /// send forms: how many of `vals` the operation reported as sent.
  pub n_ok: u32,
  /// send forms: ids handed back (error payload / remaining in-place vec), in order.
  pub back: Vec<u64>,
  /// `true` when the error type of this form carries the unsent values.
  pub back_known: bool,
  pub out: Out,
  /// timeout µs / batch max / new handle id for clone / len for probe.
  pub aux: u64,
  pub aux2: u64,
  pub note: Option<String>,
}

impl Ev {
  pub fn new(thread: u16, handle: u32, side: Side, form: Form, is_async: bool) -> Ev {
    Ev {
      thread,
      handle,
      side,
      form,
      is_async,
      call: 0,
      ret: 0,
      vals: Vec::new(),
      n_ok: 0,
      back: Vec::new(),
      back_known: false,
      out: Out::Open,
      aux: 0,
      aux2: 0,
      note: None,
    }
  }
  pub fn is_open(&self) -> bool {
    self.ret == 0
  }
  pub fn to_json(&self) -> Value {
    fn ids(v: &[u64]) -> Vec<String> {
      v.iter().map(|id| format!("{}:{}", id >> 32, id & 0xffff_ffff)).collect()
    }
    let mut m = json!({
      "t": self.thread, "h": self.handle, "op": format!("{}{}", if self.is_async {"async."} else {""}, self.form.name()),
      "call": self.call, "ret": self.ret, "out": self.out.name(),
    });
    let o = m.as_object_mut().unwrap();
    if !self.vals.is_empty() {
      o.insert("vals".into(), json!(ids(&self.vals)));
    }
    if self.form.is_send() {
      o.insert("n_ok".into(), json!(self.n_ok));
      if self.back_known {
        o.insert("back".into(), json!(ids(&self.back)));
      }
    }
    if self.aux != 0 {
      o.insert("aux".into(), json!(self.aux));
    }
    if let Some(n) = &self.note {
      o.insert("note".into(), json!(n));
    }
    m
  }
}

/// Per-thread append-only log; the owner appends, the monitor thread may read at any time.
#[derive(Default)]
pub struct Log {
  pub evs: Mutex<Vec<Ev>>,
}

impl Log {
  pub fn begin(&self, mut ev: Ev) -> usize {
    let mut g = self.evs.lock().unwrap();
    ev.call = vh_core::stamp();
    g.push(ev);
    g.len() - 1
  }
  pub fn end(&self, idx: usize, f: impl FnOnce(&mut Ev)) {
    let (sent, recvd) = {
      let mut g = self.evs.lock().unwrap();
      let ev = &mut g[idx];
      f(ev);
      ev.ret = vh_core::stamp();
      if ev.form.is_send() {
        (ev.n_ok as u64, 0)
      } else if ev.form.is_recv() {
        (0, ev.vals.len() as u64)
      } else {
        (0, 0)
      }
    };
    // definite counts for the drain phases of the threaded engine (see engine::await_drain)
    if sent > 0 {
      DEF_SENT.fetch_add(sent, std::sync::atomic::Ordering::SeqCst);
    }
    if recvd > 0 {
      DEF_RECV.fetch_add(recvd, std::sync::atomic::Ordering::SeqCst);
      let _g = PHASE_LOCK.lock();
      PHASE_CV.notify_all();
    }
  }
  pub fn snapshot(&self) -> Vec<Ev> {
    self.evs.lock().unwrap().clone()
  }
}

/// Values definitely sent (send operations that reported them accepted) / received since the
/// last `reset_phase_counters`, over all logs of the process.
pub static DEF_SENT: std::sync::atomic::AtomicU64 = std::sync::atomic::AtomicU64::new(0);
pub static DEF_RECV: std::sync::atomic::AtomicU64 = std::sync::atomic::AtomicU64::new(0);
pub static PHASE_LOCK: std::sync::Mutex<()> = std::sync::Mutex::new(());
pub static PHASE_CV: std::sync::Condvar = std::sync::Condvar::new();
pub fn reset_phase_counters() {
  DEF_SENT.store(0, std::sync::atomic::Ordering::SeqCst);
  DEF_RECV.store(0, std::sync::atomic::Ordering::SeqCst);
}

/// Merges per-thread logs into one vector ordered by call stamp.
pub fn merge(logs: &[std::sync::Arc<Log>]) -> Vec<Ev> {
  let mut all: Vec<Ev> = Vec::new();
  for l in logs {
    all.extend(l.snapshot());
  }
  all.sort_by_key(|e| e.call);
  all
}

pub fn history_json(evs: &[Ev], cap: usize) -> Value {
  if evs.len() <= cap {
    Value::Array(evs.iter().map(|e| e.to_json()).collect())
  } else {
    let mut v: Vec<Value> = evs[..cap / 2].iter().map(|e| e.to_json()).collect();
    v.push(json!({"elided": evs.len() - cap}));
    v.extend(evs[evs.len() - cap / 2..].iter().map(|e| e.to_json()));
    Value::Array(v)
  }
}
