//! Payload with an observable `Drop`: every constructed instance (clones included) owns a
//! fresh ledger slot whose counter is bumped exactly when it is dropped. The ledger stores
//! counters, not addresses, so it hides nothing from LSan/Miri.

use std::sync::atomic::{AtomicBool, AtomicU8, AtomicUsize, Ordering};
use std::sync::OnceLock;

const LEDGER_CAP: usize = if cfg!(miri) { 1 << 12 } else { 1 << 22 };

struct Ledger {
  slots: Vec<AtomicU8>,
  ids: Vec<std::sync::atomic::AtomicU64>,
  next: AtomicUsize,
  untracked: AtomicUsize,
}

static LEDGER: OnceLock<Ledger> = OnceLock::new();
static HEAP: AtomicBool = AtomicBool::new(false);

fn ledger() -> &'static Ledger {
  LEDGER.get_or_init(|| Ledger {
    slots: (0..LEDGER_CAP).map(|_| AtomicU8::new(0)).collect(),
    ids: (0..LEDGER_CAP).map(|_| std::sync::atomic::AtomicU64::new(0)).collect(),
    next: AtomicUsize::new(0),
    untracked: AtomicUsize::new(0),
  })
}

/// Payloads additionally own a heap allocation (so a double drop / use-after-free is also
/// a memory error visible to ASan, Miri and memcheck).
pub fn set_heap_payload(on: bool) {
  HEAP.store(on, Ordering::Relaxed);
}

/// Starts a new ledger epoch. Only call when no `Val` of the previous epoch is alive or
/// will be dropped any more (leaked executions end the process instead).
pub fn ledger_reset() {
  let l = ledger();
  let n = l.next.swap(0, Ordering::SeqCst).min(LEDGER_CAP);
  for i in 0..n {
    l.slots[i].store(0, Ordering::Relaxed);
  }
  l.untracked.store(0, Ordering::SeqCst);
}

#[derive(Debug, Default, Clone)]
pub struct LedgerReport {
  pub constructed: usize,
  pub dropped_once: usize,
  /// (value id, drop count) of slots whose count is not exactly one.
  pub leaked: Vec<u64>,
  pub multi: Vec<(u64, u8)>,
  pub untracked: usize,
}

pub fn ledger_report() -> LedgerReport {
  let l = ledger();
  let n = l.next.load(Ordering::SeqCst).min(LEDGER_CAP);
  let mut r = LedgerReport { constructed: n, untracked: l.untracked.load(Ordering::SeqCst), ..Default::default() };
  for i in 0..n {
    match l.slots[i].load(Ordering::SeqCst) {
      1 => r.dropped_once += 1,
      0 => r.leaked.push(l.ids[i].load(Ordering::Relaxed)),
      c => r.multi.push((l.ids[i].load(Ordering::Relaxed), c)),
    }
  }
  r
}

/// Number of payloads currently alive (constructed minus dropped), tracked ones only.
pub fn ledger_live() -> usize {
  let l = ledger();
  let n = l.next.load(Ordering::SeqCst).min(LEDGER_CAP);
  (0..n).filter(|&i| l.slots[i].load(Ordering::SeqCst) == 0).count()
}

/// Words of inline guard: makes the payload ~300 bytes, so a slot that is overwritten while
/// it is being copied out (or copied in twice) shows as a torn value.
const GUARD: usize = 32;
const GUARD_XOR: u64 = 0x5bd1_e995_9e37_79b9;
/// Ids reported for payloads whose guard words do not match their id (never produced by a sender).
pub const CORRUPT_BASE: u64 = 0xdead_0000_0000_0000;

pub struct Val {
  pub id: u64,
  slot: u32,
  _heap: Option<Box<u64>>,
  guard: [u64; GUARD],
}

impl Val {
  pub fn new(id: u64) -> Val {
    let l = ledger();
    let i = l.next.fetch_add(1, Ordering::SeqCst);
    let slot = if i < LEDGER_CAP {
      l.ids[i].store(id, Ordering::Relaxed);
      i as u32
    } else {
      l.untracked.fetch_add(1, Ordering::Relaxed);
      u32::MAX
    };
    let heap = if HEAP.load(Ordering::Relaxed) { Some(Box::new(id)) } else { None };
    Val { id, slot, _heap: heap, guard: [id ^ GUARD_XOR; GUARD] }
  }
}

impl Val {
  /// True when every guard word still belongs to this id.
  pub fn intact(&self) -> bool {
    self.guard.iter().all(|g| *g == self.id ^ GUARD_XOR)
  }
  /// The id as the history records it: the sender's id, or a value in the CORRUPT range
  /// (reported by the conservation oracle as a value nobody sent) when the payload is torn.
  pub fn wid(&self) -> u64 {
    if self.intact() {
      self.id
    } else {
      CORRUPT_BASE | (self.id & 0x0000_ffff_ffff_ffff)
    }
  }
}

impl Clone for Val {
  fn clone(&self) -> Val {
    Val::new(self.id)
  }
}

impl Drop for Val {
  fn drop(&mut self) {
    if let Some(h) = &self._heap {
      // Touch the allocation: a use-after-free becomes a sanitizer report here.
      assert_eq!(**h, self.id, "payload heap cell corrupted");
    }
    if self.slot != u32::MAX {
      ledger().slots[self.slot as usize].fetch_add(1, Ordering::SeqCst);
    }
  }
}

impl std::fmt::Debug for Val {
  fn fmt(&self, f: &mut std::fmt::Formatter<'_>) -> std::fmt::Result {
    write!(f, "v{}:{}", self.id >> 32, self.id & 0xffff_ffff)
  }
}

#[inline]
pub fn vid(handle: u32, seq: u32) -> u64 {
  ((handle as u64) << 32) | seq as u64
}
#[inline]
pub fn vid_handle(id: u64) -> u32 {
  (id >> 32) as u32
}
#[inline]
pub fn vid_seq(id: u64) -> u32 {
  id as u32
}
