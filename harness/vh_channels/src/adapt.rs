//! Uniform, object-safe adapters over every point-to-point channel flavour of fibre, so one
//! workload generator / recorder / checker serves them all. The adapters add no behaviour:
//! every method forwards to the identically named library method.

use crate::val::Val;
use fibre::error::*;
use futures_core::Stream;
use std::future::Future;
use std::pin::Pin;
use std::time::Duration;

pub type LFut<'a, T> = Pin<Box<dyn Future<Output = T> + 'a>>;

#[derive(Clone, Copy, Debug, PartialEq, Eq, Hash)]
pub enum Flavour {
  SpscBounded,
  SpscRendezvous,
  MpscBounded,
  MpscUnbounded,
  MpscRendezvous,
  MpmcBounded,
  MpmcUnbounded,
  MpmcRendezvous,
  Oneshot,
  /// experimental lock-free (Vyukov ring) bounded MPMC, `fibre::mpmc_exp` (the physical ring is a power of two; the logical capacity is the requested one)
  MpmcExp,
  /// broadcast spmc ring: every receiver sees every value. Not in `ALL_FLAVOURS` (different delivery
  /// semantics); used by the stepper's broadcast mode.
  Spmc,
}

pub const ALL_FLAVOURS: [Flavour; 10] = [
  Flavour::SpscBounded,
  Flavour::SpscRendezvous,
  Flavour::MpscBounded,
  Flavour::MpscUnbounded,
  Flavour::MpscRendezvous,
  Flavour::MpmcBounded,
  Flavour::MpmcUnbounded,
  Flavour::MpmcRendezvous,
  Flavour::Oneshot,
  Flavour::MpmcExp,
];

impl Flavour {
  pub fn name(self) -> &'static str {
    match self {
      Flavour::SpscBounded => "spsc_bounded",
      Flavour::SpscRendezvous => "spsc_rendezvous",
      Flavour::MpscBounded => "mpsc_bounded",
      Flavour::MpscUnbounded => "mpsc_unbounded",
      Flavour::MpscRendezvous => "mpsc_rendezvous",
      Flavour::MpmcBounded => "mpmc_bounded",
      Flavour::MpmcUnbounded => "mpmc_unbounded",
      Flavour::MpmcRendezvous => "mpmc_rendezvous",
      Flavour::Oneshot => "oneshot",
      Flavour::MpmcExp => "mpmc_exp",
      Flavour::Spmc => "spmc",
    }
  }
  pub fn from_name(s: &str) -> Option<Flavour> {
    ALL_FLAVOURS.iter().copied().chain([Flavour::Spmc]).find(|f| f.name() == s)
  }
  pub fn multi_producer(self) -> bool {
    !matches!(self, Flavour::SpscBounded | Flavour::SpscRendezvous | Flavour::Spmc)
  }
  pub fn multi_consumer(self) -> bool {
    matches!(self, Flavour::MpmcBounded | Flavour::MpmcUnbounded | Flavour::MpmcRendezvous | Flavour::MpmcExp | Flavour::Spmc)
  }
  pub fn rendezvous(self) -> bool {
    matches!(self, Flavour::SpscRendezvous | Flavour::MpscRendezvous | Flavour::MpmcRendezvous)
  }
  pub fn unbounded(self) -> bool {
    matches!(self, Flavour::MpscUnbounded | Flavour::MpmcUnbounded)
  }
  pub fn bounded(self) -> bool {
    matches!(self, Flavour::SpscBounded | Flavour::MpscBounded | Flavour::MpmcBounded | Flavour::MpmcExp | Flavour::Spmc)
  }
  pub fn has_batch(self) -> bool {
    self.bounded() || self.unbounded()
  }
  pub fn oneshot(self) -> bool {
    self == Flavour::Oneshot
  }
  /// every receiver obtains every value (clone starts at the parent's position)
  pub fn broadcast(self) -> bool {
    self == Flavour::Spmc
  }

}

// ------------------------------------------------------------------------------------------
// Traits
// ------------------------------------------------------------------------------------------

pub trait STx: Send {
  fn send(&mut self, v: Val) -> Result<(), SendError>;
  fn try_send(&mut self, v: Val) -> Result<(), TrySendError<Val>>;
  fn send_batch(&mut self, _vs: Vec<Val>) -> Result<usize, SendBatchError<Val>> {
    unimplemented!()
  }
  fn try_send_batch(&mut self, _vs: Vec<Val>) -> Result<usize, TrySendBatchError<Val>> {
    unimplemented!()
  }
  fn send_batch_mut(&mut self, _vs: &mut Vec<Val>) -> Result<usize, SendError> {
    unimplemented!()
  }
  fn try_send_batch_mut(&mut self, _vs: &mut Vec<Val>) -> Result<usize, SendError> {
    unimplemented!()
  }
  fn close(&mut self) -> Result<(), CloseError>;
  fn is_closed(&self) -> bool;
  fn len(&self) -> Option<usize> {
    None
  }
  fn capacity(&self) -> Option<usize> {
    None
  }
  fn is_full(&self) -> Option<bool> {
    None
  }
  fn try_clone(&self) -> Option<Box<dyn STx>> {
    None
  }
  fn into_async(self: Box<Self>) -> Box<dyn ATx>;
}

pub trait ATx: Send {
  fn send<'a>(&'a mut self, v: Val) -> LFut<'a, Result<(), SendError>>;
  fn try_send(&mut self, v: Val) -> Result<(), TrySendError<Val>>;
  fn send_batch<'a>(&'a mut self, _vs: Vec<Val>) -> LFut<'a, Result<usize, SendBatchError<Val>>> {
    unimplemented!()
  }
  fn send_batch_mut<'a>(&'a mut self, _vs: &'a mut Vec<Val>) -> LFut<'a, Result<usize, SendError>> {
    unimplemented!()
  }
  fn try_send_batch(&mut self, _vs: Vec<Val>) -> Result<usize, TrySendBatchError<Val>> {
    unimplemented!()
  }
  fn try_send_batch_mut(&mut self, _vs: &mut Vec<Val>) -> Result<usize, SendError> {
    unimplemented!()
  }
  fn close(&mut self) -> Result<(), CloseError>;
  fn is_closed(&self) -> bool;
  fn len(&self) -> Option<usize> {
    None
  }
  fn capacity(&self) -> Option<usize> {
    None
  }
  fn try_clone(&self) -> Option<Box<dyn ATx>> {
    None
  }
  fn into_sync(self: Box<Self>) -> Box<dyn STx>;
}

pub trait SRx: Send {
  fn recv(&mut self) -> Result<Val, RecvError>;
  fn try_recv(&mut self) -> Result<Val, TryRecvError>;
  fn recv_timeout(&mut self, d: Duration) -> Result<Val, RecvErrorTimeout>;
  fn recv_batch(&mut self, _max: usize) -> Result<Vec<Val>, RecvError> {
    unimplemented!()
  }
  fn recv_batch_mut(&mut self, _out: &mut Vec<Val>, _max: usize) -> Result<usize, RecvError> {
    unimplemented!()
  }
  fn try_recv_batch(&mut self, _max: usize) -> Result<Vec<Val>, TryRecvError> {
    unimplemented!()
  }
  fn try_recv_batch_mut(&mut self, _out: &mut Vec<Val>, _max: usize) -> Result<usize, TryRecvError> {
    unimplemented!()
  }
  fn close(&mut self) -> Result<(), CloseError>;
  fn is_closed(&self) -> bool;
  fn len(&self) -> Option<usize> {
    None
  }
  fn capacity(&self) -> Option<usize> {
    None
  }
  fn try_clone(&self) -> Option<Box<dyn SRx>> {
    None
  }
  fn into_async(self: Box<Self>) -> Box<dyn ARx>;
}

pub trait ARx: Send {
  fn recv<'a>(&'a mut self) -> LFut<'a, Result<Val, RecvError>>;
  fn try_recv(&mut self) -> Result<Val, TryRecvError>;
  fn recv_batch<'a>(&'a mut self, _max: usize) -> LFut<'a, Result<Vec<Val>, RecvError>> {
    unimplemented!()
  }
  fn recv_batch_mut<'a>(&'a mut self, _out: &'a mut Vec<Val>, _max: usize) -> LFut<'a, Result<usize, RecvError>> {
    unimplemented!()
  }
  fn try_recv_batch(&mut self, _max: usize) -> Result<Vec<Val>, TryRecvError> {
    unimplemented!()
  }
  fn try_recv_batch_mut(&mut self, _out: &mut Vec<Val>, _max: usize) -> Result<usize, TryRecvError> {
    unimplemented!()
  }
  /// `Stream::next`, where the receiver implements `Stream`.
  fn has_stream(&self) -> bool {
    false
  }
  fn next<'a>(&'a mut self) -> LFut<'a, Option<Val>> {
    unimplemented!()
  }
  fn close(&mut self) -> Result<(), CloseError>;
  fn is_closed(&self) -> bool;
  fn len(&self) -> Option<usize> {
    None
  }
  fn capacity(&self) -> Option<usize> {
    None
  }
  fn try_clone(&self) -> Option<Box<dyn ARx>> {
    None
  }
  fn can_sync(&self) -> bool {
    true
  }
  fn into_sync(self: Box<Self>) -> Box<dyn SRx>;
}

// ------------------------------------------------------------------------------------------
// Macro pieces
// ------------------------------------------------------------------------------------------

macro_rules! m_batch_stx {
  (yes) => {
    fn send_batch(&mut self, vs: Vec<Val>) -> Result<usize, SendBatchError<Val>> {
      self.0.send_batch(vs)
    }
    fn try_send_batch(&mut self, vs: Vec<Val>) -> Result<usize, TrySendBatchError<Val>> {
      self.0.try_send_batch(vs)
    }
    fn send_batch_mut(&mut self, vs: &mut Vec<Val>) -> Result<usize, SendError> {
      self.0.send_batch_mut(vs)
    }
    fn try_send_batch_mut(&mut self, vs: &mut Vec<Val>) -> Result<usize, SendError> {
      self.0.try_send_batch_mut(vs)
    }
  };
  (no) => {};
}

macro_rules! m_batch_atx {
  (yes) => {
    fn send_batch<'a>(&'a mut self, vs: Vec<Val>) -> LFut<'a, Result<usize, SendBatchError<Val>>> {
      Box::pin(self.0.send_batch(vs))
    }
    fn send_batch_mut<'a>(&'a mut self, vs: &'a mut Vec<Val>) -> LFut<'a, Result<usize, SendError>> {
      Box::pin(self.0.send_batch_mut(vs))
    }
    fn try_send_batch(&mut self, vs: Vec<Val>) -> Result<usize, TrySendBatchError<Val>> {
      self.0.try_send_batch(vs)
    }
    fn try_send_batch_mut(&mut self, vs: &mut Vec<Val>) -> Result<usize, SendError> {
      self.0.try_send_batch_mut(vs)
    }
  };
  (no) => {};
}

macro_rules! m_batch_srx {
  (yes) => {
    fn recv_batch(&mut self, max: usize) -> Result<Vec<Val>, RecvError> {
      self.0.recv_batch(max)
    }
    fn recv_batch_mut(&mut self, out: &mut Vec<Val>, max: usize) -> Result<usize, RecvError> {
      self.0.recv_batch_mut(out, max)
    }
    fn try_recv_batch(&mut self, max: usize) -> Result<Vec<Val>, TryRecvError> {
      self.0.try_recv_batch(max)
    }
    fn try_recv_batch_mut(&mut self, out: &mut Vec<Val>, max: usize) -> Result<usize, TryRecvError> {
      self.0.try_recv_batch_mut(out, max)
    }
  };
  (no) => {};
}

macro_rules! m_batch_arx {
  (yes) => {
    fn recv_batch<'a>(&'a mut self, max: usize) -> LFut<'a, Result<Vec<Val>, RecvError>> {
      Box::pin(self.0.recv_batch(max))
    }
    fn recv_batch_mut<'a>(&'a mut self, out: &'a mut Vec<Val>, max: usize) -> LFut<'a, Result<usize, RecvError>> {
      Box::pin(self.0.recv_batch_mut(out, max))
    }
    fn try_recv_batch(&mut self, max: usize) -> Result<Vec<Val>, TryRecvError> {
      self.0.try_recv_batch(max)
    }
    fn try_recv_batch_mut(&mut self, out: &mut Vec<Val>, max: usize) -> Result<usize, TryRecvError> {
      self.0.try_recv_batch_mut(out, max)
    }
  };
  (no) => {};
}

macro_rules! m_stream {
  (yes) => {
    fn has_stream(&self) -> bool {
      true
    }
    fn next<'a>(&'a mut self) -> LFut<'a, Option<Val>> {
      Box::pin(std::future::poll_fn(move |cx| Pin::new(&mut self.0).poll_next(cx)))
    }
  };
  (no) => {};
}

macro_rules! m_clone {
  (yes, $tr:ident, $name:ident) => {
    fn try_clone(&self) -> Option<Box<dyn $tr>> {
      Some(Box::new($name(self.0.clone())))
    }
  };
  (no, $tr:ident, $name:ident) => {};
}

/// `full`: len()/capacity()->usize ; `opt`: len()/capacity()->Option<usize> ;
/// `len`: len() only ; `none`.
macro_rules! m_meta {
  (full) => {
    fn len(&self) -> Option<usize> {
      Some(self.0.len())
    }
    fn capacity(&self) -> Option<usize> {
      Some(self.0.capacity())
    }
  };
  (opt) => {
    fn len(&self) -> Option<usize> {
      Some(self.0.len())
    }
    fn capacity(&self) -> Option<usize> {
      self.0.capacity()
    }
  };
  (len) => {
    fn len(&self) -> Option<usize> {
      Some(self.0.len())
    }
  };
  (none) => {};
}

macro_rules! chan_adapters {
  ($stx:ident, $atx:ident, $srx:ident, $arx:ident,
   $stx_ty:ty, $atx_ty:ty, $srx_ty:ty, $arx_ty:ty,
   batch=$b:tt, clone_tx=$ct:tt, clone_rx=$cr:tt, stream=$st:tt, meta=$m:tt) => {
    pub struct $stx(pub $stx_ty);
    pub struct $atx(pub $atx_ty);
    pub struct $srx(pub $srx_ty);
    pub struct $arx(pub $arx_ty);

    impl STx for $stx {
      fn send(&mut self, v: Val) -> Result<(), SendError> {
        self.0.send(v)
      }
      fn try_send(&mut self, v: Val) -> Result<(), TrySendError<Val>> {
        self.0.try_send(v)
      }
      m_batch_stx!($b);
      fn close(&mut self) -> Result<(), CloseError> {
        self.0.close()
      }
      fn is_closed(&self) -> bool {
        self.0.is_closed()
      }
      m_meta!($m);
      fn is_full(&self) -> Option<bool> {
        None
      }
      m_clone!($ct, STx, $stx);
      fn into_async(self: Box<Self>) -> Box<dyn ATx> {
        Box::new($atx(self.0.to_async()))
      }
    }

    impl ATx for $atx {
      fn send<'a>(&'a mut self, v: Val) -> LFut<'a, Result<(), SendError>> {
        Box::pin(self.0.send(v))
      }
      fn try_send(&mut self, v: Val) -> Result<(), TrySendError<Val>> {
        self.0.try_send(v)
      }
      m_batch_atx!($b);
      fn close(&mut self) -> Result<(), CloseError> {
        self.0.close()
      }
      fn is_closed(&self) -> bool {
        self.0.is_closed()
      }
      m_meta!($m);
      m_clone!($ct, ATx, $atx);
      fn into_sync(self: Box<Self>) -> Box<dyn STx> {
        Box::new($stx(self.0.to_sync()))
      }
    }

    impl SRx for $srx {
      fn recv(&mut self) -> Result<Val, RecvError> {
        self.0.recv()
      }
      fn try_recv(&mut self) -> Result<Val, TryRecvError> {
        self.0.try_recv()
      }
      fn recv_timeout(&mut self, d: Duration) -> Result<Val, RecvErrorTimeout> {
        self.0.recv_timeout(d)
      }
      m_batch_srx!($b);
      fn close(&mut self) -> Result<(), CloseError> {
        self.0.close()
      }
      fn is_closed(&self) -> bool {
        self.0.is_closed()
      }
      m_meta!($m);
      m_clone!($cr, SRx, $srx);
      fn into_async(self: Box<Self>) -> Box<dyn ARx> {
        Box::new($arx(self.0.to_async()))
      }
    }

    impl ARx for $arx {
      fn recv<'a>(&'a mut self) -> LFut<'a, Result<Val, RecvError>> {
        Box::pin(self.0.recv())
      }
      fn try_recv(&mut self) -> Result<Val, TryRecvError> {
        self.0.try_recv()
      }
      m_batch_arx!($b);
      m_stream!($st);
      fn close(&mut self) -> Result<(), CloseError> {
        self.0.close()
      }
      fn is_closed(&self) -> bool {
        self.0.is_closed()
      }
      m_meta!($m);
      m_clone!($cr, ARx, $arx);
      fn into_sync(self: Box<Self>) -> Box<dyn SRx> {
        Box::new($srx(self.0.to_sync()))
      }
    }
  };
}

chan_adapters!(
  SpscBSTx, SpscBATx, SpscBSRx, SpscBARx,
  fibre::spsc::BoundedSyncSender<Val>, fibre::spsc::BoundedAsyncSender<Val>,
  fibre::spsc::BoundedSyncReceiver<Val>, fibre::spsc::BoundedAsyncReceiver<Val>,
  batch = yes, clone_tx = no, clone_rx = no, stream = yes, meta = full
);
chan_adapters!(
  SpscRSTx, SpscRATx, SpscRSRx, SpscRARx,
  fibre::spsc::rendezvous::RendezvousSyncSender<Val>, fibre::spsc::rendezvous::RendezvousAsyncSender<Val>,
  fibre::spsc::rendezvous::RendezvousSyncReceiver<Val>, fibre::spsc::rendezvous::RendezvousAsyncReceiver<Val>,
  batch = no, clone_tx = no, clone_rx = no, stream = no, meta = opt
);
chan_adapters!(
  MpscBSTx, MpscBATx, MpscBSRx, MpscBARx,
  fibre::mpsc::BoundedSyncSender<Val>, fibre::mpsc::BoundedAsyncSender<Val>,
  fibre::mpsc::BoundedSyncReceiver<Val>, fibre::mpsc::BoundedAsyncReceiver<Val>,
  batch = yes, clone_tx = yes, clone_rx = no, stream = yes, meta = full
);
chan_adapters!(
  MpscUSTx, MpscUATx, MpscUSRx, MpscUARx,
  fibre::mpsc::UnboundedSyncSender<Val>, fibre::mpsc::UnboundedAsyncSender<Val>,
  fibre::mpsc::UnboundedSyncReceiver<Val>, fibre::mpsc::UnboundedAsyncReceiver<Val>,
  batch = yes, clone_tx = yes, clone_rx = no, stream = yes, meta = len
);
chan_adapters!(
  MpscRSTx, MpscRATx, MpscRSRx, MpscRARx,
  fibre::mpsc::RendezvousSyncSender<Val>, fibre::mpsc::RendezvousAsyncSender<Val>,
  fibre::mpsc::RendezvousSyncReceiver<Val>, fibre::mpsc::RendezvousAsyncReceiver<Val>,
  batch = no, clone_tx = yes, clone_rx = no, stream = no, meta = opt
);
chan_adapters!(
  MpmcBSTx, MpmcBATx, MpmcBSRx, MpmcBARx,
  fibre::mpmc::Sender<Val>, fibre::mpmc::AsyncSender<Val>,
  fibre::mpmc::Receiver<Val>, fibre::mpmc::AsyncReceiver<Val>,
  batch = yes, clone_tx = yes, clone_rx = yes, stream = yes, meta = full
);
chan_adapters!(
  MpmcXSTx, MpmcXATx, MpmcXSRx, MpmcXARx,
  fibre::mpmc_exp::Sender<Val>, fibre::mpmc_exp::AsyncSender<Val>,
  fibre::mpmc_exp::Receiver<Val>, fibre::mpmc_exp::AsyncReceiver<Val>,
  batch = yes, clone_tx = yes, clone_rx = yes, stream = yes, meta = opt
);
chan_adapters!(
  MpmcUSTx, MpmcUATx, MpmcUSRx, MpmcUARx,
  fibre::mpmc::UnboundedSyncSender<Val>, fibre::mpmc::UnboundedAsyncSender<Val>,
  fibre::mpmc::UnboundedSyncReceiver<Val>, fibre::mpmc::UnboundedAsyncReceiver<Val>,
  batch = yes, clone_tx = yes, clone_rx = yes, stream = yes, meta = len
);
chan_adapters!(
  MpmcRSTx, MpmcRATx, MpmcRSRx, MpmcRARx,
  fibre::mpmc::RendezvousSyncSender<Val>, fibre::mpmc::RendezvousAsyncSender<Val>,
  fibre::mpmc::RendezvousSyncReceiver<Val>, fibre::mpmc::RendezvousAsyncReceiver<Val>,
  batch = no, clone_tx = yes, clone_rx = yes, stream = no, meta = opt
);

// ------------------------------------------------------------------------------------------
// Oneshot: `send(self)` consumes the sender and reports `TrySendError`; the receiver has an
// async `recv()` and a sync `try_recv()`. Modelled as: STx with only `try_send` (handle is
// spent afterwards), ARx with `recv`/`try_recv`.
// ------------------------------------------------------------------------------------------

pub struct OneshotTx(pub Option<fibre::oneshot::Sender<Val>>);
pub struct OneshotRx(pub fibre::oneshot::Receiver<Val>);

impl STx for OneshotTx {
  fn send(&mut self, _v: Val) -> Result<(), SendError> {
    unimplemented!("oneshot has no blocking send")
  }
  fn try_send(&mut self, v: Val) -> Result<(), TrySendError<Val>> {
    self.0.take().expect("oneshot sender already consumed").send(v)
  }
  fn close(&mut self) -> Result<(), CloseError> {
    match &self.0 {
      Some(s) => s.close(),
      None => Err(CloseError),
    }
  }
  fn is_closed(&self) -> bool {
    self.0.as_ref().map(|s| s.is_closed()).unwrap_or(true)
  }
  fn try_clone(&self) -> Option<Box<dyn STx>> {
    self.0.as_ref().map(|s| Box::new(OneshotTx(Some(s.clone()))) as Box<dyn STx>)
  }
  fn into_async(self: Box<Self>) -> Box<dyn ATx> {
    unimplemented!("oneshot sender has no async form")
  }
}

impl OneshotTx {
  pub fn spent(&self) -> bool {
    self.0.is_none()
  }
}

impl ARx for OneshotRx {
  fn recv<'a>(&'a mut self) -> LFut<'a, Result<Val, RecvError>> {
    Box::pin(self.0.recv())
  }
  fn try_recv(&mut self) -> Result<Val, TryRecvError> {
    self.0.try_recv()
  }
  fn close(&mut self) -> Result<(), CloseError> {
    self.0.close()
  }
  fn is_closed(&self) -> bool {
    self.0.is_closed()
  }
  fn can_sync(&self) -> bool {
    false
  }
  fn into_sync(self: Box<Self>) -> Box<dyn SRx> {
    unimplemented!("oneshot receiver has no sync form")
  }
}

// ------------------------------------------------------------------------------------------
// Construction
// ------------------------------------------------------------------------------------------

pub enum TxH {
  S(Box<dyn STx>),
  A(Box<dyn ATx>),
}
pub enum RxH {
  S(Box<dyn SRx>),
  A(Box<dyn ARx>),
}

/// Creates a channel of the given flavour through the *sync* constructor (`async_ctor` =
/// false) or the async one. `cap` is ignored for unbounded / rendezvous / oneshot.
pub fn make(fl: Flavour, cap: usize, async_ctor: bool) -> (TxH, RxH) {
  macro_rules! pair {
    ($s:expr, $a:expr, $stx:ident, $atx:ident, $srx:ident, $arx:ident) => {
      if async_ctor {
        let (t, r) = $a;
        (TxH::A(Box::new($atx(t))), RxH::A(Box::new($arx(r))))
      } else {
        let (t, r) = $s;
        (TxH::S(Box::new($stx(t))), RxH::S(Box::new($srx(r))))
      }
    };
  }
  match fl {
    Flavour::SpscBounded => pair!(
      fibre::spsc::bounded_sync::<Val>(cap), fibre::spsc::bounded_async::<Val>(cap),
      SpscBSTx, SpscBATx, SpscBSRx, SpscBARx),
    Flavour::SpscRendezvous => pair!(
      fibre::spsc::rendezvous::rendezvous::<Val>(), fibre::spsc::rendezvous::rendezvous_async::<Val>(),
      SpscRSTx, SpscRATx, SpscRSRx, SpscRARx),
    Flavour::MpscBounded => pair!(
      fibre::mpsc::bounded::<Val>(cap), fibre::mpsc::bounded_async::<Val>(cap),
      MpscBSTx, MpscBATx, MpscBSRx, MpscBARx),
    Flavour::MpscUnbounded => pair!(
      fibre::mpsc::unbounded::<Val>(), fibre::mpsc::unbounded_async::<Val>(),
      MpscUSTx, MpscUATx, MpscUSRx, MpscUARx),
    Flavour::MpscRendezvous => pair!(
      fibre::mpsc::rendezvous::rendezvous::<Val>(), fibre::mpsc::rendezvous::rendezvous_async::<Val>(),
      MpscRSTx, MpscRATx, MpscRSRx, MpscRARx),
    Flavour::MpmcBounded => pair!(
      fibre::mpmc::bounded::<Val>(cap), fibre::mpmc::bounded_async::<Val>(cap),
      MpmcBSTx, MpmcBATx, MpmcBSRx, MpmcBARx),
    Flavour::MpmcUnbounded => pair!(
      fibre::mpmc::unbounded::<Val>(), fibre::mpmc::unbounded_async::<Val>(),
      MpmcUSTx, MpmcUATx, MpmcUSRx, MpmcUARx),
    Flavour::MpmcRendezvous => pair!(
      fibre::mpmc::rendezvous::rendezvous::<Val>(), fibre::mpmc::rendezvous::rendezvous_async::<Val>(),
      MpmcRSTx, MpmcRATx, MpmcRSRx, MpmcRARx),
    Flavour::Oneshot => {
      let (t, r) = fibre::oneshot::oneshot::<Val>();
      (TxH::S(Box::new(OneshotTx(Some(t)))), RxH::A(Box::new(OneshotRx(r))))
    }
    Flavour::MpmcExp => pair!(
      fibre::mpmc_exp::bounded::<Val>(cap), fibre::mpmc_exp::bounded_async::<Val>(cap),
      MpmcXSTx, MpmcXATx, MpmcXSRx, MpmcXARx),
    Flavour::Spmc => make_spmc(cap, async_ctor),
  }
}

// ------------------------------------------------------------------------------------------
// Broadcast spmc (every receiver sees every value; `T: Clone`). Not part of `Flavour`: its
// semantics differ from the point-to-point channels and it has its own engine (C07).
// ------------------------------------------------------------------------------------------
chan_adapters!(
  SpmcSTx, SpmcATx, SpmcSRx, SpmcARx,
  fibre::spmc::BoundedSyncSender<Val>, fibre::spmc::BoundedAsyncSender<Val>,
  fibre::spmc::BoundedSyncReceiver<Val>, fibre::spmc::BoundedAsyncReceiver<Val>,
  batch = yes, clone_tx = no, clone_rx = yes, stream = yes, meta = full
);

pub fn make_spmc(cap: usize, async_ctor: bool) -> (TxH, RxH) {
  if async_ctor {
    let (t, r) = fibre::spmc::bounded_async::<Val>(cap);
    (TxH::A(Box::new(SpmcATx(t))), RxH::A(Box::new(SpmcARx(r))))
  } else {
    let (t, r) = fibre::spmc::bounded::<Val>(cap);
    (TxH::S(Box::new(SpmcSTx(t))), RxH::S(Box::new(SpmcSRx(r))))
  }
}
