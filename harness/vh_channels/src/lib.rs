pub mod adapt;
pub mod engine;
pub mod hist;
pub mod oracle;
pub mod val;
