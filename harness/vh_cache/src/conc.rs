//! Shared code of the concurrent cache engines (`cache_hist`: C11/C13/C16, `loader`: C15).
//!
//! Everything here is client-boundary: values carry `(key, unique write id)`, every call is
//! logged with a call stamp taken before and a return stamp taken after the library replied
//! (`vh_core::stamp()`), the checkers run offline over the merged logs.

use fibre_cache::policy::CachePolicy;
use fibre_cache::{Cache, CacheBuilder, EvictionListener, EvictionReason};
use serde_json::{json, Value};
use std::hash::{BuildHasher, Hasher};
use std::panic::{catch_unwind, AssertUnwindSafe};
use std::sync::atomic::{AtomicU64, Ordering};
use std::sync::{Arc, Mutex};
use std::time::Duration;
use vh_core::rng::{splitmix, Rng};

pub mod check;
pub mod work;

// ------------------------------------------------------------------------------------------
// values, hasher
// ------------------------------------------------------------------------------------------

/// Cache value: identifies its key and the write that created it; `n` is the in-place
/// counter mutated by compute/try_compute.
#[derive(Debug)]
pub struct Val {
  pub key: u64,
  pub wid: u64,
  pub n: u64,
}

/// Deterministic hasher so that shard / pending-load stripe of a key is known to the harness
/// (`index = hash & (shards-1)` in store.rs / handles/*.rs).
#[derive(Clone, Copy, Debug, Default)]
pub struct KeyHash {
  pub seed: u64,
}
pub struct KeyHasher {
  state: u64,
}
impl BuildHasher for KeyHash {
  type Hasher = KeyHasher;
  fn build_hasher(&self) -> KeyHasher {
    KeyHasher { state: self.seed ^ 0x51_7c_c1_b7_27_22_0a_95 }
  }
}
impl Hasher for KeyHasher {
  fn write(&mut self, bytes: &[u8]) {
    for &b in bytes {
      self.state = (self.state ^ b as u64).wrapping_mul(0x100000001b3);
    }
    self.state = splitmix(self.state);
  }
  fn write_u64(&mut self, v: u64) {
    self.state = splitmix(self.state ^ v);
  }
  fn finish(&self) -> u64 {
    self.state
  }
}
impl KeyHash {
  pub fn hash_u64(&self, key: u64) -> u64 {
    let mut h = self.build_hasher();
    h.write_u64(key);
    h.finish()
  }
  /// Shard index == pending-load stripe index (both have `shards` slots).
  pub fn stripe(&self, key: u64, shards: usize) -> usize {
    self.hash_u64(key) as usize & (shards - 1)
  }
}

// ------------------------------------------------------------------------------------------
// cache configuration
// ------------------------------------------------------------------------------------------

#[derive(Clone, Copy, Debug, PartialEq, Eq)]
pub enum Policy {
  TinyLfu,
  Sieve,
  Slru,
  Arc,
  Lru,
  Fifo,
  Clock,
  Random,
}
pub const ALL_POLICIES: [Policy; 8] =
  [Policy::TinyLfu, Policy::Sieve, Policy::Slru, Policy::Arc, Policy::Lru, Policy::Fifo, Policy::Clock, Policy::Random];

impl Policy {
  pub fn name(self) -> &'static str {
    match self {
      Policy::TinyLfu => "tinylfu",
      Policy::Sieve => "sieve",
      Policy::Slru => "slru",
      Policy::Arc => "arc",
      Policy::Lru => "lru",
      Policy::Fifo => "fifo",
      Policy::Clock => "clock",
      Policy::Random => "random",
    }
  }
  pub fn from_name(s: &str) -> Option<Policy> {
    ALL_POLICIES.iter().copied().find(|p| p.name() == s)
  }
}

#[derive(Clone, Debug)]
pub struct CacheCfg {
  pub policy: Policy,
  /// Use the builder's default policy selection instead of an explicit factory.
  pub default_policy: bool,
  pub shards: usize,
  /// `None` = unbounded.
  pub capacity: Option<u64>,
  pub ttl: Option<Duration>,
  pub tti: Option<Duration>,
  pub swr: Option<Duration>,
  pub janitor_tick_us: u64,
  pub maint_chance: u32,
  pub introspection: bool,
  pub hseed: u64,
  pub wheel: Option<(usize, Duration)>,
}

impl CacheCfg {
  pub fn describe(&self) -> Value {
    json!({"policy": if self.default_policy { "builder-default" } else { self.policy.name() },
      "shards": self.shards, "capacity": self.capacity, "ttl_ms": self.ttl.map(|d| d.as_millis() as u64),
      "tti_ms": self.tti.map(|d| d.as_millis() as u64), "swr_ms": self.swr.map(|d| d.as_millis() as u64),
      "janitor_tick_us": self.janitor_tick_us, "maintenance_chance": self.maint_chance,
      "maintenance_on_introspection": self.introspection, "hasher_seed": self.hseed,
      "wheel": self.wheel.map(|(n, d)| json!([n, d.as_millis() as u64]))})
  }
  pub fn hasher(&self) -> KeyHash {
    KeyHash { seed: self.hseed }
  }
  pub fn bounded(&self) -> bool {
    self.capacity.is_some()
  }
}

pub type SyncLoader = Arc<dyn Fn(u64) -> (Val, u64) + Send + Sync>;

pub type TheCache = Cache<u64, Val, KeyHash>;
pub type TheAsyncCache = fibre_cache::AsyncCache<u64, Val, KeyHash>;

fn policy_box(p: Policy, shard_cap: u64) -> Box<dyn CachePolicy<u64, Val>> {
  use fibre_cache::policy::*;
  match p {
    Policy::TinyLfu => Box::new(tinylfu::TinyLfuPolicy::<u64>::new(shard_cap)),
    Policy::Sieve => Box::new(sieve::SievePolicy::<u64>::new()),
    Policy::Slru => Box::new(slru::SlruPolicy::<u64>::new(shard_cap)),
    Policy::Arc => Box::new(arc::ArcPolicy::<u64>::new(shard_cap as usize)),
    Policy::Lru => Box::new(lru::LruPolicy::<u64>::new()),
    Policy::Fifo => Box::new(fifo::Fifo::<u64>::new()),
    Policy::Clock => Box::new(clock::ClockPolicy::<u64>::new()),
    Policy::Random => Box::new(random::RandomPolicy::<u64>::new()),
  }
}

/// Builder with everything but loader / spawner applied.
pub fn base_builder(cfg: &CacheCfg, listener: Option<Arc<Recorder>>) -> CacheBuilder<u64, Val, KeyHash> {
  let mut b = CacheBuilder::<u64, Val, KeyHash>::new()
    .hasher(cfg.hasher())
    .shards(cfg.shards)
    .janitor_tick_interval(Duration::from_micros(cfg.janitor_tick_us))
    .maintenance_chance(cfg.maint_chance)
    .maintenance_on_introspection(cfg.introspection);
  b = match cfg.capacity {
    Some(c) => b.capacity(c),
    None => b.unbounded(),
  };
  // An unbounded cache must not be given a policy that evicts on its own budget: TinyLFU's
  // sketch is sized by its capacity, so unbounded + TinyLFU uses the builder default (which
  // is what the builder itself would pick); SLRU / ARC get a practically infinite budget.
  if !cfg.default_policy && !(cfg.capacity.is_none() && cfg.policy == Policy::TinyLfu) {
    let p = cfg.policy;
    let shard_cap = match cfg.capacity {
      // the builder rounds the shard count up to a power of two
      Some(c) => ((c as f64) / (cfg.shards.max(1).next_power_of_two() as f64)).ceil() as u64,
      None => 1 << 40,
    };
    b = b.cache_policy_factory(move || policy_box(p, shard_cap));
  }
  if let Some(t) = cfg.ttl {
    b = b.time_to_live(t);
  }
  if let Some(t) = cfg.tti {
    b = b.time_to_idle(t);
  }
  if let Some(t) = cfg.swr {
    b = b.stale_while_revalidate(t);
  }
  if let Some((n, d)) = cfg.wheel {
    b = b.timer_wheel_size(n).timer_tick_duration(d);
  }
  if let Some(l) = listener {
    b = b.eviction_listener(RecHandle(l));
  }
  b
}

pub fn build_cache(cfg: &CacheCfg, listener: Option<Arc<Recorder>>, loader: Option<SyncLoader>) -> TheCache {
  let mut b = base_builder(cfg, listener);
  if let Some(l) = loader {
    b = b.loader(move |k| l(k));
  }
  b.build().expect("cache build")
}

// ------------------------------------------------------------------------------------------
// eviction listener recorder
// ------------------------------------------------------------------------------------------

#[derive(Clone, Debug)]
pub struct Notif {
  pub stamp: u64,
  pub key: u64,
  pub vkey: u64,
  pub wid: u64,
  /// 0 Capacity, 1 Expired, 2 Invalidated
  pub reason: u8,
  /// Virtual clock (ns) read after the stamp, i.e. not before the library decided.
  pub vnow: u64,
}
pub fn reason_name(r: u8) -> &'static str {
  match r {
    0 => "capacity",
    1 => "expired",
    _ => "invalidated",
  }
}

#[derive(Default)]
pub struct Recorder {
  pub recs: Mutex<Vec<Notif>>,
  pub count: AtomicU64,
  /// Optional artificial slowness of the listener (microseconds per call).
  pub slow_us: AtomicU64,
}
pub struct RecHandle(pub Arc<Recorder>);

impl EvictionListener<u64, Val> for RecHandle {
  fn on_evict(&self, key: u64, value: Arc<Val>, reason: EvictionReason) {
    let stamp = vh_core::stamp();
    let vnow = fibre_cache::verif_clock::now_nanos();
    let r = match reason {
      EvictionReason::Capacity => 0,
      EvictionReason::Expired => 1,
      EvictionReason::Invalidated => 2,
    };
    let n = Notif { stamp, key, vkey: value.key, wid: value.wid, reason: r, vnow };
    drop(value);
    self.0.recs.lock().unwrap().push(n);
    self.0.count.fetch_add(1, Ordering::SeqCst);
    let s = self.0.slow_us.load(Ordering::Relaxed);
    if s > 0 {
      std::thread::sleep(Duration::from_micros(s));
    }
  }
}

// ------------------------------------------------------------------------------------------
// history
// ------------------------------------------------------------------------------------------

#[derive(Clone, Copy, Debug, PartialEq, Eq, Hash, PartialOrd, Ord)]
#[repr(u8)]
pub enum Kind {
  Insert,
  InsertTtl,
  Remove,
  Invalidate,
  Clear,
  MultiInsert,
  MultiRemove,
  MultiInvalidate,
  Entry,
  Compute,
  TryCompute,
  FetchWith,
  Get,
  Fetch,
  Peek,
  MultiGet,
  Iter,
  IterSnapshot,
  RunMaintenance,
  Metrics,
}
pub const N_KINDS: usize = 20;
pub const ALL_KINDS: [Kind; N_KINDS] = [
  Kind::Insert, Kind::InsertTtl, Kind::Remove, Kind::Invalidate, Kind::Clear, Kind::MultiInsert, Kind::MultiRemove,
  Kind::MultiInvalidate, Kind::Entry, Kind::Compute, Kind::TryCompute, Kind::FetchWith, Kind::Get, Kind::Fetch,
  Kind::Peek, Kind::MultiGet, Kind::Iter, Kind::IterSnapshot, Kind::RunMaintenance, Kind::Metrics,
];

impl Kind {
  pub fn name(self) -> &'static str {
    match self {
      Kind::Insert => "insert",
      Kind::InsertTtl => "insert_with_ttl",
      Kind::Remove => "remove",
      Kind::Invalidate => "invalidate",
      Kind::Clear => "clear",
      Kind::MultiInsert => "multi_insert",
      Kind::MultiRemove => "multi_remove",
      Kind::MultiInvalidate => "multi_invalidate",
      Kind::Entry => "entry",
      Kind::Compute => "compute",
      Kind::TryCompute => "try_compute",
      Kind::FetchWith => "fetch_with",
      Kind::Get => "get",
      Kind::Fetch => "fetch",
      Kind::Peek => "peek",
      Kind::MultiGet => "multiget",
      Kind::Iter => "iter",
      Kind::IterSnapshot => "iter_snapshot",
      Kind::RunMaintenance => "run_maintenance",
      Kind::Metrics => "metrics",
    }
  }
  pub fn is_removal(self) -> bool {
    matches!(self, Kind::Remove | Kind::Invalidate | Kind::Clear | Kind::MultiRemove | Kind::MultiInvalidate)
  }
  pub fn is_read(self) -> bool {
    matches!(
      self,
      Kind::Entry | Kind::FetchWith | Kind::Get | Kind::Fetch | Kind::Peek | Kind::MultiGet | Kind::Iter | Kind::IterSnapshot
    )
  }
}

/// A value written by an operation.
#[derive(Clone, Copy, Debug)]
pub struct Wr {
  pub key: u64,
  pub wid: u64,
  pub cost: u64,
  /// ttl (ns) that applies to this value, 0 = none.
  pub ttl_ns: u64,
}
/// A value observed by an operation for key `key` (the key asked / iterated).
#[derive(Clone, Copy, Debug)]
pub struct Obs {
  pub key: u64,
  pub vkey: u64,
  pub wid: u64,
  pub n: u64,
}

#[derive(Clone, Debug)]
pub struct Ev {
  pub thread: u16,
  pub is_async: bool,
  pub kind: Kind,
  pub call: u64,
  /// 0 while open.
  pub ret: u64,
  pub keys: Vec<u64>,
  pub writes: Vec<Wr>,
  pub obs: Vec<Obs>,
  /// Values handed back by remove / multi_remove.
  pub removed: Vec<Obs>,
  /// invalidate -> found, compute -> true, try_compute -> Some(true)/Some(false)/None(=None)
  pub flag: Option<bool>,
  /// (wid, n after increment) per closure invocation of compute / try_compute.
  pub bumps: Vec<(u64, u64)>,
  /// Whether the entry-API closure ran.
  pub closure_ran: bool,
  /// Virtual clock (ns) read before the call.
  pub vnow: u64,
  pub panicked: Option<String>,
  pub note: u64,
}

impl Ev {
  pub fn new(thread: usize, kind: Kind, is_async: bool) -> Ev {
    Ev {
      thread: thread as u16,
      is_async,
      kind,
      call: 0,
      ret: 0,
      keys: Vec::new(),
      writes: Vec::new(),
      obs: Vec::new(),
      removed: Vec::new(),
      flag: None,
      bumps: Vec::new(),
      closure_ran: false,
      vnow: 0,
      panicked: None,
      note: 0,
    }
  }
  pub fn is_open(&self) -> bool {
    self.ret == 0
  }
  pub fn form(&self) -> String {
    format!("{}{}", if self.is_async { "async." } else { "" }, self.kind.name())
  }
  pub fn to_json(&self) -> Value {
    let mut m = serde_json::Map::new();
    m.insert("t".into(), self.thread.into());
    m.insert("op".into(), self.form().into());
    m.insert("call".into(), self.call.into());
    m.insert("ret".into(), self.ret.into());
    if !self.keys.is_empty() {
      m.insert("keys".into(), json!(self.keys));
    }
    if !self.writes.is_empty() {
      m.insert("writes".into(), json!(self.writes.iter().map(|w| json!({"k": w.key, "w": w.wid, "cost": w.cost, "ttl_ms": w.ttl_ns / 1_000_000})).collect::<Vec<_>>()));
    }
    if !self.obs.is_empty() {
      m.insert("saw".into(), json!(self.obs.iter().map(|o| json!({"k": o.key, "vk": o.vkey, "w": o.wid, "n": o.n})).collect::<Vec<_>>()));
    }
    if !self.removed.is_empty() {
      m.insert("removed".into(), json!(self.removed.iter().map(|o| json!({"k": o.key, "w": o.wid})).collect::<Vec<_>>()));
    }
    if let Some(f) = self.flag {
      m.insert("flag".into(), f.into());
    }
    if !self.bumps.is_empty() {
      m.insert("bumps".into(), json!(self.bumps));
    }
    if self.closure_ran {
      m.insert("closure_ran".into(), true.into());
    }
    if let Some(p) = &self.panicked {
      m.insert("panicked".into(), p.clone().into());
    }
    Value::Object(m)
  }
}

#[derive(Default)]
pub struct Log {
  pub evs: Mutex<Vec<Ev>>,
}

impl Log {
  /// Pushes the event and takes the call stamp as the very last step.
  pub fn begin(&self, mut ev: Ev) -> usize {
    let mut g = self.evs.lock().unwrap();
    let idx = g.len();
    ev.vnow = fibre_cache::verif_clock::now_nanos();
    ev.call = vh_core::stamp();
    g.push(ev);
    idx
  }
}

/// Runs one monitored library call: call stamp before, return stamp right after the reply,
/// results digested afterwards. A panic is recorded as outcome.
pub fn run_op<R>(log: &Log, ev: Ev, call: impl FnOnce() -> R, fin: impl FnOnce(&mut Ev, R)) {
  let idx = log.begin(ev);
  let r = catch_unwind(AssertUnwindSafe(call));
  let ret = vh_core::stamp();
  let mut g = log.evs.lock().unwrap();
  let e = &mut g[idx];
  match r {
    Ok(v) => fin(e, v),
    Err(p) => {
      e.panicked = Some(format!("{} @ {}", vh_core::panic_message(&*p), vh_core::last_panic_location()));
    }
  }
  e.ret = ret;
  drop(g);
  vh_core::stuck::progress();
}

pub fn merge(logs: &[Arc<Log>]) -> Vec<Ev> {
  let mut all: Vec<Ev> = Vec::new();
  for l in logs {
    all.extend(l.evs.lock().unwrap().iter().cloned());
  }
  all.sort_by_key(|e| e.call);
  all
}

pub fn history_json(evs: &[Ev], cap: usize) -> Value {
  Value::Array(evs.iter().take(cap).map(|e| e.to_json()).collect())
}

/// One loader invocation (logged inside the loader closure).
#[derive(Clone, Debug)]
pub struct LoadRec {
  pub key: u64,
  pub wid: u64,
  pub cost: u64,
  pub start: u64,
  /// 0 while running.
  pub end: u64,
  pub vnow: u64,
}

/// A finding of some property's oracle.
#[derive(Clone, Debug)]
pub struct Finding {
  pub prop: &'static str,
  /// `<component>/<rule>/<variant>`; the signature is `<prop>/<sig>`.
  pub sig: String,
  pub summary: String,
  pub detail: Value,
}
impl Finding {
  pub fn signature(&self) -> String {
    format!("{}/{}", self.prop, self.sig)
  }
}

/// Chaos profile for cache workloads: one cache operation passes dozens of hook points
/// (shard lock, event channel, batcher, maintenance lock), so the per-point delay
/// probabilities of the channel profiles are scaled down; the PCT change points (long stalls
/// that pin a thread inside a two-step window) are kept.
pub fn pick_profile(rng: &mut Rng) -> vh_core::chaos::Profile {
  let mut p = vh_core::chaos::Profile::pick(rng);
  let div = *rng.pick(&[2u32, 4, 8, 16]);
  p.p_sleep /= div;
  p.p_yield /= div / 2;
  p.p_spin /= 2;
  p
}

pub mod load;
