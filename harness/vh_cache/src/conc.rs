//! shared code of the concurrent cache engines
