//! Offline checkers over the recorded history: C11 per-key forgetting register, compute /
//! or_insert atomicity, C13 quiescent accounting audit, C16 listener rules L1–L5.
//! Every rule concludes only from real-time precedence of stamps (`a.ret < b.call`).

use super::work::{Mode, Outcome, Prop, ONCE_BASE, SENTINEL_BASE};
use super::*;
use std::collections::{BTreeMap, HashMap, HashSet};

#[derive(Clone, Debug)]
pub struct WInfo {
  pub key: u64,
  pub wid: u64,
  pub cost: u64,
  pub ttl_ns: u64,
  pub call: u64,
  /// Upper bound of the write's linearisation point (u64::MAX if unknown).
  pub ret: u64,
  pub is_load: bool,
  pub vnow: u64,
  pub form: &'static str,
}

#[derive(Default)]
pub struct Analysis {
  pub findings: Vec<Finding>,
  pub inconclusive: Vec<String>,
  pub overlapping: bool,
  pub interleaving_sig: u64,
  pub counters: Vec<(String, u64)>,
}

impl Analysis {
  fn count(&mut self, k: &str, n: u64) {
    self.counters.push((k.to_string(), n));
  }
  fn push(&mut self, prop: &'static str, sig: String, summary: String, detail: Value) {
    // one finding per signature and execution is enough
    if self.findings.iter().any(|f| f.prop == prop && f.sig == sig) {
      return;
    }
    self.findings.push(Finding { prop, sig, summary, detail });
  }
}

pub fn write_table(o: &Outcome) -> HashMap<u64, WInfo> {
  let mut first_obs: HashMap<u64, u64> = HashMap::new();
  for e in &o.evs {
    if e.is_open() {
      continue;
    }
    for ob in e.obs.iter().chain(e.removed.iter()) {
      let x = first_obs.entry(ob.wid).or_insert(u64::MAX);
      *x = (*x).min(e.ret);
    }
  }
  let mut t = HashMap::new();
  for e in &o.evs {
    for w in &e.writes {
      t.insert(
        w.wid,
        WInfo {
          key: w.key,
          wid: w.wid,
          cost: w.cost,
          ttl_ns: w.ttl_ns,
          call: e.call,
          ret: if e.is_open() { u64::MAX } else { e.ret },
          is_load: false,
          vnow: e.vnow,
          form: e.kind.name(),
        },
      );
    }
  }
  let gttl = {
    let a = o.scn.cache.ttl.map(|d| d.as_nanos() as u64).unwrap_or(0);
    let b = o.scn.cache.tti.map(|d| d.as_nanos() as u64).unwrap_or(0);
    match (a, b) {
      (0, x) | (x, 0) => x,
      (x, y) => x.min(y),
    }
  };
  for l in &o.loads {
    t.insert(
      l.wid,
      WInfo {
        key: l.key,
        wid: l.wid,
        cost: l.cost,
        ttl_ns: gttl,
        call: l.start,
        // a load is complete at the latest when somebody has seen its value
        ret: first_obs.get(&l.wid).copied().unwrap_or(u64::MAX),
        is_load: true,
        vnow: l.vnow,
        form: "load",
      },
    );
  }
  t
}

fn overlap_and_sig(o: &Outcome, a: &mut Analysis) {
  // two operations of different threads touching the same key (or a clear / iteration)
  // whose intervals intersect
  let mut per_key: BTreeMap<u64, Vec<(u64, u64, u16)>> = BTreeMap::new();
  for e in &o.evs {
    if e.is_open() || matches!(e.kind, Kind::RunMaintenance | Kind::Metrics) {
      continue;
    }
    let keys: &[u64] = if e.keys.is_empty() { &[u64::MAX] } else { &e.keys };
    for &k in keys {
      per_key.entry(k).or_default().push((e.call, e.ret, e.thread));
    }
  }
  let globals = per_key.remove(&u64::MAX).unwrap_or_default();
  let mut pairs = 0u64;
  for (_, v) in per_key.iter_mut() {
    v.extend(globals.iter().copied());
    v.sort();
    let mut max_ret = 0;
    let mut max_thread = u16::MAX;
    for &(call, ret, th) in v.iter() {
      if call < max_ret && th != max_thread {
        pairs += 1;
      }
      if ret > max_ret {
        max_ret = ret;
        max_thread = th;
      }
    }
  }
  a.overlapping = pairs > 0;
  a.count("overlapping_same_key_pairs", pairs);
  let mut h = vh_core::Fnv::default();
  let mut pts: Vec<(u64, u16, u8, u8)> = Vec::new();
  for e in o.evs.iter().take(400) {
    pts.push((e.call, e.thread, e.kind as u8, 0));
    if !e.is_open() {
      pts.push((e.ret, e.thread, e.kind as u8, 1));
    }
  }
  pts.sort();
  for p in pts.iter().take(512) {
    h.u64(((p.1 as u64) << 16) | ((p.2 as u64) << 8) | p.3 as u64);
  }
  a.interleaving_sig = h.finish();
}

fn panics(o: &Outcome, a: &mut Analysis, prop: &'static str) {
  for e in &o.evs {
    if let Some(p) = &e.panicked {
      if e.note == u64::MAX || !p.contains("/repo/") {
        a.inconclusive.push(format!("HARNESS-PANIC {}", p));
      } else {
        a.push(
          prop,
          format!("api/panic/{}", e.kind.name()),
          format!("{} panicked inside the library: {}", e.form(), p),
          json!({"op": e.to_json()}),
        );
      }
    }
  }
}

// ------------------------------------------------------------------------------------------
// C11
// ------------------------------------------------------------------------------------------

/// Read forms share code paths: point lookups, iteration, entry API. The signature names
/// the family (the exact form is in the summary / witness).
fn family(k: Kind) -> &'static str {
  match k {
    Kind::Iter | Kind::IterSnapshot => "iteration",
    Kind::Entry => "entry",
    _ => "lookup",
  }
}

struct Rd<'a> {
  e: &'a Ev,
  wid: u64,
}

pub fn check_register(o: &Outcome, wt: &HashMap<u64, WInfo>, a: &mut Analysis) {
  const P: &str = "C11";
  let mut writes: HashMap<u64, Vec<&WInfo>> = HashMap::new();
  for w in wt.values() {
    writes.entry(w.key).or_default().push(w);
  }
  // removals: (call, ret, form) per key; clear applies to every key
  let mut rem: HashMap<u64, Vec<(u64, u64, &'static str)>> = HashMap::new();
  let mut clears: Vec<(u64, u64, &'static str)> = Vec::new();
  for e in &o.evs {
    if e.is_open() || e.panicked.is_some() || !e.kind.is_removal() {
      continue;
    }
    if e.kind == Kind::Clear {
      clears.push((e.call, e.ret, "clear"));
    } else {
      for &k in &e.keys {
        rem.entry(k).or_default().push((e.call, e.ret, e.kind.name()));
      }
    }
  }
  let mut reads: HashMap<u64, Vec<Rd>> = HashMap::new();
  let mut n_reads = 0u64;
  let mut n_none = 0u64;
  for e in &o.evs {
    if e.is_open() || e.panicked.is_some() || !e.kind.is_read() {
      continue;
    }
    if e.obs.is_empty() {
      n_none += 1;
    }
    let own: HashSet<u64> = e.writes.iter().map(|w| w.wid).collect();
    for ob in &e.obs {
      if own.contains(&ob.wid) {
        continue; // the entry closure's own value is a write, not a read
      }
      n_reads += 1;
      // rule 0: wrong key / unknown value
      match wt.get(&ob.wid) {
        None => {
          a.push(P, format!("register/phantom-value/{}", family(e.kind)),
            format!("{} for key {} returned value id {} that no write created", e.form(), ob.key, ob.wid),
            json!({"read": e.to_json()}));
          continue;
        }
        Some(w) if w.key != ob.key || ob.vkey != ob.key => {
          a.push(P, format!("register/cross-key/{}", family(e.kind)),
            format!("{} for key {} returned a value written for key {}", e.form(), ob.key, w.key),
            json!({"read": e.to_json(), "write_key": w.key, "wid": w.wid}));
          continue;
        }
        _ => {}
      }
      reads.entry(ob.key).or_default().push(Rd { e, wid: ob.wid });
    }
  }
  a.count("c11/reads_returning_a_value_checked", n_reads);
  a.count("c11/reads_returning_nothing", n_none);
  let mut stale_cand = 0u64;
  // first return of a fetch_with that handed out each loaded value
  let mut fw_ret: HashMap<u64, u64> = HashMap::new();
  for rds in reads.values() {
    for r in rds {
      if r.e.kind == Kind::FetchWith && !r.e.is_open() {
        let x = fw_ret.entry(r.wid).or_insert(u64::MAX);
        *x = (*x).min(r.e.ret);
      }
    }
  }
  for (key, rds) in &reads {
    let ws = writes.get(key).map(|v| v.as_slice()).unwrap_or(&[]);
    let rs = rem.get(key).map(|v| v.as_slice()).unwrap_or(&[]);
    for r in rds {
      let w = &wt[&r.wid];
      // A fetch_with returning a loaded value may have joined the load itself. The load is over (value published,
      // in-flight marker retired, waiters released) at the latest when some fetch_with has *returned* that value -
      // other operations can see the value in the map earlier, while the load is still in flight. A fetch_with
      // invoked after that point is an ordinary read of a resident value.
      let mut w_ret = w.ret;
      if r.e.kind == Kind::FetchWith && w.is_load {
        let load_over = fw_ret.get(&r.wid).copied().unwrap_or(u64::MAX);
        if !(load_over < r.e.call) {
          continue; // leader or joiner of that load
        }
        w_ret = load_over;
      }
      if w_ret == u64::MAX {
        continue;
      }
      for w2 in ws {
        if w2.wid != w.wid && w_ret < w2.call && w2.ret < r.e.call {
          a.push(P, format!("register/stale-read/{}", family(r.e.kind)),
            format!("{} of key {} returned value {} although the later write {} ({}) had completed before the read was invoked",
              r.e.form(), key, w.wid, w2.wid, w2.form),
            json!({"key": key, "read": r.e.to_json(), "returned_write": {"wid": w.wid, "call": w.call, "ret": w.ret, "form": w.form},
              "overwriting_write": {"wid": w2.wid, "call": w2.call, "ret": w2.ret, "form": w2.form}}));
        }
        stale_cand += 1;
      }
      for &(rc, rr, form) in rs.iter().chain(clears.iter()) {
        if w_ret < rc && rr < r.e.call {
          a.push(P, format!("register/resurrection/{}", family(r.e.kind)),
            format!("{} of key {} returned value {} although a {} invoked after that write had completed before the read was invoked",
              r.e.form(), key, w.wid, form),
            json!({"key": key, "read": r.e.to_json(), "returned_write": {"wid": w.wid, "call": w.call, "ret": w.ret, "form": w.form},
              "removal": {"form": form, "call": rc, "ret": rr}}));
        }
      }
    }
    // new-old inversion: r1 saw w2, returned; afterwards r saw w1 which had completed before
    // r1 was even invoked (so w1 < w2 < r1 < r in every linearisation)
    if rds.len() <= 400 {
      for r in rds {
        let w1 = &wt[&r.wid];
        if w1.ret == u64::MAX || (r.e.kind == Kind::FetchWith && w1.is_load) {
          continue;
        }
        for r1 in rds {
          if r1.wid == r.wid || r1.e.ret >= r.e.call || w1.ret >= r1.e.call {
            continue;
          }
          let w2 = &wt[&r1.wid];
          if r1.e.kind == Kind::FetchWith && w2.is_load {
            continue;
          }
          a.push(P, format!("register/new-old-inversion/{}", family(r.e.kind)),
            format!("key {}: {} returned {} after an earlier completed {} had already returned the newer value {}",
              key, r.e.form(), w1.wid, r1.e.form(), w2.wid),
            json!({"key": key, "earlier_read": r1.e.to_json(), "later_read": r.e.to_json(),
              "old_write": {"wid": w1.wid, "call": w1.call, "ret": w1.ret}, "new_write": {"wid": w2.wid, "call": w2.call, "ret": w2.ret}}));
        }
      }
    }
  }
  a.count("c11/read_vs_write_pairs_examined", stale_cand);

  // ---- compute / try_compute atomicity: per value instance the successful closures must
  // have produced the counter values 1..m exactly once each
  let mut bumps: HashMap<u64, Vec<(u64, &Ev)>> = HashMap::new();
  let mut n_ok = 0u64;
  for e in &o.evs {
    if !matches!(e.kind, Kind::Compute | Kind::TryCompute) || e.is_open() || e.panicked.is_some() {
      continue;
    }
    let ok = e.flag == Some(true);
    if ok {
      n_ok += 1;
    }
    if ok != (e.bumps.len() == 1) {
      a.push(P, format!("compute/report-mismatch/{}", e.kind.name()),
        format!("{} reported {:?} but its closure ran {} time(s)", e.form(), e.flag, e.bumps.len()),
        json!({"op": e.to_json()}));
    }
    for &(wid, n) in &e.bumps {
      bumps.entry(wid).or_default().push((n, e));
    }
  }
  a.count("c11/computes_succeeded", n_ok);
  for (wid, v) in bumps.iter_mut() {
    v.sort_by_key(|x| x.0);
    for (i, (n, e)) in v.iter().enumerate() {
      if *n != i as u64 + 1 {
        let other = if i > 0 { v[i - 1].1.to_json() } else { Value::Null };
        a.push(P, format!("compute/lost-update/{}", e.kind.name()),
          format!("value {}: the {}th successful read-modify-write produced counter {} (two updates were applied to the same old value, or one was lost)", wid, i + 1, n),
          json!({"wid": wid, "op": e.to_json(), "previous": other, "counters": v.iter().map(|x| x.0).collect::<Vec<_>>()}));
        break;
      }
    }
  }
  // final counters: quiescent reads (note 7) must show all successful increments
  let mut finals = 0u64;
  for e in o.evs.iter().filter(|e| e.kind == Kind::Get && e.note == 7) {
    for ob in &e.obs {
      let m = bumps.get(&ob.wid).map(|v| v.len() as u64).unwrap_or(0);
      finals += 1;
      if ob.n != m {
        a.push(P, "compute/final-counter-mismatch/get".to_string(),
          format!("key {} value {}: final counter {} but {} compute/try_compute calls reported success", ob.key, ob.wid, ob.n, m),
          json!({"key": ob.key, "wid": ob.wid, "final": ob.n, "successes": m}));
      }
    }
  }
  a.count("c11/final_counters_checked", finals);

  // ---- or_insert_with on once-keys: nothing can remove them (unbounded, no ttl, no clear,
  // never targeted by remove) so exactly one closure may run and everybody shares its value
  let mut per_once: BTreeMap<u64, Vec<&Ev>> = BTreeMap::new();
  for e in &o.evs {
    if e.kind == Kind::Entry && !e.is_open() && e.panicked.is_none() && e.keys[0] >= ONCE_BASE && e.keys[0] < SENTINEL_BASE {
      per_once.entry(e.keys[0]).or_default().push(e);
    }
  }
  for (k, v) in &per_once {
    let ran: Vec<&&Ev> = v.iter().filter(|e| e.closure_ran).collect();
    let vals: HashSet<u64> = v.iter().flat_map(|e| e.obs.iter().map(|o| o.wid)).collect();
    a.count("c11/once_key_entry_calls", v.len() as u64);
    if ran.len() != 1 || vals.len() != 1 {
      a.push(P, "entry/or-insert-not-once/or_insert_with".to_string(),
        format!("vacant key {} (never removed): {} or_insert_with closures ran and {} distinct values were handed out", k, ran.len(), vals.len()),
        json!({"key": k, "calls": v.iter().map(|e| e.to_json()).collect::<Vec<_>>()}));
    }
  }
}

// ------------------------------------------------------------------------------------------
// C13
// ------------------------------------------------------------------------------------------

pub fn check_accounting(o: &Outcome, wt: &HashMap<u64, WInfo>, a: &mut Analysis) {
  const P: &str = "C13";
  let Some(au) = &o.audit else { return };
  a.count("c13/audit_rounds", au.rounds as u64);
  if au.canary_gap_us > 250_000 {
    a.inconclusive.push(format!("C13 audit with unhealthy canary ({} us)", au.canary_gap_us));
    return;
  }
  if !au.stable {
    a.inconclusive.push(format!("C13 audit: no 3 identical consecutive rounds within {} rounds", au.rounds));
    return;
  }
  let cost = |wid: &u64| wt.get(wid).map(|w| w.cost);
  let mut sum_iter = 0u64;
  for (_, wid) in &au.resident {
    match cost(wid) {
      Some(c) => sum_iter += c,
      None => {
        a.inconclusive.push(format!("C13 audit: resident value {} unknown to the harness", wid));
        return;
      }
    }
  }
  let sum_swept: u64 = au.swept.iter().map(|(_, w)| cost(w).unwrap_or(0)).sum();
  let cap = o.scn.cache.capacity.unwrap_or(u64::MAX);
  a.count("c13/audits", 1);
  a.count("c13/resident_entries_at_quiescence", au.resident.len() as u64);
  a.count("c13/resident_cost_at_quiescence", sum_iter);
  let expiry_possible = o.scn.cache.ttl.is_some() || o.scn.cache.tti.is_some() || o.scn.weights[Kind::InsertTtl as usize] > 0;
  let mode = o.scn.mode.name();
  // Variant = what the history proves about possible causes (labelling only; the alarm does
  // not depend on it): capacity evictions happened (evicted_by_capacity > 0) and / or a
  // clear() was issued; else TTL/TTI cleanup removed something; else none of these.
  let mget = |k: &str| au.metrics.get(k).and_then(|v| v.as_u64()).unwrap_or(0);
  let cleared = o.evs.iter().any(|e| e.kind == Kind::Clear);
  let variant = if mget("evicted_by_capacity") > 0 {
    if cleared { "capacity-eviction+clear" } else { "capacity-eviction" }
  } else if cleared {
    "clear"
  } else if mget("evicted_by_ttl") + mget("evicted_by_tti") > 0 {
    "expiry"
  } else {
    "plain"
  };
  let mut a1_fired = false;
  let detail = |what: &str| {
    json!({"what": what, "current_cost_at_quiescence": au.cost_stable, "sum_cost_resident_by_iteration": sum_iter,
      "resident": au.resident, "sum_cost_handed_back_by_remove_sweep": sum_swept, "current_cost_before_sweep": au.cost_before_sweep,
      "current_cost_after_everything_removed": au.cost_after_sweep, "capacity": o.scn.cache.capacity, "metrics": au.metrics,
      "maintenance_rounds": au.rounds})
  };
  if !expiry_possible {
    a.count("c13/A1_iteration_equalities_checked", 1);
    if au.cost_stable != sum_iter {
      let dir = if au.cost_stable > sum_iter && au.cost_stable < (1 << 62) { "over" } else { "under" };
      a1_fired = true;
      a.push(P, format!("accounting/current-cost-mismatch/{}", variant),
        format!("at quiescence current_cost = {} ({}) but the resident entries cost {} (policy {}, {} shards, capacity {}, workload {})",
          au.cost_stable as i64, dir, sum_iter, o.scn.cache.policy.name(), o.scn.cache.shards, cap, mode),
        detail("A1"));
    }
  }
  if !au.empty_confirmed {
    a.inconclusive.push("C13 audit: cache did not stay empty after the remove sweep".into());
  } else {
    a.count("c13/A1_empty_cache_cost_checked", 1);
    if au.cost_after_sweep != 0 && !a1_fired {
      let dir = if au.cost_after_sweep < (1 << 62) { "over" } else { "under" };
      a1_fired = true;
      a.push(P, format!("accounting/current-cost-mismatch/{}", variant),
        format!("after every entry was removed at quiescence current_cost = {} ({}) instead of 0 (policy {}, {} shards, workload {})",
          au.cost_after_sweep as i64, dir, o.scn.cache.policy.name(), o.scn.cache.shards, mode),
        detail("A1-empty"));
    }
  }
  // A2 only when the books are right: a wrong current_cost trivially misleads the capacity gate
  a.count("c13/A2_capacity_checked", 1);
  let resident_cost = sum_iter.max(sum_swept);
  if !a1_fired && resident_cost > cap {
    a.push(P, format!("capacity/exceeded-after-maintenance/{}", o.scn.cache.policy.name()),
      format!("after {} maintenance rounds at quiescence the resident entries cost {} > capacity {} (policy {}, {} shards, mode {}); current_cost agrees = {}",
        au.rounds, resident_cost, cap, o.scn.cache.policy.name(), o.scn.cache.shards, mode, au.cost_stable),
      detail("A2"));
  }
}

// ------------------------------------------------------------------------------------------
// C16
// ------------------------------------------------------------------------------------------

pub fn check_listener(o: &Outcome, wt: &HashMap<u64, WInfo>, a: &mut Analysis) {
  const P: &str = "C16";
  let notifs: Vec<&Notif> = o.notifs.iter().filter(|n| n.key < SENTINEL_BASE).collect();
  for r in 0..3u8 {
    a.count(&format!("c16/notifications/{}", reason_name(r)), notifs.iter().filter(|n| n.reason == r).count() as u64);
  }
  // removal ops by key
  let mut removed_by: HashMap<u64, Vec<&Ev>> = HashMap::new(); // wid -> remove ops that returned it
  let mut inval: HashMap<u64, Vec<&Ev>> = HashMap::new(); // key -> invalidate(true) / multi_invalidate ops
  for e in &o.evs {
    for ob in &e.removed {
      removed_by.entry(ob.wid).or_default().push(e);
    }
    if (e.kind == Kind::Invalidate && (e.flag == Some(true) || e.is_open())) || e.kind == Kind::MultiInvalidate {
      for &k in &e.keys {
        inval.entry(k).or_default().push(e);
      }
    }
  }
  let mut seen: HashMap<u64, &Notif> = HashMap::new();
  for n in &notifs {
    let rname = reason_name(n.reason);
    // L1
    let Some(w) = wt.get(&n.wid) else {
      a.push(P, format!("listener/phantom-notification/{}", rname),
        format!("listener was told ({}, value {}) but no such value was ever written", n.key, n.wid), json!({"notification": format!("{:?}", n)}));
      continue;
    };
    if w.key != n.key || n.vkey != n.key {
      a.push(P, format!("listener/phantom-notification/{}", rname),
        format!("listener was told key {} with value {} which was written for key {}", n.key, n.wid, w.key), json!({"notification": format!("{:?}", n)}));
      continue;
    }
    // L2
    if let Some(first) = seen.get(&n.wid) {
      let mut rs = [reason_name(first.reason), rname];
      rs.sort();
      a.push(P, format!("listener/duplicate-notification/{}-vs-{}", rs[0], rs[1]),
        format!("value {} of key {} was notified twice ({} then {})", n.wid, n.key, reason_name(first.reason), rname),
        json!({"first": format!("{:?}", first), "second": format!("{:?}", n),
          "remove_ops": removed_by.get(&n.wid).map(|v| v.iter().map(|e| e.to_json()).collect::<Vec<_>>())}));
    } else {
      seen.insert(n.wid, n);
    }
    // L4
    match n.reason {
      2 => {
        let by_remove = removed_by.get(&n.wid).map_or(false, |v| v.iter().any(|e| e.call < n.stamp));
        let by_inval = inval.get(&n.key).map_or(false, |v| v.iter().any(|e| e.call < n.stamp));
        if !by_remove && !by_inval {
          a.push(P, "listener/wrong-reason/invalidated-without-remove".to_string(),
            format!("value {} of key {} notified as Invalidated but no remove/invalidate that found it was invoked before", n.wid, n.key),
            json!({"notification": format!("{:?}", n)}));
        }
      }
      1 => {
        if w.ttl_ns == 0 {
          a.push(P, "listener/wrong-reason/expired-without-ttl".to_string(),
            format!("value {} of key {} (written by {}) has no TTL/TTI but was notified as Expired", n.wid, n.key, w.form),
            json!({"notification": format!("{:?}", n), "write": format!("{:?}", w)}));
        } else if n.vnow < w.vnow + w.ttl_ns {
          a.push(P, "listener/wrong-reason/expired-before-deadline".to_string(),
            format!("value {} of key {} (written by {} at virtual t>={} ms with ttl {} ms) was removed and notified as Expired at virtual t<={} ms",
              n.wid, n.key, w.form, w.vnow / 1_000_000, w.ttl_ns / 1_000_000, n.vnow / 1_000_000),
            json!({"notification": format!("{:?}", n), "write": format!("{:?}", w), "cache": o.scn.cache.describe()}));
        }
      }
      _ => {
        if !o.scn.cache.bounded() {
          a.push(P, "listener/wrong-reason/capacity-on-unbounded".to_string(),
            format!("value {} of key {} notified as Capacity eviction in an unbounded cache", n.wid, n.key), json!({"notification": format!("{:?}", n)}));
        }
      }
    }
  }
  // L3: reads invoked after the notification was recorded
  let mut l3 = 0u64;
  for e in &o.evs {
    if !e.kind.is_read() || e.is_open() {
      continue;
    }
    for ob in &e.obs {
      if let Some(n) = seen.get(&ob.wid) {
        l3 += 1;
        let w = &wt[&ob.wid];
        if e.call > n.stamp && !(e.kind == Kind::FetchWith && w.is_load) && !e.writes.iter().any(|x| x.wid == ob.wid) {
          a.push(P, format!("listener/read-after-notification/{}", reason_name(n.reason)),
            format!("{} invoked after the {} notification of value {} (key {}) was recorded still returned it", e.form(), reason_name(n.reason), ob.wid, ob.key),
            json!({"notification": format!("{:?}", n), "read": e.to_json()}));
        }
      }
    }
  }
  a.count("c16/reads_of_notified_values_examined", l3);
  // L5 completeness
  if o.scn.mode == Mode::KeepUp {
    let total_values = wt.len() as u64 + o.notifs.iter().filter(|n| n.key >= SENTINEL_BASE).count() as u64;
    if !o.flushed {
      a.inconclusive.push("C16 keep-up run: notifier not proven drained".into());
    } else if total_values > 126 {
      a.inconclusive.push("C16 keep-up run: more values than the notification queue holds".into());
    } else {
      a.count("c16/L5_runs_judged", 1);
      let mut cnt: HashMap<u64, u32> = HashMap::new();
      for n in &notifs {
        *cnt.entry(n.wid).or_default() += 1;
      }
      for w in wt.values() {
        a.count("c16/L5_values_judged", 1);
        let c = cnt.get(&w.wid).copied().unwrap_or(0);
        if c == 0 {
          let cause = if removed_by.contains_key(&w.wid) { "remove" } else { "background" };
          a.push(P, format!("listener/missing-notification/{}", cause),
            format!("value {} of key {} left the cache ({}) but the keeping-up listener was never told (at most {} values existed, queue holds 128)",
              w.wid, w.key, if cause == "remove" { "remove returned it" } else { "not resident at the end, never removed by the user: evicted or expired" }, total_values),
            json!({"write": format!("{:?}", w), "remove_ops": removed_by.get(&w.wid).map(|v| v.iter().map(|e| e.to_json()).collect::<Vec<_>>()),
              "metrics": o.metrics, "notifications": o.notifs.len()}));
        }
      }
    }
  }
}

pub fn analyse(o: &Outcome) -> Analysis {
  let mut a = Analysis::default();
  overlap_and_sig(o, &mut a);
  if !o.complete {
    a.inconclusive.push(format!("execution did not finish (watchdog): open ops {}", Value::Array(o.open_ops.clone())));
    return a;
  }
  let wt = write_table(o);
  let own: &'static str = match o.scn.prop {
    Prop::C11 => "C11",
    Prop::C13 => "C13",
    Prop::C16 => "C16",
  };
  panics(o, &mut a, own);
  check_register(o, &wt, &mut a);
  check_accounting(o, &wt, &mut a);
  if o.scn.listener && o.scn.prop != Prop::C13 {
    // (the C13 audit removes entries outside the history)
    check_listener(o, &wt, &mut a);
  }
  a
}
