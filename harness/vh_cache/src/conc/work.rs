//! Scenario generation and threaded execution for `cache_hist` (C11 / C13 / C16).

use super::*;
use futures_util::StreamExt;
use std::sync::atomic::{AtomicBool, AtomicI64};
use std::time::Instant;
use vh_core::chaos;
use vh_core::stuck::Canary;

#[derive(Clone, Copy, Debug, PartialEq, Eq)]
pub enum Prop {
  C11,
  C13,
  C16,
}
impl Prop {
  pub fn name(self) -> &'static str {
    match self {
      Prop::C11 => "C11",
      Prop::C13 => "C13",
      Prop::C16 => "C16",
    }
  }
}

/// Workload class. For C13 the class names the *one* risky feature put on top of the base
/// mix (so a cost drift can be attributed); for C16 `KeepUp` is the completeness (L5) class.
#[derive(Clone, Copy, Debug, PartialEq, Eq)]
pub enum Mode {
  General,
  Base,
  Remove,
  Overwrite,
  Clear,
  Loader,
  Ttl,
  Oversize,
  Mixed,
  KeepUp,
}
impl Mode {
  pub fn name(self) -> &'static str {
    match self {
      Mode::General => "general",
      Mode::Base => "base",
      Mode::Remove => "remove",
      Mode::Overwrite => "overwrite",
      Mode::Clear => "clear",
      Mode::Loader => "loader",
      Mode::Ttl => "ttl",
      Mode::Oversize => "oversize",
      Mode::Mixed => "mixed",
      Mode::KeepUp => "keepup",
    }
  }
  pub fn from_name(s: &str) -> Option<Mode> {
    [Mode::General, Mode::Base, Mode::Remove, Mode::Overwrite, Mode::Clear, Mode::Loader, Mode::Ttl, Mode::Oversize, Mode::Mixed, Mode::KeepUp]
      .into_iter()
      .find(|m| m.name() == s)
  }
}

pub const KEY_BASE: u64 = 100;
pub const ONCE_BASE: u64 = 1_000_000;
pub const SENTINEL_BASE: u64 = 9_000_000;

#[derive(Clone, Debug)]
pub struct Scn {
  pub exec: u64,
  pub seed: u64,
  pub prop: Prop,
  pub mode: Mode,
  pub cache: CacheCfg,
  pub threads: usize,
  pub keys: u64,
  pub ops: usize,
  pub weights: [u32; N_KINDS],
  pub use_async: bool,
  pub maint_thread: bool,
  pub clock_thread: bool,
  pub loader: bool,
  pub listener: bool,
  pub slow_listener_us: u64,
  pub once_keys: u64,
  /// Costs are a pure function of the key (overwrites keep the cost).
  pub fixed_cost: bool,
  pub max_cost: u64,
  pub zero_cost: bool,
  pub oversize: bool,
  /// Every key is written at most once (fresh key per write), bounded number of values.
  pub insert_once: bool,
  pub max_values: i64,
  pub custom_ttl_ms: (u64, u64),
  pub allow_concurrent_clear: bool,
  pub profile: chaos::Profile,
}

impl Scn {
  pub fn describe(&self) -> Value {
    let mut w = serde_json::Map::new();
    for k in ALL_KINDS {
      if self.weights[k as usize] > 0 {
        w.insert(k.name().into(), self.weights[k as usize].into());
      }
    }
    json!({"exec": self.exec, "seed": self.seed, "prop": self.prop.name(), "mode": self.mode.name(),
      "cache": self.cache.describe(), "threads": self.threads, "keys": self.keys, "ops_per_thread": self.ops,
      "weights": w, "async_handle_too": self.use_async, "maintenance_thread": self.maint_thread,
      "clock_thread": self.clock_thread, "loader": self.loader, "listener": self.listener,
      "slow_listener_us": self.slow_listener_us, "once_keys": self.once_keys, "fixed_cost_per_key": self.fixed_cost,
      "max_cost": self.max_cost, "zero_cost": self.zero_cost, "oversize": self.oversize, "insert_once": self.insert_once,
      "max_values": self.max_values, "custom_ttl_ms": [self.custom_ttl_ms.0, self.custom_ttl_ms.1],
      "chaos": format!("{:?}", self.profile)})
  }
  pub fn shape_sig(&self) -> u64 {
    let mut h = vh_core::Fnv::default();
    h.u64(self.prop as u64);
    h.u64(self.mode as u64);
    h.u64(self.cache.policy as u64 + if self.cache.default_policy { 100 } else { 0 });
    h.u64(self.cache.shards as u64);
    h.u64(self.cache.capacity.unwrap_or(0));
    h.u64(self.threads as u64);
    h.u64(self.keys);
    h.u64(self.cache.ttl.map(|d| d.as_millis() as u64).unwrap_or(0));
    h.finish()
  }
  pub fn cost_of_key(&self, key: u64) -> u64 {
    1 + splitmix(key ^ self.seed.rotate_left(13)) % self.max_cost.max(1)
  }
  fn pick_cost(&self, key: u64, rng: &mut Rng) -> u64 {
    if self.fixed_cost {
      return self.cost_of_key(key);
    }
    if self.zero_cost && rng.chance(1, 5) {
      return 0;
    }
    if self.oversize && rng.chance(1, 12) {
      return self.cache.capacity.unwrap_or(50) + 1 + rng.below(5);
    }
    1 + rng.below(self.max_cost.max(1))
  }
}

fn w(pairs: &[(Kind, u32)]) -> [u32; N_KINDS] {
  let mut a = [0u32; N_KINDS];
  for &(k, v) in pairs {
    a[k as usize] = v;
  }
  a
}

pub struct GenOpts {
  pub policy: Option<Policy>,
  pub mode: Option<Mode>,
  pub shards: Option<usize>,
  pub no_chaos: bool,
  pub concurrent_clear: bool,
}

pub fn gen_scn(rng: &mut Rng, exec: u64, prop: Prop, o: &GenOpts) -> Scn {
  let seed = rng.next();
  let policy = o.policy.unwrap_or(ALL_POLICIES[(exec % 8) as usize]);
  let profile = if o.no_chaos { chaos::Profile::OFF } else { pick_profile(rng) };
  let janitor_tick_us = rng.range(1000, 5000);
  let maint_chance = *rng.pick(&[1u32, 1, 1, 4, 16]);
  let mut s = Scn {
    exec,
    seed,
    prop,
    mode: Mode::General,
    cache: CacheCfg {
      policy,
      default_policy: false,
      shards: 1,
      capacity: None,
      ttl: None,
      tti: None,
      swr: None,
      janitor_tick_us,
      maint_chance,
      introspection: rng.chance(1, 4),
      hseed: rng.next(),
      wheel: None,
    },
    threads: 2,
    keys: 8,
    ops: 50,
    weights: [0; N_KINDS],
    use_async: true,
    maint_thread: true,
    clock_thread: false,
    loader: false,
    listener: false,
    slow_listener_us: 0,
    once_keys: 0,
    fixed_cost: false,
    max_cost: 3,
    zero_cost: false,
    oversize: false,
    insert_once: false,
    max_values: i64::MAX,
    custom_ttl_ms: (1_800_000, 7_200_000),
    allow_concurrent_clear: o.concurrent_clear,
    profile,
  };
  use Kind::*;
  match prop {
    Prop::C11 => {
      s.threads = *rng.pick(&[2usize, 2, 3, 3, 4, 4, 5, 6, 8, 12]);
      s.keys = rng.range(3, 20);
      s.ops = rng.range(20, 160) as usize;
      s.cache.shards = o.shards.unwrap_or(*rng.pick(&[1usize, 2, 3, 6, 8]));
      s.cache.capacity = match rng.below(3) {
        0 => Some(rng.range(3, 8)),
        1 => Some(rng.range(20, 60)),
        _ => None,
      };
      s.cache.default_policy = rng.chance(1, 10);
      if rng.chance(1, 3) {
        s.cache.ttl = Some(Duration::from_secs(3600));
      }
      s.loader = rng.chance(2, 3);
      let clear = rng.chance(1, 2);
      if s.cache.capacity.is_none() && s.cache.ttl.is_none() && !clear {
        s.once_keys = rng.range(1, 3);
      }
      s.weights = w(&[
        (Insert, 14), (InsertTtl, 4), (Remove, 6), (Invalidate, 4), (Clear, if clear { 1 } else { 0 }),
        (MultiInsert, 3), (MultiRemove, 2), (MultiInvalidate, 1), (Entry, 7), (Compute, 5), (TryCompute, 4),
        (FetchWith, if s.loader { 6 } else { 0 }), (Get, 10), (Fetch, 8), (Peek, 6), (MultiGet, 4), (Iter, 2),
        (IterSnapshot, 2), (RunMaintenance, 1), (Metrics, 1),
      ]);
      // a once-key must never be expired / evicted / removed: InsertTtl only touches normal keys
    }
    Prop::C13 => {
      let modes = [Mode::Base, Mode::Remove, Mode::Overwrite, Mode::Clear, Mode::Loader, Mode::Ttl, Mode::Oversize, Mode::Mixed];
      s.mode = o.mode.unwrap_or(modes[((exec / 8) % modes.len() as u64) as usize]);
      s.threads = *rng.pick(&[2usize, 2, 3, 4, 4, 6, 8]);
      s.keys = rng.range(8, 48);
      s.ops = rng.range(30, 220) as usize;
      s.cache.shards = o.shards.unwrap_or(*rng.pick(&[1usize, 4, 5, 16]));
      // a quarter of the runs can never reach the capacity: no capacity eviction at all
      s.cache.capacity = Some(if rng.chance(1, 4) { 1_000_000 } else { rng.range(5, 120) });
      s.max_cost = rng.range(1, 8);
      s.fixed_cost = true;
      s.listener = rng.chance(1, 3);
      let m = s.mode;
      let mixed = m == Mode::Mixed;
      if m == Mode::Overwrite || mixed {
        s.fixed_cost = false;
      }
      if m == Mode::Oversize || mixed {
        s.fixed_cost = false;
        s.zero_cost = true;
        s.oversize = true;
      }
      if m == Mode::Loader || mixed {
        s.loader = true;
      }
      if m == Mode::Ttl || mixed {
        s.cache.ttl = if rng.chance(2, 3) { Some(Duration::from_millis(rng.range(500, 5000))) } else { None };
        s.cache.tti = if s.cache.ttl.is_none() || rng.chance(1, 4) { Some(Duration::from_millis(rng.range(500, 5000))) } else { None };
        s.custom_ttl_ms = (300, 6000);
        s.clock_thread = true;
        if rng.chance(1, 2) {
          s.cache.wheel = Some((8, Duration::from_millis(500)));
        }
        // stale-while-revalidate refreshes overwrite a resident (stale) entry from the loader thread
        if s.loader && s.cache.ttl.is_some() && rng.chance(1, 2) {
          s.cache.swr = Some(Duration::from_millis(rng.range(500, 4000)));
        }
      }
      let rm = if m == Mode::Remove || mixed { 1 } else { 0 };
      let cl = if m == Mode::Clear || mixed { 1 } else { 0 };
      let ld = if s.loader { 1 } else { 0 };
      let tt = if m == Mode::Ttl || mixed { 1 } else { 0 };
      s.weights = w(&[
        (Insert, 22), (InsertTtl, 6 * tt), (Remove, 8 * rm), (Invalidate, 4 * rm), (Clear, cl),
        (MultiInsert, 4), (MultiRemove, 3 * rm), (MultiInvalidate, rm), (Entry, 5 * ld),
        (FetchWith, 8 * ld), (Get, 6), (Fetch, 4), (MultiGet, 1), (Iter, 1), (RunMaintenance, 2), (Metrics, 1),
      ]);
    }
    Prop::C16 => {
      s.listener = true;
      s.cache.shards = o.shards.unwrap_or(*rng.pick(&[1usize, 2, 4, 6, 8]));
      let keepup = match o.mode {
        Some(m) => m == Mode::KeepUp,
        None => exec % 2 == 0,
      };
      let ttl_on = rng.chance(1, 2);
      if ttl_on {
        // ttl only / tti only / both / per-entry ttl only
        match rng.below(4) {
          0 => s.cache.ttl = Some(Duration::from_millis(rng.range(1000, 20_000))),
          1 => s.cache.tti = Some(Duration::from_millis(rng.range(1000, 10_000))),
          2 => {
            s.cache.ttl = Some(Duration::from_millis(rng.range(4000, 20_000)));
            s.cache.tti = Some(Duration::from_millis(rng.range(1000, 6_000)));
          }
          _ => {}
        }
        s.custom_ttl_ms = (500, 10_000);
        s.clock_thread = true;
      }
      let tt = if ttl_on { 1 } else { 0 };
      // zero is a legal cost: entries that weigh nothing are evicted, expired and notified like any other
      s.zero_cost = rng.chance(1, 2);
      if keepup {
        s.mode = Mode::KeepUp;
        s.threads = rng.range(2, 4) as usize;
        s.ops = rng.range(30, 90) as usize;
        s.insert_once = true;
        s.max_values = 108;
        s.keys = 0;
        s.cache.capacity = if rng.chance(1, 5) { None } else { Some(rng.range(6, 40)) };
        s.max_cost = rng.range(1, 3);
        s.weights = w(&[
          (Insert, 20), (InsertTtl, 6 * tt), (Remove, 10), (Invalidate, 0), (MultiInsert, 2), (MultiRemove, 2),
          (Entry, 3), (Get, 4), (Fetch, 3), (Peek, 2), (MultiGet, 1), (Iter, 1), (RunMaintenance, 1),
        ]);
      } else {
        s.mode = Mode::General;
        s.threads = *rng.pick(&[2usize, 3, 4, 6, 8]);
        s.ops = rng.range(30, 200) as usize;
        s.keys = rng.range(4, 32);
        s.cache.capacity = if rng.chance(1, 6) { None } else { Some(rng.range(4, 60)) };
        s.max_cost = rng.range(1, 4);
        if rng.chance(1, 3) {
          s.slow_listener_us = rng.range(20, 300);
        }
        let clear = if rng.chance(1, 2) { 1 } else { 0 };
        s.weights = w(&[
          (Insert, 20), (InsertTtl, 6 * tt), (Remove, 9), (Invalidate, 5), (Clear, clear), (MultiInsert, 3),
          (MultiRemove, 3), (MultiInvalidate, 1), (Entry, 4), (Compute, 2), (Get, 6), (Fetch, 5), (Peek, 3),
          (MultiGet, 2), (Iter, 2), (IterSnapshot, 1), (RunMaintenance, 1), (Metrics, 1),
        ]);
      }
    }
  }
  s
}

// ------------------------------------------------------------------------------------------
// execution
// ------------------------------------------------------------------------------------------

pub struct Shared {
  pub scn: Scn,
  pub cache: TheCache,
  pub acache: TheAsyncCache,
  pub logs: Vec<Arc<Log>>,
  pub loads: Arc<Mutex<Vec<LoadRec>>>,
  pub next_wid: Arc<AtomicU64>,
  pub next_key: AtomicU64,
  pub values_left: AtomicI64,
  pub stop: AtomicBool,
  pub done: Vec<AtomicBool>,
  pub rec: Option<Arc<Recorder>>,
  /// Operations completed by worker threads only (the watchdog must not be fooled by the
  /// maintenance thread).
  pub worker_progress: AtomicU64,
  /// sync `clear` (locks shards in order) and async `clear` (`join_all` over all shard
  /// locks) deadlock AB-BA when two of them overlap — a liveness defect outside C11/C13/C16.
  /// Clears are serialised by the harness unless `allow_concurrent_clear` is set.
  pub clear_gate: Mutex<()>,
}

impl Shared {
  fn wid(&self) -> u64 {
    self.next_wid.fetch_add(1, Ordering::SeqCst)
  }
  fn ttl_ns_global(&self) -> u64 {
    // values written through plain insert / entry / loader inherit the global ttl; tti also
    // bounds the life from the insert time on (never earlier than insert + tti)
    let a = self.scn.cache.ttl.map(|d| d.as_nanos() as u64).unwrap_or(0);
    let b = self.scn.cache.tti.map(|d| d.as_nanos() as u64).unwrap_or(0);
    match (a, b) {
      (0, x) | (x, 0) => x,
      (x, y) => x.min(y),
    }
  }
  /// Key for a write; `None` when the value budget of an insert-once run is exhausted.
  fn write_key(&self, rng: &mut Rng) -> Option<u64> {
    if self.scn.insert_once {
      if self.values_left.fetch_sub(1, Ordering::SeqCst) <= 0 {
        return None;
      }
      Some(KEY_BASE + self.next_key.fetch_add(1, Ordering::SeqCst))
    } else {
      Some(KEY_BASE + rng.below(self.scn.keys))
    }
  }
  fn any_key(&self, rng: &mut Rng) -> u64 {
    if self.scn.insert_once {
      let n = self.next_key.load(Ordering::SeqCst).max(1);
      // prefer recent keys (still resident with some probability)
      if rng.chance(2, 3) {
        KEY_BASE + n.saturating_sub(1 + rng.below(n.min(12)))
      } else {
        KEY_BASE + rng.below(n)
      }
    } else {
      KEY_BASE + rng.below(self.scn.keys)
    }
  }
  fn some_keys(&self, rng: &mut Rng) -> Vec<u64> {
    let n = rng.range(2, 5);
    let mut v: Vec<u64> = Vec::new();
    for _ in 0..n {
      let k = self.any_key(rng);
      if !v.contains(&k) {
        v.push(k);
      }
    }
    v
  }
}

fn obs_of(key: u64, a: &Arc<Val>) -> Obs {
  Obs { key, vkey: a.key, wid: a.wid, n: a.n }
}

fn block_on<F: std::future::Future>(f: F) -> F::Output {
  futures_executor::block_on(f)
}

pub fn do_op(sh: &Shared, tid: usize, kind: Kind, rng: &mut Rng) {
  let log = &*sh.logs[tid];
  let c = &sh.cache;
  let a = &sh.acache;
  let asy = sh.scn.use_async && rng.chance(1, 2);
  let mut ev = Ev::new(tid, kind, asy);
  let gttl = sh.ttl_ns_global();
  match kind {
    Kind::Insert | Kind::InsertTtl => {
      let Some(k) = sh.write_key(rng) else { return do_op(sh, tid, Kind::Fetch, rng) };
      let wid = sh.wid();
      let cost = sh.scn.pick_cost(k, rng);
      let v = Val { key: k, wid, n: 0 };
      ev.keys = vec![k];
      if kind == Kind::Insert {
        ev.writes = vec![Wr { key: k, wid, cost, ttl_ns: gttl }];
        run_op(log, ev, move || if asy { block_on(a.insert(k, v, cost)) } else { c.insert(k, v, cost) }, |_, _| {});
      } else {
        let ttl = Duration::from_millis(rng.range(sh.scn.custom_ttl_ms.0, sh.scn.custom_ttl_ms.1));
        let tti = sh.scn.cache.tti.map(|d| d.as_nanos() as u64).unwrap_or(u64::MAX);
        ev.writes = vec![Wr { key: k, wid, cost, ttl_ns: (ttl.as_nanos() as u64).min(tti) }];
        run_op(
          log,
          ev,
          move || if asy { block_on(a.insert_with_ttl(k, v, cost, ttl)) } else { c.insert_with_ttl(k, v, cost, ttl) },
          |_, _| {},
        );
      }
    }
    Kind::Remove => {
      let k = sh.any_key(rng);
      ev.keys = vec![k];
      run_op(log, ev, || if asy { block_on(a.remove(&k)) } else { c.remove(&k) }, |e, r| {
        if let Some(v) = r {
          e.removed.push(obs_of(k, &v));
        }
      });
    }
    Kind::Invalidate => {
      let k = sh.any_key(rng);
      ev.keys = vec![k];
      run_op(log, ev, || if asy { block_on(a.invalidate(&k)) } else { c.invalidate(&k) }, |e, r| e.flag = Some(r));
    }
    Kind::Clear => {
      let _gate = if sh.scn.allow_concurrent_clear { None } else { Some(sh.clear_gate.lock().unwrap()) };
      run_op(log, ev, || if asy { block_on(a.clear()) } else { c.clear() }, |_, _| {});
    }
    Kind::MultiInsert => {
      let mut items: Vec<(u64, Val, u64)> = Vec::new();
      // the accounting property also gets bursts: more writes queued on one shard than one maintenance pass drains
      let n = if sh.scn.prop == Prop::C13 && sh.scn.keys >= 24 && rng.chance(1, 3) { rng.range(18, 40) } else { rng.range(2, 5) };
      for _ in 0..n {
        let Some(k) = sh.write_key(rng) else { break };
        if items.iter().any(|i| i.0 == k) {
          continue;
        }
        let wid = sh.wid();
        let mut cost = sh.scn.pick_cost(k, rng);
        // a burst may end in heavy items (in the runs that allow costs above the capacity)
        if n > 16 && items.len() >= 14 && sh.scn.oversize && rng.chance(1, 2) {
          cost = sh.scn.cache.capacity.unwrap_or(50) + 1 + rng.below(5);
        }
        ev.keys.push(k);
        ev.writes.push(Wr { key: k, wid, cost, ttl_ns: gttl });
        items.push((k, Val { key: k, wid, n: 0 }, cost));
      }
      if items.is_empty() {
        return do_op(sh, tid, Kind::Get, rng);
      }
      run_op(log, ev, move || if asy { block_on(a.multi_insert(items)) } else { c.multi_insert(items) }, |_, _| {});
    }
    Kind::MultiRemove => {
      let ks = sh.some_keys(rng);
      ev.keys = ks.clone();
      run_op(log, ev, move || if asy { block_on(a.multi_remove::<Vec<u64>, u64>(ks)) } else { c.multi_remove::<Vec<u64>, u64>(ks) }, |e, r| {
        for (k, v) in r {
          e.removed.push(obs_of(k, &v));
        }
      });
    }
    Kind::MultiInvalidate => {
      let ks = sh.some_keys(rng);
      ev.keys = ks.clone();
      run_op(
        log,
        ev,
        move || if asy { block_on(a.multi_invalidate::<Vec<u64>, u64>(ks)) } else { c.multi_invalidate::<Vec<u64>, u64>(ks) },
        |_, _| {},
      );
    }
    Kind::Entry => {
      let k = if let Some(k) = FORCED_KEY.with(|f| f.take()) {
        k
      } else if sh.scn.once_keys > 0 && rng.chance(1, 3) {
        ONCE_BASE + rng.below(sh.scn.once_keys)
      } else if sh.scn.insert_once {
        match sh.write_key(rng) {
          Some(k) => k,
          None => return do_op(sh, tid, Kind::Fetch, rng),
        }
      } else {
        KEY_BASE + rng.below(sh.scn.keys)
      };
      let wid = sh.wid();
      let cost = sh.scn.pick_cost(k, rng);
      ev.keys = vec![k];
      let mut ran = false;
      let ranp = &mut ran;
      run_op(
        log,
        ev,
        move || {
          let mk = move || {
            *ranp = true;
            Val { key: k, wid, n: 0 }
          };
          if asy {
            block_on(async { a.entry(k).await.or_insert_with(mk, cost) })
          } else {
            c.entry(k).or_insert_with(mk, cost)
          }
        },
        |e, r| {
          e.obs.push(obs_of(k, &r));
        },
      );
      // the closure flag is only readable after the call returned
      let mut g = log.evs.lock().unwrap();
      let e = g.last_mut().unwrap();
      if ran {
        e.closure_ran = true;
        e.writes.push(Wr { key: k, wid, cost, ttl_ns: gttl });
      }
    }
    Kind::Compute | Kind::TryCompute => {
      let k = sh.any_key(rng);
      ev.keys = vec![k];
      let mut bumps: Vec<(u64, u64)> = Vec::new();
      let bp = &mut bumps;
      let f = move |v: &mut Val| {
        v.n += 1;
        bp.push((v.wid, v.n));
      };
      if kind == Kind::Compute {
        run_op(log, ev, move || if asy { block_on(a.compute(&k, f)) } else { c.compute(&k, f) }, |e, r| e.flag = Some(r));
      } else {
        run_op(log, ev, move || if asy { block_on(a.try_compute(&k, f)) } else { c.try_compute(&k, f) }, |e, r| {
          e.flag = r;
          e.note = if r.is_none() { 1 } else { 0 };
        });
      }
      let mut g = log.evs.lock().unwrap();
      g.last_mut().unwrap().bumps = bumps;
    }
    Kind::FetchWith => {
      let k = sh.any_key(rng);
      ev.keys = vec![k];
      run_op(log, ev, || if asy { block_on(a.fetch_with(&k)) } else { c.fetch_with(&k) }, |e, r| e.obs.push(obs_of(k, &r)));
      // a caller released from a load that at once invalidates the key and asks again must get a fresh load,
      // never the value it has just removed (the finished load's marker may still be around)
      if !sh.scn.insert_once && rng.chance(1, 4) {
        let mut ev2 = Ev::new(tid, Kind::Invalidate, asy);
        ev2.keys = vec![k];
        run_op(log, ev2, || if asy { block_on(a.invalidate(&k)) } else { c.invalidate(&k) }, |e, r| e.flag = Some(r));
        let mut ev3 = Ev::new(tid, Kind::FetchWith, asy);
        ev3.keys = vec![k];
        run_op(log, ev3, || if asy { block_on(a.fetch_with(&k)) } else { c.fetch_with(&k) }, |e, r| e.obs.push(obs_of(k, &r)));
      }
    }
    Kind::Get => {
      let k = sh.any_key(rng);
      ev.keys = vec![k];
      let f = |v: &Val| (v.key, v.wid, v.n);
      run_op(log, ev, || if asy { block_on(a.get(&k, f)) } else { c.get(&k, f) }, |e, r| {
        if let Some((vk, wid, n)) = r {
          e.obs.push(Obs { key: k, vkey: vk, wid, n });
        }
      });
    }
    Kind::Fetch | Kind::Peek => {
      let k = sh.any_key(rng);
      ev.keys = vec![k];
      let fetch = kind == Kind::Fetch;
      run_op(
        log,
        ev,
        || match (fetch, asy) {
          (true, false) => c.fetch(&k),
          (true, true) => block_on(a.fetch(&k)),
          (false, false) => c.peek(&k),
          (false, true) => block_on(a.peek(&k)),
        },
        |e, r| {
          if let Some(v) = r {
            e.obs.push(obs_of(k, &v));
          }
        },
      );
    }
    Kind::MultiGet => {
      let ks = sh.some_keys(rng);
      ev.keys = ks.clone();
      run_op(
        log,
        ev,
        move || if asy { block_on(a.multiget::<Vec<u64>, u64>(ks)).into_iter().collect::<Vec<_>>() } else { c.multiget::<Vec<u64>, u64>(ks).into_iter().collect::<Vec<_>>() },
        |e, r| {
          for (k, v) in r {
            e.obs.push(obs_of(k, &v));
          }
        },
      );
    }
    Kind::Iter | Kind::IterSnapshot => {
      let weak = kind == Kind::Iter;
      let batch = rng.range(1, 8) as usize;
      run_op(
        log,
        ev,
        move || -> Vec<(u64, Arc<Val>)> {
          match (weak, asy) {
            (true, false) => c.iter_with_batch_size(batch).collect(),
            (true, true) => block_on(a.iter_stream_with_batch_size(batch).collect::<Vec<_>>()),
            (false, false) => c.iter_snapshot().collect(),
            (false, true) => block_on(async {
              let mut it = a.iter_snapshot_async();
              let mut v = Vec::new();
              while let Some(x) = it.next().await {
                v.push(x);
              }
              v
            }),
          }
        },
        |e, r| {
          for (k, v) in r {
            e.obs.push(obs_of(k, &v));
          }
        },
      );
    }
    Kind::RunMaintenance => {
      run_op(log, ev, || if asy { block_on(a.run_maintenance()) } else { c.run_maintenance() }, |_, _| {});
    }
    Kind::Metrics => {
      run_op(log, ev, || if asy { a.metrics().current_cost } else { c.metrics().current_cost }, |e, r| e.note = r);
    }
  }
}

thread_local! {
  static FORCED_KEY: std::cell::Cell<Option<u64>> = const { std::cell::Cell::new(None) };
}

fn do_once_entry(sh: &Shared, tid: usize, key: u64, rng: &mut Rng) {
  FORCED_KEY.with(|f| f.set(Some(key)));
  do_op(sh, tid, Kind::Entry, rng);
}

fn worker(sh: &Shared, tid: usize) {
  let _g = chaos::enter(sh.scn.seed, sh.scn.exec, tid as u64);
  let mut rng = Rng::derive(sh.scn.seed, sh.scn.exec, tid as u64 + 1);
  // or_insert_with burst: all workers, just released by the barrier, hit the same vacant
  // once-key (and later, unsynchronised, the others)
  let burst_at: Vec<usize> = (0..sh.scn.once_keys as usize).map(|i| i * (sh.scn.ops / sh.scn.once_keys.max(1) as usize)).collect();
  for i in 0..sh.scn.ops {
    if let Some(pos) = burst_at.iter().position(|&b| b == i) {
      do_once_entry(sh, tid, ONCE_BASE + pos as u64, &mut rng);
    }
    if sh.stop.load(Ordering::Relaxed) {
      break;
    }
    let k = ALL_KINDS[rng.weighted(&sh.scn.weights)];
    do_op(sh, tid, k, &mut rng);
    sh.worker_progress.fetch_add(1, Ordering::Relaxed);
  }
}

/// C13 quiescent audit (see `audit`).
#[derive(Clone, Debug, Default)]
pub struct Audit {
  pub rounds: u32,
  pub stable: bool,
  pub cost_stable: u64,
  pub resident: Vec<(u64, u64)>,
  pub swept: Vec<(u64, u64)>,
  pub cost_before_sweep: u64,
  pub cost_after_sweep: u64,
  pub empty_confirmed: bool,
  pub canary_gap_us: u64,
  pub metrics: Value,
}

pub struct Outcome {
  pub scn: Scn,
  pub evs: Vec<Ev>,
  pub loads: Vec<LoadRec>,
  pub notifs: Vec<Notif>,
  pub complete: bool,
  pub open_ops: Vec<Value>,
  pub audit: Option<Audit>,
  /// C16: the notifier was proven drained (sentinel seen) after quiescence.
  pub flushed: bool,
  /// keys still resident at the very end according to a remove sweep (C16 keep-up)
  pub final_resident: Vec<(u64, u64)>,
  pub chaos: chaos::Totals,
  pub metrics: Value,
  pub bg_panics: Vec<String>,
  pub wall: Duration,
}

fn metrics_json(c: &TheCache) -> Value {
  let m = c.metrics();
  json!({"hits": m.hits, "misses": m.misses, "inserts": m.inserts, "updates": m.updates, "invalidations": m.invalidations,
    "evicted_by_capacity": m.evicted_by_capacity, "evicted_by_ttl": m.evicted_by_ttl, "evicted_by_tti": m.evicted_by_tti,
    "current_cost": m.current_cost, "total_cost_added": m.total_cost_added})
}

fn contents(c: &TheCache) -> Vec<(u64, u64)> {
  let mut v: Vec<(u64, u64)> = c.iter().map(|(k, v)| (k, v.wid)).collect();
  v.sort();
  v
}

/// Quiesce: user threads are joined; `run_maintenance` takes every shard's maintenance lock
/// (blocking), so after it returned no janitor / opportunistic pass that started earlier is
/// still in flight; a pass starting later operates on the state we observe and is a no-op at
/// a fixpoint, or changes the state and thereby breaks the "3 identical rounds" criterion.
fn stable_rounds(c: &TheCache, min_rounds: u32, max_rounds: u32) -> (u32, bool, u64, Vec<(u64, u64)>) {
  let mut prev: Option<(u64, Vec<(u64, u64)>)> = None;
  let mut same = 0;
  let mut rounds = 0;
  loop {
    c.run_maintenance();
    let m1 = c.metrics().current_cost;
    let cont = contents(c);
    let m2 = c.metrics().current_cost;
    rounds += 1;
    let cur = (m1, cont);
    if m1 == m2 && prev.as_ref() == Some(&cur) {
      same += 1;
    } else {
      same = 0;
    }
    prev = Some(cur);
    if rounds >= min_rounds && same >= 3 {
      let (m, cont) = prev.unwrap();
      return (rounds, true, m, cont);
    }
    if rounds >= max_rounds {
      let (m, cont) = prev.unwrap();
      return (rounds, false, m, cont);
    }
    if rounds % 8 == 0 {
      std::thread::sleep(Duration::from_micros(300));
    }
  }
}

fn audit(sh: &Shared, canary: &Canary) -> Audit {
  let c = &sh.cache;
  canary.reset();
  let mut a = Audit::default();
  // 512 buffered write events drain at 16 per run_maintenance: at least 40 rounds
  let (rounds, stable, cost, cont) = stable_rounds(c, 40, 400);
  a.rounds = rounds;
  a.stable = stable;
  a.cost_stable = cost;
  a.resident = cont;
  a.metrics = metrics_json(c);
  // ground-truth sweep: remove() hands back whatever is resident, expired or not
  let universe: Vec<u64> = (0..sh.scn.keys).map(|i| KEY_BASE + i).chain((0..sh.scn.once_keys).map(|i| ONCE_BASE + i)).collect();
  a.cost_before_sweep = c.metrics().current_cost;
  for k in &universe {
    if let Some(v) = c.remove(k) {
      a.swept.push((*k, v.wid));
    }
  }
  let (r2, st2, cost2, cont2) = stable_rounds(c, 4, 200);
  a.rounds += r2;
  let mut again = false;
  for k in &universe {
    if c.remove(k).is_some() {
      again = true;
    }
  }
  a.empty_confirmed = st2 && cont2.is_empty() && !again;
  a.cost_after_sweep = if again { c.metrics().current_cost } else { cost2 };
  a.canary_gap_us = canary.max_gap_us();
  a
}

/// Waits until the notifier delivered everything sent so far: a sentinel removal is queued
/// behind all earlier notifications (FIFO channel); seeing it recorded proves they were
/// delivered. The sentinel itself may be shed when the queue is full, so retry.
fn flush_listener(sh: &Shared, n: &mut u64) -> bool {
  let rec = sh.rec.as_ref().unwrap();
  rec.slow_us.store(0, Ordering::Relaxed);
  let t0 = Instant::now();
  while t0.elapsed() < Duration::from_secs(10) {
    let key = SENTINEL_BASE + *n;
    *n += 1;
    let wid = sh.wid();
    sh.cache.insert(key, Val { key, wid, n: 0 }, 0);
    if sh.cache.remove(&key).is_none() {
      continue; // evicted in between (bounded cache): try again
    }
    let t1 = Instant::now();
    while t1.elapsed() < Duration::from_millis(300) {
      if rec.recs.lock().unwrap().iter().any(|x| x.wid == wid) {
        return true;
      }
      std::thread::yield_now();
    }
  }
  false
}

pub fn execute(scn: Scn, canary: &Canary) -> Outcome {
  let t0 = Instant::now();
  vh_core::reset_stamp();
  fibre_cache::verif_clock::reset();
  fibre_cache::verif_clock::freeze();
  chaos::set_profile(&scn.profile);
  chaos::set_auto(true, scn.seed);
  let _ = chaos::take_totals();
  let next_wid = Arc::new(AtomicU64::new(1));
  let loads: Arc<Mutex<Vec<LoadRec>>> = Arc::new(Mutex::new(Vec::new()));
  let rec = if scn.listener { Some(Arc::new(Recorder::default())) } else { None };
  if let Some(r) = &rec {
    r.slow_us.store(scn.slow_listener_us, Ordering::Relaxed);
  }
  let loader: Option<SyncLoader> = if scn.loader {
    let (nw, ld, sc) = (next_wid.clone(), loads.clone(), scn.clone());
    Some(Arc::new(move |k: u64| {
      let wid = nw.fetch_add(1, Ordering::SeqCst);
      let cost = if sc.fixed_cost { sc.cost_of_key(k) } else { 1 + splitmix(wid ^ sc.seed) % sc.max_cost.max(1) };
      let vnow = fibre_cache::verif_clock::now_nanos();
      let idx = {
        let mut g = ld.lock().unwrap();
        g.push(LoadRec { key: k, wid, cost, start: vh_core::stamp(), end: 0, vnow });
        g.len() - 1
      };
      if splitmix(wid) % 4 == 0 {
        std::thread::sleep(Duration::from_micros(splitmix(wid ^ 7) % 300));
      }
      ld.lock().unwrap()[idx].end = vh_core::stamp();
      (Val { key: k, wid, n: 0 }, cost)
    }))
  } else {
    None
  };
  let cache = build_cache(&scn.cache, rec.clone(), loader);
  let acache = cache.to_async();
  let nthreads = scn.threads;
  let extra = 3; // maintenance, clock, main
  let sh = Arc::new(Shared {
    scn: scn.clone(),
    cache,
    acache,
    logs: (0..nthreads + extra).map(|_| Arc::new(Log::default())).collect(),
    loads,
    next_wid,
    next_key: AtomicU64::new(0),
    values_left: AtomicI64::new(scn.max_values),
    stop: AtomicBool::new(false),
    done: (0..nthreads).map(|_| AtomicBool::new(false)).collect(),
    rec,
    worker_progress: AtomicU64::new(0),
    clear_gate: Mutex::new(()),
  });
  let main_log = nthreads + 2;
  // once-keys / counters need no setup: the entry API creates them.
  let start = Arc::new(std::sync::Barrier::new(nthreads + 1));
  let mut joins = Vec::new();
  for tid in 0..nthreads {
    let (sh2, st) = (sh.clone(), start.clone());
    joins.push(
      std::thread::Builder::new()
        .name(format!("vh-w{}", tid))
        .spawn(move || {
          st.wait();
          let r = catch_unwind(AssertUnwindSafe(|| worker(&sh2, tid)));
          if let Err(p) = r {
            let mut ev = Ev::new(tid, Kind::Metrics, false);
            ev.panicked = Some(format!("HARNESS thread panicked: {} @ {}", vh_core::panic_message(&*p), vh_core::last_panic_location()));
            ev.note = u64::MAX;
            let idx = sh2.logs[tid].begin(ev);
            sh2.logs[tid].evs.lock().unwrap()[idx].ret = vh_core::stamp();
          }
          chaos::leave();
          sh2.done[tid].store(true, Ordering::SeqCst);
        })
        .unwrap(),
    );
  }
  let all_done = |sh: &Shared| sh.done.iter().all(|d| d.load(Ordering::SeqCst));
  let maint = if scn.maint_thread {
    let sh2 = sh.clone();
    Some(std::thread::spawn(move || {
      let _g = chaos::enter(sh2.scn.seed, sh2.scn.exec, 900);
      let mut rng = Rng::derive(sh2.scn.seed, sh2.scn.exec, 901);
      while !sh2.done.iter().all(|d| d.load(Ordering::SeqCst)) && !sh2.stop.load(Ordering::Relaxed) {
        do_op(&sh2, sh2.scn.threads, Kind::RunMaintenance, &mut rng);
        std::thread::sleep(Duration::from_micros(rng.range(30, 600)));
      }
      chaos::leave();
    }))
  } else {
    None
  };
  let clock = if scn.clock_thread {
    let sh2 = sh.clone();
    Some(std::thread::spawn(move || {
      let mut rng = Rng::derive(sh2.scn.seed, sh2.scn.exec, 902);
      while !sh2.done.iter().all(|d| d.load(Ordering::SeqCst)) && !sh2.stop.load(Ordering::Relaxed) {
        std::thread::sleep(Duration::from_micros(rng.range(80, 400)));
        fibre_cache::verif_clock::advance(Duration::from_millis(rng.range(20, 700)));
      }
    }))
  } else {
    None
  };
  start.wait();
  // watchdog: only ever yields "incomplete" (inconclusive)
  let mut last = sh.worker_progress.load(Ordering::Relaxed);
  let mut last_change = Instant::now();
  let mut complete = true;
  while !all_done(&sh) {
    std::thread::sleep(Duration::from_micros(300));
    let p = sh.worker_progress.load(Ordering::Relaxed);
    if p != last {
      last = p;
      last_change = Instant::now();
    } else if last_change.elapsed() > Duration::from_secs(20) {
      complete = false;
      sh.stop.store(true, Ordering::SeqCst);
      break;
    }
  }
  let mut open_ops = Vec::new();
  if complete {
    for j in joins {
      let _ = j.join();
    }
    if let Some(m) = maint {
      let _ = m.join();
    }
    if let Some(c) = clock {
      let _ = c.join();
    }
  } else {
    for l in &sh.logs {
      for e in l.evs.lock().unwrap().iter().filter(|e| e.is_open()) {
        open_ops.push(e.to_json());
      }
    }
  }
  chaos::set_profile(&chaos::Profile::OFF);
  let mut out_audit = None;
  let mut flushed = false;
  let mut final_resident = Vec::new();
  if complete {
    // final reads (also feed the compute counters check)
    let mut rng = Rng::derive(scn.seed, scn.exec, 999);
    let _ = &mut rng;
    let nkeys = if scn.insert_once { sh.next_key.load(Ordering::SeqCst) } else { scn.keys };
    if scn.prop == Prop::C11 {
      for i in 0..nkeys {
        let k = KEY_BASE + i;
        let mut ev = Ev::new(main_log, Kind::Get, false);
        ev.keys = vec![k];
        ev.note = 7; // final read
        run_op(&sh.logs[main_log], ev, || sh.cache.get(&k, |v: &Val| (v.key, v.wid, v.n)), |e, r| {
          if let Some((vk, wid, n)) = r {
            e.obs.push(Obs { key: k, vkey: vk, wid, n });
          }
        });
      }
    }
    if scn.prop == Prop::C13 {
      out_audit = Some(audit(&sh, canary));
    }
    if scn.prop == Prop::C16 {
      let mut sn = 0u64;
      let _ = stable_rounds(&sh.cache, 40, 400);
      flushed = flush_listener(&sh, &mut sn);
      if flushed && scn.insert_once {
        // ground truth of what is still resident; logged so that the Invalidated
        // notifications they cause are matched by L4
        for i in 0..nkeys {
          let k = KEY_BASE + i;
          let mut ev = Ev::new(main_log, Kind::Remove, false);
          ev.keys = vec![k];
          ev.note = 8; // sweep
          run_op(&sh.logs[main_log], ev, || sh.cache.remove(&k), |e, r| {
            if let Some(v) = r {
              e.removed.push(obs_of(k, &v));
            }
          });
        }
        for e in sh.logs[main_log].evs.lock().unwrap().iter() {
          for o in &e.removed {
            final_resident.push((o.key, o.wid));
          }
        }
        flushed = flush_listener(&sh, &mut sn);
      }
    }
  }
  let metrics = if complete { metrics_json(&sh.cache) } else { Value::Null };
  let evs = merge(&sh.logs);
  let loads = sh.loads.lock().unwrap().clone();
  let notifs = sh.rec.as_ref().map(|r| r.recs.lock().unwrap().clone()).unwrap_or_default();
  chaos::set_auto(false, 0);
  let totals = chaos::take_totals();
  Outcome {
    scn,
    evs,
    loads,
    notifs,
    complete,
    open_ops,
    audit: out_audit,
    flushed,
    final_resident,
    chaos: totals,
    metrics,
    bg_panics: Vec::new(),
    wall: t0.elapsed(),
  }
}
