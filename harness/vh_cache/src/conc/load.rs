//! C15 — loader single-flight. Waves of concurrent `fetch_with` callers (threads on the sync
//! handle, tasks on the async handle) against an instrumented loader (invocation log with
//! start/end stamps, chaos delay, optional gate).

use super::*;
use fibre_cache::TaskSpawner;
use std::collections::HashMap;
use std::future::Future;
use std::pin::Pin;
use std::sync::atomic::AtomicBool;
use std::sync::Condvar;
use std::time::Instant;
use vh_core::chaos;
use vh_core::stuck::Canary;

#[derive(Clone, Copy, Debug, PartialEq, Eq)]
pub enum LKind {
  Waves,
  Independence,
  Swr,
}
impl LKind {
  pub fn name(self) -> &'static str {
    match self {
      LKind::Waves => "waves",
      LKind::Independence => "independence",
      LKind::Swr => "swr",
    }
  }
}

#[derive(Clone, Debug)]
pub struct LScn {
  pub exec: u64,
  pub seed: u64,
  pub kind: LKind,
  pub cache: CacheCfg,
  pub async_loader: bool,
  pub keys: u64,
  pub waves: usize,
  pub profile: chaos::Profile,
}
impl LScn {
  pub fn describe(&self) -> Value {
    json!({"exec": self.exec, "seed": self.seed, "kind": self.kind.name(), "cache": self.cache.describe(),
      "loader": if self.async_loader { "async_loader + thread-per-task spawner" } else { "sync loader" },
      "keys": self.keys, "waves": self.waves, "chaos": format!("{:?}", self.profile)})
  }
  pub fn shape_sig(&self) -> u64 {
    let mut h = vh_core::Fnv::default();
    h.u64(self.kind as u64);
    h.u64(self.cache.shards as u64);
    h.u64(self.async_loader as u64);
    h.u64(self.cache.ttl.is_some() as u64);
    h.u64(self.keys);
    h.finish()
  }
}

pub fn gen_lscn(rng: &mut Rng, exec: u64, kind: Option<LKind>, no_chaos: bool) -> LScn {
  let kind = kind.unwrap_or(match exec % 5 {
    0 | 1 | 2 => LKind::Waves,
    3 => LKind::Independence,
    _ => LKind::Swr,
  });
  let seed = rng.next();
  let ttl = match kind {
    LKind::Swr => Some(Duration::from_secs(10)),
    LKind::Waves if rng.chance(1, 2) => Some(Duration::from_secs(rng.range(5, 30))),
    _ => None,
  };
  LScn {
    exec,
    seed,
    kind,
    cache: CacheCfg {
      policy: Policy::Lru,
      default_policy: true,
      shards: *rng.pick(&[1usize, 2, 8]),
      capacity: None,
      ttl,
      tti: None,
      swr: if kind == LKind::Swr { Some(Duration::from_secs(20)) } else { None },
      // expiry is driven by the virtual clock only: keep the janitor's per-call timer wheel out
      janitor_tick_us: 3_600_000_000,
      maint_chance: 16,
      introspection: false,
      hseed: rng.next(),
      wheel: None,
    },
    async_loader: rng.chance(1, 2),
    keys: rng.range(1, 3),
    waves: rng.range(2, 5) as usize,
    profile: if no_chaos { chaos::Profile::OFF } else { pick_profile(rng) },
  }
}

// ------------------------------------------------------------------------------------------

#[derive(Default)]
pub struct Gate {
  open: Mutex<bool>,
  cv: Condvar,
}
impl Gate {
  pub fn wait(&self) {
    let mut g = self.open.lock().unwrap();
    while !*g {
      g = self.cv.wait(g).unwrap();
    }
  }
  pub fn open(&self) {
    *self.open.lock().unwrap() = true;
    self.cv.notify_all();
  }
}

pub struct LoadCtx {
  pub recs: Mutex<Vec<LoadRec>>,
  pub next_wid: AtomicU64,
  pub gates: Mutex<HashMap<u64, Arc<Gate>>>,
  pub seed: u64,
}

impl LoadCtx {
  fn body(&self, k: u64) -> (Val, u64) {
    let wid = self.next_wid.fetch_add(1, Ordering::SeqCst);
    let cost = 1 + splitmix(wid ^ self.seed) % 5;
    let vnow = fibre_cache::verif_clock::now_nanos();
    let idx = {
      let mut g = self.recs.lock().unwrap();
      g.push(LoadRec { key: k, wid, cost, start: vh_core::stamp(), end: 0, vnow });
      g.len() - 1
    };
    let gate = self.gates.lock().unwrap().get(&k).cloned();
    if let Some(g) = gate {
      g.wait();
    }
    match splitmix(wid ^ self.seed ^ 99) % 4 {
      0 => {}
      1 => std::thread::yield_now(),
      _ => std::thread::sleep(Duration::from_micros(splitmix(wid ^ 5) % 600)),
    }
    self.recs.lock().unwrap()[idx].end = vh_core::stamp();
    (Val { key: k, wid, n: 0 }, cost)
  }
  pub fn running(&self) -> usize {
    self.recs.lock().unwrap().iter().filter(|r| r.end == 0).count()
  }
}

/// One thread per spawned task (a gated loader must not hold up other tasks).
pub struct ThreadSpawner;
impl TaskSpawner for ThreadSpawner {
  fn spawn(&self, future: Pin<Box<dyn Future<Output = ()> + Send>>) {
    std::thread::spawn(move || vh_core::stepper::block_on(future));
  }
}

/// Returns Pending once (waking itself) — makes the async loader really suspend.
struct YieldOnce(bool);
impl Future for YieldOnce {
  type Output = ();
  fn poll(mut self: Pin<&mut Self>, cx: &mut std::task::Context<'_>) -> std::task::Poll<()> {
    if self.0 {
      std::task::Poll::Ready(())
    } else {
      self.0 = true;
      cx.waker().wake_by_ref();
      std::task::Poll::Pending
    }
  }
}

pub fn build_loader_cache(scn: &LScn, ctx: Arc<LoadCtx>) -> TheCache {
  let b = base_builder(&scn.cache, None);
  if scn.async_loader {
    let c2 = ctx.clone();
    b.async_loader(move |k: u64| {
      let c3 = c2.clone();
      async move {
        YieldOnce(false).await;
        c3.body(k)
      }
    })
    .spawner(Arc::new(ThreadSpawner))
    .build()
    .expect("build")
  } else {
    b.loader(move |k| ctx.body(k)).build().expect("build")
  }
}

#[derive(Clone, Debug)]
pub struct Call {
  pub wave: usize,
  pub key: u64,
  pub is_async: bool,
  pub thread: usize,
  pub call: u64,
  pub ret: u64,
  pub ptr: usize,
  pub vkey: u64,
  pub wid: u64,
}
impl Call {
  pub fn to_json(&self) -> Value {
    json!({"wave": self.wave, "key": self.key, "async": self.is_async, "thread": self.thread, "call": self.call, "ret": self.ret,
      "wid": self.wid, "ptr": format!("{:x}", self.ptr)})
  }
}

#[derive(Clone, Debug)]
pub enum Spec {
  Sync { key: u64, delay_us: u64 },
  /// several tasks multiplexed on one thread
  Tasks { keys: Vec<u64>, delay_us: u64 },
}

pub struct Exec {
  pub scn: LScn,
  pub cache: TheCache,
  pub acache: TheAsyncCache,
  pub ctx: Arc<LoadCtx>,
  pub calls: Arc<Mutex<Vec<Call>>>,
  pub finished: Arc<AtomicU64>,
  pub threads: Mutex<Vec<std::thread::Thread>>,
  pub next_thread: AtomicU64,
}

#[derive(Debug)]
pub struct Stuck {
  pub blocked: Vec<Value>,
  pub loader_running: usize,
  pub nudge_released: bool,
  pub forced_ready: u64,
  pub canary_gap_us: u64,
  pub still_blocked: bool,
  /// kernel view of the caller threads right before the nudge (see vh_core::stuck::workers_asleep)
  pub parked: Option<bool>,
  pub parked_detail: String,
}

impl Exec {
  fn begin(&self, wave: usize, key: u64, is_async: bool, thread: usize) -> usize {
    let mut g = self.calls.lock().unwrap();
    g.push(Call { wave, key, is_async, thread, call: vh_core::stamp(), ret: 0, ptr: 0, vkey: 0, wid: 0 });
    g.len() - 1
  }
  fn end(&self, idx: usize, v: Arc<Val>) {
    let ret = vh_core::stamp();
    let mut g = self.calls.lock().unwrap();
    let c = &mut g[idx];
    c.ret = ret;
    c.ptr = Arc::as_ptr(&v) as usize;
    c.vkey = v.key;
    c.wid = v.wid;
    drop(g);
    drop(v);
    self.finished.fetch_add(1, Ordering::SeqCst);
    vh_core::stuck::progress();
  }

  /// Spawns the callers of one wave; returns the number of calls that will be made.
  pub fn launch(self: &Arc<Self>, wave: usize, specs: Vec<Spec>) -> u64 {
    let n: u64 = specs.iter().map(|s| match s { Spec::Sync { .. } => 1, Spec::Tasks { keys, .. } => keys.len() as u64 }).sum();
    let barrier = Arc::new(std::sync::Barrier::new(specs.len()));
    for spec in specs {
      let me = self.clone();
      let b = barrier.clone();
      let tid = self.next_thread.fetch_add(1, Ordering::SeqCst) as usize;
      let h = std::thread::Builder::new()
        .name(format!("vh-l{}", tid))
        .spawn(move || {
          let _g = chaos::enter(me.scn.seed, me.scn.exec, tid as u64);
          b.wait();
          match spec {
            Spec::Sync { key, delay_us } => {
              if delay_us > 0 {
                std::thread::sleep(Duration::from_micros(delay_us));
              }
              let idx = me.begin(wave, key, false, tid);
              let v = me.cache.fetch_with(&key);
              me.end(idx, v);
            }
            Spec::Tasks { keys, delay_us } => {
              if delay_us > 0 {
                std::thread::sleep(Duration::from_micros(delay_us));
              }
              let futs = keys.into_iter().map(|key| {
                let me2 = me.clone();
                async move {
                  let idx = me2.begin(wave, key, true, tid);
                  let v = me2.acache.fetch_with(&key).await;
                  me2.end(idx, v);
                }
              });
              vh_core::stepper::block_on(async {
                futures_util::future::join_all(futs).await;
              });
            }
          }
          chaos::leave();
        })
        .unwrap();
      self.threads.lock().unwrap().push(h.thread().clone());
    }
    n
  }

  /// Waits until `target` calls have finished. Wall-clock only decides when to look: the
  /// stuck verdict needs three quiet windows, a healthy canary, and is then classified from
  /// the history (is any loader invocation still running?) plus a legal nudge.
  pub fn wait_finished(&self, target: u64, canary: &Canary, quiet: Duration) -> Option<Stuck> {
    let mut last = self.finished.load(Ordering::SeqCst);
    let mut last_change = Instant::now();
    let mut confirmations = 0;
    canary.reset();
    loop {
      let f = self.finished.load(Ordering::SeqCst);
      if f >= target {
        return None;
      }
      if f != last {
        last = f;
        last_change = Instant::now();
        confirmations = 0;
        canary.reset();
      }
      if last_change.elapsed() < quiet * (confirmations + 1) {
        std::thread::sleep(Duration::from_micros(200));
        continue;
      }
      confirmations += 1;
      if confirmations < 3 {
        continue;
      }
      let gap = canary.max_gap_us();
      let running = self.ctx.running();
      let before = self.finished.load(Ordering::SeqCst);
      let blocked: Vec<Value> = self.calls.lock().unwrap().iter().filter(|c| c.ret == 0).map(|c| c.to_json()).collect();
      let (parked, parked_detail) = vh_core::stuck::workers_asleep(25, Duration::from_millis(20));
      let forced0 = vh_core::stepper::FORCED_READY.load(Ordering::SeqCst);
      vh_core::stepper::FORCE_POLL.store(true, Ordering::SeqCst);
      for _ in 0..3 {
        for t in self.threads.lock().unwrap().iter() {
          t.unpark();
        }
        std::thread::sleep(Duration::from_millis(150));
      }
      vh_core::stepper::FORCE_POLL.store(false, Ordering::SeqCst);
      let after = self.finished.load(Ordering::SeqCst);
      return Some(Stuck {
        blocked,
        loader_running: running,
        nudge_released: after != before,
        forced_ready: vh_core::stepper::FORCED_READY.load(Ordering::SeqCst) - forced0,
        canary_gap_us: gap,
        still_blocked: after < target,
        parked,
        parked_detail,
      });
    }
  }
}

pub struct LOutcome {
  pub scn: LScn,
  pub calls: Vec<Call>,
  pub loads: Vec<LoadRec>,
  pub findings: Vec<Finding>,
  pub inconclusive: Vec<String>,
  pub leaked: bool,
  pub counters: Vec<(String, u64)>,
  pub overlapping_callers: bool,
  pub interleaving_sig: u64,
  pub chaos: chaos::Totals,
}

fn push(f: &mut Vec<Finding>, sig: &str, summary: String, detail: Value) {
  if !f.iter().any(|x| x.sig == sig) {
    f.push(Finding { prop: "C15", sig: sig.to_string(), summary, detail });
  }
}

fn wave_specs(rng: &mut Rng, keys: &[u64], w: usize, late: bool) -> Vec<Spec> {
  let mut specs = Vec::new();
  let mut left = w;
  while left > 0 {
    let key = *rng.pick(keys);
    // arrival timing: most at the barrier, some during the load, some just after it
    let delay_us = if late && rng.chance(1, 3) { rng.range(1, 900) } else { 0 };
    if rng.chance(1, 2) {
      specs.push(Spec::Sync { key, delay_us });
      left -= 1;
    } else {
      let n = (rng.range(1, 4) as usize).min(left);
      let ks: Vec<u64> = (0..n).map(|_| *rng.pick(keys)).collect();
      specs.push(Spec::Tasks { keys: ks, delay_us });
      left -= n;
    }
  }
  specs
}

fn stuck_verdict(st: &Stuck, what: &str, findings: &mut Vec<Finding>, inconclusive: &mut Vec<String>, scn: &LScn) {
  if st.canary_gap_us > 250_000 {
    inconclusive.push(format!("{}: quiet windows with unhealthy canary ({} us)", what, st.canary_gap_us));
  } else if st.loader_running > 0 {
    inconclusive.push(format!("{}: callers blocked while {} loader invocation(s) had not returned", what, st.loader_running));
  } else if st.parked == Some(false) {
    inconclusive.push(format!("{}: quiet window with runnable (starved or spinning) caller threads: {}", what, st.parked_detail));
  } else {
    let any_async = st.blocked.iter().any(|b| b["async"] == true);
    let any_sync = st.blocked.iter().any(|b| b["async"] == false);
    let var = match (any_sync, any_async) {
      (true, false) => "sync-caller",
      (false, true) => "async-caller",
      _ => "mixed-callers",
    };
    push(findings, &format!("progress/caller-stuck/{}", var),
      format!("{}: fetch_with callers stayed blocked through 3 quiet windows although every loader invocation had returned (nudge released them: {})",
        what, st.nudge_released),
      json!({"scenario": scn.describe(), "stuck": format!("{:?}", st)}));
  }
}

pub fn run(scn: LScn, canary: &Canary, quiet: Duration) -> LOutcome {
  vh_core::reset_stamp();
  fibre_cache::verif_clock::reset();
  fibre_cache::verif_clock::freeze();
  chaos::set_profile(&scn.profile);
  chaos::set_auto(true, scn.seed);
  let _ = chaos::take_totals();
  let ctx = Arc::new(LoadCtx { recs: Mutex::new(Vec::new()), next_wid: AtomicU64::new(1), gates: Mutex::new(HashMap::new()), seed: scn.seed });
  let cache = build_loader_cache(&scn, ctx.clone());
  let acache = cache.to_async();
  let ex = Arc::new(Exec {
    scn: scn.clone(),
    cache,
    acache,
    ctx: ctx.clone(),
    calls: Arc::new(Mutex::new(Vec::new())),
    finished: Arc::new(AtomicU64::new(0)),
    threads: Mutex::new(Vec::new()),
    next_thread: AtomicU64::new(0),
  });
  let mut rng = Rng::derive(scn.seed, scn.exec, 77);
  let mut findings: Vec<Finding> = Vec::new();
  let mut inconclusive: Vec<String> = Vec::new();
  let mut counters: Vec<(String, u64)> = Vec::new();
  let mut leaked = false;
  let mut target = 0u64;
  let hasher = scn.cache.hasher();
  let shards = scn.cache.shards;
  let keys: Vec<u64> = (0..scn.keys).map(|i| 500 + i).collect();
  let cost_of = |wid: u64| 1 + splitmix(wid ^ scn.seed) % 5;
  let stop_all = AtomicBool::new(false);

  match scn.kind {
    LKind::Waves => {
      // known_missing[k]: nothing can have put k back since it was last proven absent
      let mut missing: HashMap<u64, bool> = keys.iter().map(|&k| (k, true)).collect();
      let mut clock_moved = false;
      for wave in 0..scn.waves {
        let w = rng.range(2, 24) as usize;
        let wave_start = vh_core::stamp();
        let loads_before = ctx.recs.lock().unwrap().len();
        target += ex.launch(wave, wave_specs(&mut rng, &keys, w, true));
        if let Some(st) = ex.wait_finished(target, canary, quiet) {
          stuck_verdict(&st, &format!("wave {}", wave), &mut findings, &mut inconclusive, &scn);
          if st.still_blocked {
            leaked = true;
            break;
          }
        }
        let calls: Vec<Call> = ex.calls.lock().unwrap().iter().filter(|c| c.wave == wave).cloned().collect();
        let loads: Vec<LoadRec> = ctx.recs.lock().unwrap()[loads_before..].to_vec();
        counters.push(("waves".into(), 1));
        counters.push(("wave_callers".into(), calls.len() as u64));
        for &k in &keys {
          let kc: Vec<&Call> = calls.iter().filter(|c| c.key == k).collect();
          if kc.is_empty() {
            continue;
          }
          let kl: Vec<&LoadRec> = loads.iter().filter(|l| l.key == k).collect();
          let was_missing = missing[&k];
          counters.push((format!("wave_keys/{}", if was_missing { "missing_before" } else { "resident_before" }), 1));
          counters.push((format!("loads_per_wave_key/{}", kl.len().min(3)), 1));
          let detail = || json!({"scenario": scn.describe(), "wave": wave, "key": k, "wave_start_stamp": wave_start, "key_was_missing_before": was_missing,
            "callers": kc.iter().map(|c| c.to_json()).collect::<Vec<_>>(), "loader_invocations": kl.iter().map(|l| format!("{:?}", l)).collect::<Vec<_>>()});
          if kl.len() > 1 {
            push(&mut findings, "single-flight/duplicate-load/wave",
              format!("wave of {} concurrent fetch_with callers on key {} ({}): the loader ran {} times", kc.len(), k,
                if was_missing { "missing before the wave" } else { "resident before the wave" }, kl.len()), detail());
          } else if kl.is_empty() && was_missing {
            push(&mut findings, "single-flight/no-load-for-miss/wave",
              format!("key {} was absent (never loaded / invalidated / expired) yet {} fetch_with callers returned without any loader invocation", k, kc.len()), detail());
          } else if !was_missing && kl.len() == 1 {
            // a resident key was loaded again: the register may forget, callers may then
            // legitimately hold the old or the new value; nothing to conclude
            counters.push(("resident_key_reloaded".into(), 1));
          } else {
            // one load (or pure hits): everybody must hold the same Arc
            let p0 = kc[0].ptr;
            if kc.iter().any(|c| c.ptr != p0) {
              push(&mut findings, "single-flight/different-values/wave",
                format!("key {}: {} loader invocation(s) in the wave but the callers were handed different Arcs", k, kl.len()), detail());
            } else if let Some(l) = kl.first() {
              if kc[0].wid != l.wid || kc[0].vkey != k {
                push(&mut findings, "single-flight/wrong-value/wave", format!("key {}: callers got value {} but the wave's load produced {}", k, kc[0].wid, l.wid), detail());
              }
            }
            // resident afterwards, same Arc
            match ex.cache.peek(&k) {
              Some(v) if Arc::as_ptr(&v) as usize == p0 => {}
              other => push(&mut findings, "single-flight/not-resident/wave",
                format!("key {}: after all callers returned the loaded value is {}", k, if other.is_some() { "not the resident one" } else { "not resident" }), detail()),
            }
          }
          missing.insert(k, false);
        }
        // cost accounting at quiescence (no load in flight: every caller returned). Entries
        // expired by the virtual clock stay resident (and counted) but are invisible to
        // peek(), so the comparison is only made while nothing has been expired.
        if ctx.running() == 0 && !clock_moved {
          let expect: u64 = keys.iter().filter_map(|k| ex.cache.peek(k)).map(|v| cost_of(v.wid)).sum();
          let got = ex.cache.metrics().current_cost;
          counters.push(("cost_checks".into(), 1));
          if got != expect {
            push(&mut findings, "single-flight/cost-not-accounted/wave",
              format!("after wave {} current_cost = {} but the resident loaded values cost {}", wave, got as i64, expect),
              json!({"scenario": scn.describe(), "loads": ctx.recs.lock().unwrap().iter().map(|l| format!("{:?}", l)).collect::<Vec<_>>()}));
          }
        }
        // between waves: invalidate / expire / nothing
        for &k in &keys {
          match rng.below(4) {
            0 => {
              if rng.chance(1, 2) { ex.cache.invalidate(&k); } else { futures_executor::block_on(ex.acache.invalidate(&k)); }
              missing.insert(k, true);
              counters.push(("between_waves/invalidate".into(), 1));
            }
            1 => {
              let _ = ex.cache.remove(&k);
              missing.insert(k, true);
              counters.push(("between_waves/remove".into(), 1));
            }
            2 if scn.cache.ttl.is_some() => {
              fibre_cache::verif_clock::advance(scn.cache.ttl.unwrap() + Duration::from_secs(1));
              clock_moved = true;
              for k2 in &keys {
                missing.insert(*k2, true);
              }
              counters.push(("between_waves/expire_by_virtual_clock".into(), 1));
            }
            _ => counters.push(("between_waves/keep".into(), 1)),
          }
        }
      }
    }
    LKind::Independence => {
      let a = keys[0];
      let sa = hasher.stripe(a, shards);
      let same = (1000..100_000u64).find(|&k| hasher.stripe(k, shards) == sa).unwrap();
      let other = if shards > 1 { (1000..100_000u64).find(|&k| hasher.stripe(k, shards) != sa) } else { None };
      let gate = Arc::new(Gate::default());
      ctx.gates.lock().unwrap().insert(a, gate.clone());
      let na = rng.range(1, 5) as usize;
      let a_calls = ex.launch(0, wave_specs(&mut rng, &[a], na, false));
      // wait until A's loader is inside the gate
      let t0 = Instant::now();
      while ctx.recs.lock().unwrap().iter().all(|r| r.key != a) && t0.elapsed() < Duration::from_secs(20) {
        std::thread::sleep(Duration::from_micros(100));
      }
      if ctx.recs.lock().unwrap().iter().all(|r| r.key != a) {
        inconclusive.push("independence: loader for the gated key never started".into());
        gate.open();
        leaked = true;
      } else {
        let mut bkeys = vec![same];
        if let Some(o) = other {
          bkeys.push(o);
        }
        let nb = rng.range(2, 8) as usize;
        let b_calls = ex.launch(1, wave_specs(&mut rng, &bkeys, nb, false));
        // B callers must finish while A is held (A's callers cannot finish: target excludes them)
        let st = ex.wait_finished(b_calls, canary, quiet);
        let a_done_early = ex.calls.lock().unwrap().iter().filter(|c| c.wave == 0 && c.ret != 0).count();
        counters.push(("independence_runs".into(), 1));
        counters.push((format!("independence_keys/{}", if other.is_some() { "same_and_other_stripe" } else { "same_stripe_only" }), 1));
        if a_done_early > 0 {
          push(&mut findings, "single-flight/returned-before-load/gated",
            format!("{} fetch_with caller(s) of key {} returned while its only loader invocation was still held at the gate", a_done_early, a),
            json!({"scenario": scn.describe(), "calls": ex.calls.lock().unwrap().iter().map(|c| c.to_json()).collect::<Vec<_>>()}));
        }
        gate.open();
        let st2 = ex.wait_finished(a_calls + b_calls, canary, quiet);
        if let Some(st) = st {
          let blocked_keys: Vec<u64> = st.blocked.iter().filter(|b| b["wave"] == 1).filter_map(|b| b["key"].as_u64()).collect();
          // running loaders: A (gated) is expected; a B loader that itself had not returned is not the cache's fault
          let b_loader_running = ctx.recs.lock().unwrap().iter().any(|r| r.key != a && r.end == 0);
          if st.canary_gap_us > 250_000 {
            inconclusive.push("independence: unhealthy canary".into());
          } else if blocked_keys.is_empty() {
            inconclusive.push("independence: stuck window without blocked B callers".into());
          } else if st2.is_some() && st2.as_ref().unwrap().still_blocked {
            // did not even finish after the gate opened: plain stuck, classified below
          } else if st.nudge_released {
            // a spurious wake / re-poll was enough: not a dependency on key A but a lost wake-up
            if b_loader_running {
              inconclusive.push("independence: nudge released callers while a B loader was still running".into());
            } else {
              let mut st_b = st;
              st_b.loader_running = 0; // only A's gated invocation is running, by construction
              stuck_verdict(&st_b, "independence, while another key's loader was held", &mut findings, &mut inconclusive, &scn);
            }
          } else {
            let var = if blocked_keys.iter().all(|&k| k == same) { "same-stripe" } else if blocked_keys.iter().all(|&k| Some(k) == other) { "other-stripe" } else { "both-stripes" };
            push(&mut findings, &format!("independence/blocked-by-other-key/{}", var),
              format!("fetch_with on key(s) {:?} stayed blocked through 3 quiet windows while the loader of key {} was held, and completed once it was released", blocked_keys, a),
              json!({"scenario": scn.describe(), "stuck_while_gated": format!("{:?}", st), "gated_key": a, "same_stripe_key": same, "other_stripe_key": other}));
          }
        }
        if let Some(st2) = st2 {
          stuck_verdict(&st2, "independence, after the gate opened", &mut findings, &mut inconclusive, &scn);
          if st2.still_blocked {
            leaked = true;
          }
        }
      }
    }
    LKind::Swr => {
      let k = keys[0];
      let ttl = scn.cache.ttl.unwrap();
      let n0 = rng.range(1, 4) as usize;
      target += ex.launch(0, wave_specs(&mut rng, &[k], n0, false));
      if let Some(st) = ex.wait_finished(target, canary, quiet) {
        stuck_verdict(&st, "swr initial load", &mut findings, &mut inconclusive, &scn);
        leaked = st.still_blocked;
      }
      let rounds = rng.range(1, 3) as usize;
      for r in 0..rounds {
        if leaked {
          break;
        }
        // stale but within grace: callers are served the stale value and trigger a refresh
        fibre_cache::verif_clock::advance(ttl + Duration::from_secs(1));
        let w = rng.range(2, 16) as usize;
        target += ex.launch(1 + r, wave_specs(&mut rng, &[k], w, true));
        // racing misses: invalidations push some callers onto the miss path
        let n_inv = rng.below(3);
        for _ in 0..n_inv {
          std::thread::sleep(Duration::from_micros(rng.range(0, 300)));
          ex.cache.invalidate(&k);
          counters.push(("swr_racing_invalidations".into(), 1));
        }
        if rng.chance(1, 3) {
          // beyond the grace period: full miss
          fibre_cache::verif_clock::advance(Duration::from_secs(40));
          counters.push(("swr_beyond_grace".into(), 1));
        }
        if let Some(st) = ex.wait_finished(target, canary, quiet) {
          stuck_verdict(&st, "swr wave", &mut findings, &mut inconclusive, &scn);
          if st.still_blocked {
            leaked = true;
          }
        }
        counters.push(("swr_waves".into(), 1));
      }
      // background refreshes may still run: wait for them (bounded, inconclusive otherwise)
      let t0 = Instant::now();
      while ctx.running() > 0 && t0.elapsed() < Duration::from_secs(10) {
        std::thread::sleep(Duration::from_micros(200));
      }
      if ctx.running() > 0 {
        inconclusive.push("swr: a background refresh never returned".into());
      }
    }
  }
  let _ = stop_all;
  // ---- global rule: invocations for one key never overlap
  let loads: Vec<LoadRec> = ctx.recs.lock().unwrap().clone();
  for (i, x) in loads.iter().enumerate() {
    for y in loads.iter().skip(i + 1) {
      if x.key == y.key && x.end != 0 && y.end != 0 && x.start < y.end && y.start < x.end {
        push(&mut findings, &format!("single-flight/overlapping-loads/{}", scn.kind.name()),
          format!("two loader invocations for key {} ran at the same time (stamps [{}, {}] and [{}, {}])", x.key, x.start, x.end, y.start, y.end),
          json!({"scenario": scn.describe(), "loads": loads.iter().map(|l| format!("{:?}", l)).collect::<Vec<_>>(),
            "calls": ex.calls.lock().unwrap().iter().map(|c| c.to_json()).collect::<Vec<_>>()}));
      }
    }
  }
  let calls: Vec<Call> = ex.calls.lock().unwrap().clone();
  // overlap among callers of one key + interleaving signature
  let mut overlapping = false;
  let mut h = vh_core::Fnv::default();
  let mut pts: Vec<(u64, u64)> = Vec::new();
  for (i, c) in calls.iter().enumerate() {
    pts.push((c.call, (c.thread as u64) << 2 | c.is_async as u64));
    pts.push((c.ret, (c.thread as u64) << 2 | 2));
    for d in calls.iter().skip(i + 1) {
      if c.key == d.key && c.thread != d.thread && c.call < d.ret && d.call < c.ret {
        overlapping = true;
      }
    }
  }
  for l in &loads {
    pts.push((l.start, 1 << 20));
    pts.push((l.end, 1 << 21));
  }
  pts.sort();
  for p in pts.iter().take(512) {
    h.u64(p.1);
  }
  chaos::set_profile(&chaos::Profile::OFF);
  chaos::set_auto(false, 0);
  let totals = chaos::take_totals();
  LOutcome {
    scn,
    calls,
    loads,
    findings,
    inconclusive,
    leaked,
    counters,
    overlapping_callers: overlapping,
    interleaving_sig: h.finish(),
    chaos: totals,
  }
}
