//! shared code of the sequential cache engines
