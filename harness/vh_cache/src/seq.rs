//! shared code of the sequential cache engines
//!
//! * `pol` — C14: eviction-policy contract monitor (used by `policy_seq`)
//! * `cs`  — C12 / C17: single-threaded differential monitor of a real cache under the frozen
//!           virtual clock (used by `cache_seq`)

pub mod wd {
  //! Wall-clock watchdog for calls into the library that never return (a cursor that does not
  //! advance, a policy loop that never ends): the main thread cannot be interrupted, so a side
  //! thread writes the shard result with an *inconclusive* entry and ends the process.
  use std::sync::atomic::{AtomicU64, Ordering};
  use std::sync::{Arc, Mutex};
  use std::time::{Duration, Instant};
  use vh_core::result::ShardResult;

  pub static BEAT: AtomicU64 = AtomicU64::new(0);
  static CURRENT: Mutex<String> = Mutex::new(String::new());

  /// Called at the start of every case (and cheaply in between): progress was made.
  #[inline]
  pub fn beat() {
    BEAT.fetch_add(1, Ordering::Relaxed);
  }
  pub fn describe(s: String) {
    *CURRENT.lock().unwrap() = s;
    beat();
  }

  pub fn spawn(res: Arc<Mutex<ShardResult>>, out: String, start: Instant, limit: Duration) {
    std::thread::spawn(move || {
      let mut last = BEAT.load(Ordering::Relaxed);
      let mut since = Instant::now();
      loop {
        std::thread::sleep(Duration::from_millis(250));
        let b = BEAT.load(Ordering::Relaxed);
        if b != last {
          last = b;
          since = Instant::now();
          continue;
        }
        if since.elapsed() < limit {
          continue;
        }
        let what = CURRENT.lock().map(|s| s.clone()).unwrap_or_default();
        let msg = format!("a call into the library did not return within {} s (wall-clock watchdog, no verdict): {}", limit.as_secs(), what);
        let t0 = Instant::now();
        loop {
          if let Ok(mut r) = res.try_lock() {
            r.inconclusive(&msg);
            r.write(&out, start.elapsed().as_secs_f64());
            break;
          }
          if t0.elapsed() > Duration::from_secs(5) {
            let mut r = ShardResult::new("?", "watchdog", 0, 0);
            r.inconclusive(&msg);
            r.write(&out, start.elapsed().as_secs_f64());
            break;
          }
          std::thread::sleep(Duration::from_millis(20));
        }
        std::process::exit(0);
      }
    });
  }
}

pub mod pol {
  //! Bookkeeping model of the `CachePolicy` contract as the cache itself uses it
  //! (`task/janitor.rs`): `on_admit` for every write (also overwrites), victims of
  //! `AdmitAndEvict` are removed from the map and then reported back with `on_remove`,
  //! victims of `evict` are removed from the map *without* an `on_remove`, `on_access` carries
  //! the resident entry's cost.

  use fibre_cache::policy::{AdmissionDecision, CachePolicy};
  use serde_json::{json, Value};
  use std::collections::{BTreeMap, HashMap, HashSet};
  use std::panic::{catch_unwind, AssertUnwindSafe};
  use vh_core::rng::Rng;
  use vh_core::Fnv;

  pub const POLICIES: [&str; 8] = ["tinylfu", "sieve", "slru", "arc", "lru", "fifo", "clock", "random"];

  pub fn make(name: &str, cap: u64) -> Box<dyn CachePolicy<u64, ()>> {
    use fibre_cache::policy::*;
    match name {
      "tinylfu" => Box::new(tinylfu::TinyLfuPolicy::new(cap)),
      "sieve" => Box::new(sieve::SievePolicy::new()),
      "slru" => Box::new(slru::SlruPolicy::new(cap)),
      "arc" => Box::new(arc::ArcPolicy::new(cap as usize)),
      "lru" => Box::new(lru::LruPolicy::new()),
      "fifo" => Box::new(fifo::Fifo::new()),
      "clock" => Box::new(clock::ClockPolicy::new()),
      "random" => Box::new(random::RandomPolicy::new()),
      other => panic!("unknown policy {}", other),
    }
  }

  /// How much an `evict` asks for; resolved against the model's tracked total at run time so
  /// that a program is closed (replayable prefix by prefix).
  #[derive(Clone, Copy, Debug, PartialEq)]
  pub enum EvictN {
    Zero,
    One,
    Abs(u64),
    /// `num/8` of the tracked total (rounded up)
    Frac(u64),
    Total,
    TotalPlus1,
    Max,
  }

  #[derive(Clone, Debug, PartialEq)]
  pub enum Op {
    /// `on_admit(k, cost)`; `notify` = report AdmitAndEvict victims back with `on_remove`
    /// (what the cache does when the victim was still in its map).
    Admit { k: u64, cost: u64, notify: bool },
    /// `on_access(k, c)`; c = recorded cost if tracked, else `cost_if_untracked`
    Access { k: u64, cost_if_untracked: u64 },
    Remove { k: u64 },
    Evict { n: EvictN },
    Clear,
  }

  impl Op {
    pub fn to_json(&self) -> Value {
      match self {
        Op::Admit { k, cost, notify } => json!({"op":"on_admit","key":k,"cost":cost,"on_remove_for_victims":notify}),
        Op::Access { k, cost_if_untracked } => json!({"op":"on_access","key":k,"cost_if_untracked":cost_if_untracked}),
        Op::Remove { k } => json!({"op":"on_remove","key":k}),
        Op::Evict { n } => json!({"op":"evict","n":format!("{:?}", n)}),
        Op::Clear => json!({"op":"clear"}),
      }
    }
    fn kind(&self) -> &'static str {
      match self {
        Op::Admit { .. } => "admit",
        Op::Access { .. } => "access",
        Op::Remove { .. } => "remove",
        Op::Evict { .. } => "evict",
        Op::Clear => "clear",
      }
    }
    fn key(&self) -> Option<u64> {
      match self {
        Op::Admit { k, .. } | Op::Access { k, .. } | Op::Remove { k } => Some(*k),
        _ => None,
      }
    }
  }

  #[derive(Clone, Debug)]
  pub struct Case {
    pub policy: &'static str,
    pub cap: u64,
    pub ops: Vec<Op>,
  }

  impl Case {
    pub fn to_json(&self) -> Value {
      json!({"policy": self.policy, "policy_capacity": self.cap,
             "ops": self.ops.iter().map(|o| o.to_json()).collect::<Vec<_>>()})
    }
    pub fn prefix(&self, n: usize) -> Case {
      Case { policy: self.policy, cap: self.cap, ops: self.ops[..n.min(self.ops.len())].to_vec() }
    }
  }

  #[derive(Clone, Debug)]
  pub struct Finding {
    pub rule: String,
    pub variant: String,
    /// index of the op at which it was observed; `ops.len()` = final drain
    pub at: usize,
    pub keys: Vec<u64>,
    pub detail: String,
  }

  #[derive(Default, Clone, Debug)]
  pub struct Stats {
    pub calls: BTreeMap<&'static str, u64>,
    pub admit_new: u64,
    pub admit_readmit: u64,
    pub admit_readmit_cost_change: u64,
    pub admit_and_evict: u64,
    pub admit_victims: u64,
    pub rejects: u64,
    pub access_tracked: u64,
    pub access_untracked: u64,
    pub remove_tracked: u64,
    pub remove_untracked: u64,
    pub evict_calls_with_victims: u64,
    pub evict_victims: u64,
    pub evict_requested_reachable: u64,
    pub zero_cost_admits: u64,
    pub huge_cost_admits: u64,
    pub drain_rounds: u64,
    pub drain_victims: u64,
    pub order_checks: u64,
    pub touched_then_evicted: u64,
  }

  pub struct Outcome {
    pub findings: Vec<Finding>,
    pub stats: Stats,
    pub trace: Vec<String>,
    pub shape: u64,
  }

  #[derive(Clone, Copy, PartialEq, Debug)]
  enum Why {
    Never,
    Removed,
    Cleared,
    Nominated,
  }
  impl Why {
    fn name(self) -> &'static str {
      match self {
        Why::Never => "never-admitted",
        Why::Removed => "after-on_remove",
        Why::Cleared => "after-clear",
        Why::Nominated => "already-nominated",
      }
    }
  }

  #[derive(Default)]
  struct Model {
    tracked: BTreeMap<u64, u64>,
    /// costs admitted since the key (re)entered tracking
    hist: HashMap<u64, Vec<u64>>,
    why: HashMap<u64, Why>,
    /// keys whose admission was answered `Reject` (no built-in does): nothing is asserted
    lenient: HashSet<u64>,
    /// least recently used first
    lru: Vec<u64>,
    /// FIFO reference keeping the position of the first admission
    fifo_keep: Vec<u64>,
    /// FIFO reference where re-admission counts as a new insertion
    fifo_move: Vec<u64>,
    /// keys accessed or re-admitted since admission (evidence only)
    touched: HashSet<u64>,
  }

  impl Model {
    fn total(&self) -> u128 {
      self.tracked.values().map(|&c| c as u128).sum()
    }
    fn forget(&mut self, k: u64, why: Why) -> Option<u64> {
      let c = self.tracked.remove(&k);
      if c.is_some() {
        self.hist.remove(&k);
        self.lru.retain(|x| *x != k);
        self.fifo_keep.retain(|x| *x != k);
        self.fifo_move.retain(|x| *x != k);
        self.why.insert(k, why);
      }
      c
    }
    fn why(&self, k: u64) -> Why {
      *self.why.get(&k).unwrap_or(&Why::Never)
    }
  }

  fn guarded<R>(f: impl FnOnce() -> R) -> Result<R, String> {
    match catch_unwind(AssertUnwindSafe(f)) {
      Ok(r) => Ok(r),
      Err(p) => Err(format!("{} at {}", vh_core::panic_message(&*p), vh_core::last_panic_location())),
    }
  }

  /// Victims returned by one call. Returns (sum of recorded costs, sum of first-admission costs,
  /// all victims were tracked).
  fn take_victims(
    m: &mut Model,
    policy: &str,
    component: &str,
    victims: &[u64],
    at: usize,
    findings: &mut Vec<Finding>,
    stats: &mut Stats,
    check_order: bool,
  ) -> (u128, u128, bool) {
    // exact victim order for LRU / FIFO (order is asserted, the count is not)
    if check_order && !victims.is_empty() && victims.iter().all(|v| m.tracked.contains_key(v)) {
      if policy == "lru" {
        stats.order_checks += 1;
        let exp: Vec<u64> = m.lru.iter().copied().take(victims.len()).collect();
        if exp != victims {
          findings.push(Finding {
            rule: "victim-order".into(),
            variant: "not-least-recently-used".into(),
            at,
            keys: victims.to_vec(),
            detail: format!("evict returned {:?}, least-recently-used order is {:?}", victims, exp),
          });
        }
      } else if policy == "fifo" {
        stats.order_checks += 1;
        let e1: Vec<u64> = m.fifo_keep.iter().copied().take(victims.len()).collect();
        let e2: Vec<u64> = m.fifo_move.iter().copied().take(victims.len()).collect();
        if e1 != victims && e2 != victims {
          findings.push(Finding {
            rule: "victim-order".into(),
            variant: "not-insertion-order".into(),
            at,
            keys: victims.to_vec(),
            detail: format!(
              "evict returned {:?}, insertion order is {:?} (or {:?} if re-admission counts as insertion)",
              victims, e1, e2
            ),
          });
        }
      }
    }
    let mut sum: u128 = 0;
    let mut first_sum: u128 = 0;
    let mut all_tracked = true;
    for &v in victims {
      if m.lenient.contains(&v) {
        all_tracked = false;
        m.forget(v, Why::Nominated);
        continue;
      }
      let first = m.hist.get(&v).and_then(|h| h.first().copied());
      if m.touched.remove(&v) {
        stats.touched_then_evicted += 1;
      }
      match m.forget(v, Why::Nominated) {
        Some(c) => {
          sum += c as u128;
          first_sum += first.unwrap_or(c) as u128;
        }
        None => {
          all_tracked = false;
          let why = m.why(v);
          if why == Why::Nominated {
            findings.push(Finding {
              rule: "victim-twice".into(),
              variant: component.into(),
              at,
              keys: vec![v],
              detail: format!("{} nominated key {} again without re-admission", component, v),
            });
          } else {
            findings.push(Finding {
              rule: "victim-untracked".into(),
              variant: format!("{}-{}", component, why.name()),
              at,
              keys: vec![v],
              detail: format!("{} nominated key {} which is not tracked ({})", component, v, why.name()),
            });
          }
        }
      }
    }
    (sum, first_sum, all_tracked)
  }

  fn do_evict(
    pol: &dyn CachePolicy<u64, ()>,
    m: &mut Model,
    policy: &str,
    n: u64,
    at: usize,
    findings: &mut Vec<Finding>,
    stats: &mut Stats,
    trace: &mut Vec<String>,
  ) -> Result<Vec<u64>, ()> {
    let total_before = m.total();
    let r = guarded(|| pol.evict(n));
    let (victims, reported) = match r {
      Ok(x) => x,
      Err(p) => {
        findings.push(Finding { rule: "panic".into(), variant: "evict".into(), at, keys: vec![], detail: p });
        return Err(());
      }
    };
    if !victims.is_empty() {
      stats.evict_calls_with_victims += 1;
      stats.evict_victims += victims.len() as u64;
    }
    // did some victim go through a re-admission with a different cost? (then a wrong total is
    // attributed to the re-admission path, otherwise to "other")
    let stale_explains = victims
      .iter()
      .any(|v| m.hist.get(v).map_or(false, |h| h.iter().any(|c| Some(c) != h.last())));
    let (sum, first_sum, all_tracked) = take_victims(m, policy, "evict", &victims, at, findings, stats, true);
    trace.push(format!("evict({}) -> victims {:?} cost {}", n, victims, reported));
    let mismatch = all_tracked && reported as u128 != sum;
    if mismatch {
      let _ = first_sum;
      let variant = if stale_explains { "readmit-keeps-stale-cost" } else { "other" };
      findings.push(Finding {
        rule: "cost-mismatch".into(),
        variant: variant.into(),
        at,
        keys: victims.clone(),
        detail: format!(
          "evict({}) returned victims {:?} with cost {}, their recorded (last admitted) costs sum to {}",
          n, victims, reported, sum
        ),
      });
    }
    if n > 0 && total_before >= n as u128 {
      stats.evict_requested_reachable += 1;
      // when the policy's own arithmetic is off (cost-mismatch above) a short eviction is a
      // consequence of that, not a second defect
      if all_tracked && !mismatch && sum < n as u128 {
        findings.push(Finding {
          rule: "freed-short".into(),
          variant: if victims.is_empty() { "nothing-evicted".into() } else { "partial".into() },
          at,
          keys: m.tracked.keys().copied().collect(),
          detail: format!(
            "evict({}) freed {} (victims {:?}) although the tracked keys were worth {}; still tracked {:?}",
            n, sum, victims, total_before, m.tracked
          ),
        });
      }
    }
    Ok(victims)
  }

  /// Runs a case against a fresh policy instance. `final_drain`: finish with
  /// `evict(u64::MAX)` until it returns nothing and compare with the model's tracked set.
  pub fn run(case: &Case, final_drain: bool) -> Outcome {
    crate::seq::wd::beat();
    let pol = make(case.policy, case.cap);
    let pol: &dyn CachePolicy<u64, ()> = &*pol;
    let mut m = Model::default();
    let mut findings: Vec<Finding> = Vec::new();
    let mut stats = Stats::default();
    let mut trace: Vec<String> = Vec::new();
    let mut fatal = false;
    for (i, op) in case.ops.iter().enumerate() {
      *stats.calls.entry(op.kind()).or_default() += 1;
      match op {
        Op::Admit { k, cost, notify } => {
          let (k, cost) = (*k, *cost);
          if cost == 0 {
            stats.zero_cost_admits += 1;
          }
          if cost >= 1 << 32 {
            stats.huge_cost_admits += 1;
          }
          let r = guarded(|| pol.on_admit(&k, cost));
          let dec = match r {
            Ok(d) => d,
            Err(p) => {
              findings.push(Finding { rule: "panic".into(), variant: "on_admit".into(), at: i, keys: vec![k], detail: p });
              fatal = true;
              break;
            }
          };
          // the key is (re-)admitted first, then the victims leave
          m.lenient.remove(&k);
          match m.tracked.insert(k, cost) {
            Some(old) => {
              stats.admit_readmit += 1;
              if old != cost {
                stats.admit_readmit_cost_change += 1;
              }
              m.hist.entry(k).or_default().push(cost);
              m.touched.insert(k);
              m.lru.retain(|x| *x != k);
              m.lru.push(k);
              m.fifo_move.retain(|x| *x != k);
              m.fifo_move.push(k);
            }
            None => {
              stats.admit_new += 1;
              m.hist.insert(k, vec![cost]);
              m.touched.remove(&k);
              m.lru.push(k);
              m.fifo_keep.push(k);
              m.fifo_move.push(k);
            }
          }
          m.why.remove(&k);
          match dec {
            AdmissionDecision::Admit => trace.push(format!("on_admit({},{}) -> Admit", k, cost)),
            AdmissionDecision::Reject => {
              stats.rejects += 1;
              m.forget(k, Why::Never);
              m.lenient.insert(k);
              trace.push(format!("on_admit({},{}) -> Reject", k, cost));
            }
            AdmissionDecision::AdmitAndEvict(vs) => {
              stats.admit_and_evict += 1;
              stats.admit_victims += vs.len() as u64;
              trace.push(format!("on_admit({},{}) -> AdmitAndEvict({:?})", k, cost, vs));
              take_victims(&mut m, case.policy, "on_admit", &vs, i, &mut findings, &mut stats, false);
              if *notify {
                for v in &vs {
                  if let Err(p) = guarded(|| pol.on_remove(v)) {
                    findings.push(Finding { rule: "panic".into(), variant: "on_remove".into(), at: i, keys: vec![*v], detail: p });
                    fatal = true;
                  }
                  // the cache told the policy the victim is gone: a later nomination is untracked
                  if m.why(*v) == Why::Nominated {
                    m.why.insert(*v, Why::Removed);
                  }
                }
                if fatal {
                  break;
                }
              }
            }
          }
        }
        Op::Access { k, cost_if_untracked } => {
          let k = *k;
          let c = match m.tracked.get(&k) {
            Some(&c) => {
              stats.access_tracked += 1;
              m.lru.retain(|x| *x != k);
              m.lru.push(k);
              m.touched.insert(k);
              c
            }
            None => {
              stats.access_untracked += 1;
              *cost_if_untracked
            }
          };
          if let Err(p) = guarded(|| pol.on_access(&k, c)) {
            findings.push(Finding { rule: "panic".into(), variant: "on_access".into(), at: i, keys: vec![k], detail: p });
            fatal = true;
            break;
          }
          trace.push(format!("on_access({},{})", k, c));
        }
        Op::Remove { k } => {
          let k = *k;
          if let Err(p) = guarded(|| pol.on_remove(&k)) {
            findings.push(Finding { rule: "panic".into(), variant: "on_remove".into(), at: i, keys: vec![k], detail: p });
            fatal = true;
            break;
          }
          if m.forget(k, Why::Removed).is_some() {
            stats.remove_tracked += 1;
          } else {
            stats.remove_untracked += 1;
            m.why.insert(k, Why::Removed);
          }
          m.lenient.remove(&k);
          m.touched.remove(&k);
          trace.push(format!("on_remove({})", k));
        }
        Op::Evict { n } => {
          let total = m.total();
          let n = match n {
            EvictN::Zero => 0,
            EvictN::One => 1,
            EvictN::Abs(x) => *x,
            EvictN::Frac(num) => ((total * (*num as u128) + 7) / 8).min(u64::MAX as u128) as u64,
            EvictN::Total => total.min(u64::MAX as u128) as u64,
            EvictN::TotalPlus1 => (total + 1).min(u64::MAX as u128) as u64,
            EvictN::Max => u64::MAX,
          };
          if do_evict(pol, &mut m, case.policy, n, i, &mut findings, &mut stats, &mut trace).is_err() {
            fatal = true;
            break;
          }
        }
        Op::Clear => {
          if let Err(p) = guarded(|| pol.clear()) {
            findings.push(Finding { rule: "panic".into(), variant: "clear".into(), at: i, keys: vec![], detail: p });
            fatal = true;
            break;
          }
          let ks: Vec<u64> = m.tracked.keys().copied().collect();
          for k in ks {
            m.forget(k, Why::Cleared);
          }
          for (_, w) in m.why.iter_mut() {
            *w = Why::Cleared;
          }
          m.lenient.clear();
          m.touched.clear();
          trace.push("clear()".into());
        }
      }
    }

    if final_drain && !fatal {
      let at = case.ops.len();
      let start = m.tracked.len() as u64;
      let mut rounds = 0u64;
      loop {
        let before = findings.len();
        let r = do_evict(pol, &mut m, case.policy, u64::MAX, at, &mut findings, &mut stats, &mut trace);
        let vs = match r {
          Ok(v) => v,
          Err(()) => {
            fatal = true;
            break;
          }
        };
        stats.drain_rounds += 1;
        stats.drain_victims += vs.len() as u64;
        rounds += 1;
        if vs.is_empty() {
          break;
        }
        // a policy that keeps returning untracked keys would never end
        if rounds > start + 8 || findings.len() > before + 16 {
          break;
        }
      }
      let left: Vec<u64> = m.tracked.keys().copied().filter(|k| !m.lenient.contains(k)).collect();
      if !fatal && !left.is_empty() {
        // Classification probes (after the verdict, nothing below is asserted):
        //  stalled = the policy still knows the key (an access or a few new admissions make
        //            evict return it) but evict(u64::MAX) alone never reaches it;
        //  dropped = the key left the policy's resident set silently.
        let mut recovered: HashSet<u64> = HashSet::new();
        let probe = guarded(|| {
          let mut rec: HashSet<u64> = HashSet::new();
          for k in &left {
            pol.on_access(k, m.tracked[k]);
          }
          for _ in 0..left.len() + 2 {
            let (vs, _) = pol.evict(u64::MAX);
            if vs.is_empty() {
              break;
            }
            rec.extend(vs);
          }
          for j in 0..6u64 {
            let _ = pol.on_admit(&(1_000_000 + j), 1);
          }
          let _ = pol.on_admit(&1_000_100, case.cap.saturating_add(1).min(1 << 40));
          for _ in 0..left.len() + 10 {
            let (vs, _) = pol.evict(u64::MAX);
            if vs.is_empty() {
              break;
            }
            rec.extend(vs);
          }
          rec
        });
        if let Ok(r) = probe {
          recovered = r;
        }
        let stalled: Vec<u64> = left.iter().copied().filter(|k| recovered.contains(k)).collect();
        let dropped: Vec<u64> = left.iter().copied().filter(|k| !recovered.contains(k)).collect();
        for (class, ks) in [("dropped", dropped), ("stalled", stalled)] {
          if ks.is_empty() {
            continue;
          }
          findings.push(Finding {
            rule: "resident-unevictable".into(),
            variant: class.into(),
            at,
            keys: ks.clone(),
            detail: format!(
              "final drain evict(u64::MAX) (repeated until it returned nothing, {} rounds) never returned keys {:?} \
               which were admitted and neither nominated nor removed since (recorded costs {:?}); class {}",
              rounds,
              ks,
              ks.iter().map(|k| m.tracked[k]).collect::<Vec<_>>(),
              class
            ),
          });
        }
      }
    }

    let mut h = Fnv::default();
    h.bytes(case.policy.as_bytes());
    h.u64(case.cap);
    for t in &trace {
      h.bytes(t.as_bytes());
    }
    Outcome { findings, stats, trace, shape: h.finish() }
  }

  /// For a final-drain finding: the shortest prefix of the program after which the drain
  /// already fails, and the kind of the last call of that prefix relative to the lost keys.
  /// Returns (prefix length, finding of the minimal prefix, "after-…" label).
  pub fn localize_drain(case: &Case, rule: &str) -> Option<(usize, Finding, String)> {
    for p in 1..=case.ops.len() {
      let pc = case.prefix(p);
      let o = run(&pc, true);
      if let Some(f) = o.findings.iter().find(|f| f.rule == rule && f.at == p) {
        let last = &pc.ops[p - 1];
        let label = match (last.kind(), last.key()) {
          ("admit", Some(k)) if f.keys.contains(&k) => "after-own-admit".to_string(),
          ("admit", _) => "after-admit-of-other-key".to_string(),
          ("access", Some(k)) if f.keys.contains(&k) => "after-own-access".to_string(),
          ("access", _) => "after-access-of-other-key".to_string(),
          (kind, _) => format!("after-{}", kind),
        };
        return Some((p, f.clone(), label));
      }
    }
    None
  }

  /// A finding with its canonical `<rule>/<variant>` and the smallest prefix that shows it.
  pub struct Canon {
    pub rule: String,
    pub variant: String,
    pub witness: Case,
    pub drain: bool,
    pub detail: String,
    pub keys: Vec<u64>,
  }

  /// Maps the raw findings of a run to canonical ones. `may_localize(rule)` gates the
  /// O(n^2) prefix search; a finding that would need it but is refused is returned in `skipped`.
  pub fn canonical(case: &Case, o: &Outcome, may_localize: &mut dyn FnMut(&str) -> bool, skipped: &mut u64) -> Vec<Canon> {
    let mut out: Vec<Canon> = Vec::new();
    let mut pstar: Option<Option<(usize, Finding, String)>> = None;
    let push = |c: Canon, out: &mut Vec<Canon>| {
      if !out.iter().any(|x| x.rule == c.rule && x.variant == c.variant) {
        out.push(c);
      }
    };
    for f in &o.findings {
      let drain = f.at == case.ops.len();
      if f.rule == "resident-unevictable" || f.rule == "freed-short" {
        // a short eviction is a symptom: if the keys that were left are unevictable even for
        // evict(u64::MAX) the root cause is the one the drain names
        if !may_localize(&f.rule) {
          *skipped += 1;
          continue;
        }
        let base = if drain { case.clone() } else { case.prefix(f.at + 1) };
        // the shortest failing prefix of the whole program is also the shortest failing
        // prefix of every base that contains it: search once per case
        if pstar.is_none() {
          pstar = Some(localize_drain(case, "resident-unevictable"));
        }
        let loc = match pstar.as_ref().unwrap() {
          Some((p, mf, label)) if *p <= base.ops.len() => Some((*p, mf.clone(), label.clone())),
          _ => None,
        };
        match loc {
          Some((p, mf, label)) => push(
            Canon {
              rule: "resident-unevictable".into(),
              // class only (dropped | stalled): the call after which the key became
              // unreachable varies for one and the same root cause, it goes into the detail
              variant: mf.variant.clone(),
              witness: base.prefix(p),
              drain: true,
              detail: format!("{}; first unreachable {}", mf.detail, label),
              keys: mf.keys.clone(),
            },
            &mut out,
          ),
          None if f.rule == "freed-short" => push(
            Canon {
              rule: f.rule.clone(),
              variant: f.variant.clone(),
              witness: base,
              drain: false,
              detail: f.detail.clone(),
              keys: f.keys.clone(),
            },
            &mut out,
          ),
          None => push(
            Canon {
              rule: f.rule.clone(),
              variant: format!("{}-unlocalized", f.variant),
              witness: base,
              drain: true,
              detail: f.detail.clone(),
              keys: f.keys.clone(),
            },
            &mut out,
          ),
        }
      } else {
        push(
          Canon {
            rule: f.rule.clone(),
            variant: f.variant.clone(),
            witness: if drain { case.clone() } else { case.prefix(f.at + 1) },
            drain,
            detail: f.detail.clone(),
            keys: f.keys.clone(),
          },
          &mut out,
        );
      }
    }
    out
  }

  /// Greedy one-call-at-a-time shrinking of a witness that keeps the canonical signature.
  pub fn shrink(c: &Canon) -> Canon {
    let same = |cand: &Case| -> Option<Canon> {
      let o = run(cand, c.drain);
      let mut sk = 0;
      canonical(cand, &o, &mut |_| true, &mut sk)
        .into_iter()
        .find(|x| x.rule == c.rule && x.variant == c.variant && x.witness.ops.len() == cand.ops.len())
    };
    let mut best = Canon {
      rule: c.rule.clone(),
      variant: c.variant.clone(),
      witness: c.witness.clone(),
      drain: c.drain,
      detail: c.detail.clone(),
      keys: c.keys.clone(),
    };
    if best.witness.ops.len() > 120 {
      return best;
    }
    for _pass in 0..4 {
      let mut changed = false;
      let mut i = best.witness.ops.len();
      while i > 0 {
        i -= 1;
        if best.witness.ops.len() <= 1 {
          break;
        }
        let mut cand = best.witness.clone();
        cand.ops.remove(i);
        if let Some(x) = same(&cand) {
          best = x;
          changed = true;
        }
      }
      if !changed {
        break;
      }
    }
    best
  }

  pub struct GenCfg {
    pub max_len: u64,
  }

  pub fn gen_case(rng: &mut Rng, policy: &'static str, cfg: &GenCfg) -> Case {
    let cap = *rng.pick(&[1u64, 2, 3, 4, 5, 8, 10, 16, 20, 50, 100, 1000, 10_000]);
    let nkeys = *rng.pick(&[1u64, 2, 3, 4, 5, 6, 8, 12, 16, 32]);
    let len = match rng.below(4) {
      0 => rng.range(1, 12),
      1 => rng.range(8, 40),
      _ => rng.range(20, cfg.max_len.max(21)),
    };
    // cost profile of the case
    let profile = rng.below(6);
    let w_admit = rng.range(20, 50) as u32;
    let w_access = rng.range(5, 45) as u32;
    let w_remove = rng.range(0, 12) as u32;
    let w_evict = rng.range(3, 20) as u32;
    let w_clear = if rng.chance(1, 4) { 1 } else { 0 };
    let mut ops = Vec::with_capacity(len as usize);
    for _ in 0..len {
      let k = rng.below(nkeys);
      let cost = |rng: &mut Rng| -> u64 {
        match profile {
          0 => 1,
          1 => rng.range(1, cap.min(10).max(1)),
          2 => {
            if rng.chance(1, 3) {
              0
            } else {
              rng.range(1, 4)
            }
          }
          3 => match rng.below(10) {
            0 | 1 => 0,
            2..=5 => 1,
            6 | 7 => rng.range(2, 10),
            8 => rng.range(11, 1000),
            _ => (1u64 << rng.range(32, 50)) + rng.below(1000),
          },
          4 => {
            if rng.chance(1, 2) {
              (1u64 << rng.range(32, 50)) + rng.below(7)
            } else {
              rng.range(0, 3)
            }
          }
          _ => rng.range(0, cap.saturating_mul(2).min(1 << 40)),
        }
      };
      let op = match rng.weighted(&[w_admit, w_access, w_remove, w_evict, w_clear]) {
        0 => Op::Admit { k, cost: cost(rng), notify: !rng.chance(1, 8) },
        1 => Op::Access { k, cost_if_untracked: cost(rng) },
        2 => Op::Remove { k },
        3 => Op::Evict {
          n: match rng.below(12) {
            0 => EvictN::Zero,
            1 | 2 => EvictN::One,
            3 => EvictN::Abs(rng.range(2, 10)),
            4 => EvictN::Abs(cost(rng)),
            5 | 6 => EvictN::Frac(rng.range(1, 7)),
            7 => EvictN::Total,
            8 => EvictN::TotalPlus1,
            9 => EvictN::Max,
            10 => EvictN::Abs(cap),
            _ => EvictN::Frac(4),
          },
        },
        _ => Op::Clear,
      };
      ops.push(op);
    }
    Case { policy, cap, ops }
  }
}

pub mod cs {
  //! C12 / C17: a real `Cache` / `AsyncCache` (both handles on one shared core) driven from one
  //! thread under the frozen virtual clock, with the background janitor reduced to a no-op
  //! (`maintenance_chance(2^31)`: its periodic pass is gated by that probability), so time and
  //! maintenance only move when the program says so.

  use fibre_cache::policy::CachePolicy;
  use fibre_cache::snapshot::CacheSnapshot;
  use fibre_cache::{verif_clock as vc, AsyncCache, AsyncEntry, Cache, CacheBuilder, Entry, TaskSpawner};
  use futures_executor::block_on;
  use futures_util::StreamExt;
  use serde::{Deserialize, Serialize};
  use serde_json::{json, Value};
  use std::collections::hash_map::DefaultHasher;
  use std::collections::{BTreeMap, BTreeSet, VecDeque};
  use std::future::Future;
  use std::pin::Pin;
  use std::sync::atomic::{AtomicBool, AtomicU64, Ordering};
  use std::sync::{Arc, Mutex};
  use std::task::{Context, Poll, Wake, Waker};
  use std::time::{Duration, Instant};
  use vh_core::rng::Rng;
  use vh_core::Fnv;

  // ------------------------------------------------------------------ infrastructure

  /// Deterministic, seedable hasher so that shard placement varies per case but replays.
  #[derive(Clone, Default)]
  pub struct SeedHash(pub u64);
  impl std::hash::BuildHasher for SeedHash {
    type Hasher = DefaultHasher;
    fn build_hasher(&self) -> DefaultHasher {
      let mut h = DefaultHasher::new();
      std::hash::Hasher::write_u64(&mut h, self.0);
      h
    }
  }
  pub type SCache = Cache<u64, u64, SeedHash>;
  pub type ACache = AsyncCache<u64, u64, SeedHash>;
  type Task = Pin<Box<dyn Future<Output = ()> + Send>>;

  /// Spawner for async loaders: tasks are queued and run by the harness thread, so whether a
  /// background refresh was triggered and when it completes is decided deterministically.
  #[derive(Default)]
  pub struct QueueSpawner {
    q: Mutex<VecDeque<Task>>,
    pub spawned: AtomicU64,
  }
  impl TaskSpawner for QueueSpawner {
    fn spawn(&self, f: Task) {
      self.spawned.fetch_add(1, Ordering::SeqCst);
      self.q.lock().unwrap().push_back(f);
    }
  }
  impl QueueSpawner {
    fn pop(&self) -> Option<Task> {
      self.q.lock().unwrap().pop_front()
    }
    pub fn pending(&self) -> usize {
      self.q.lock().unwrap().len()
    }
  }

  struct ThreadWaker {
    th: std::thread::Thread,
    flag: AtomicBool,
  }
  impl Wake for ThreadWaker {
    fn wake(self: Arc<Self>) {
      self.flag.store(true, Ordering::SeqCst);
      self.th.unpark();
    }
  }

  pub const STUCK: &str = "VH_STUCK: async call made no progress (wall-clock watchdog)";

  /// Minimal single-threaded executor: polls `fut`; while it is pending runs the tasks queued
  /// on the spawner; otherwise parks until woken (e.g. by a loader thread).
  pub fn drive<F: Future>(fut: F, sp: Option<&QueueSpawner>) -> F::Output {
    let tw = Arc::new(ThreadWaker { th: std::thread::current(), flag: AtomicBool::new(false) });
    let waker = Waker::from(tw.clone());
    let mut cx = Context::from_waker(&waker);
    let mut fut = std::pin::pin!(fut);
    let start = Instant::now();
    loop {
      if let Poll::Ready(x) = fut.as_mut().poll(&mut cx) {
        return x;
      }
      if let Some(sp) = sp {
        let mut ran = false;
        while let Some(t) = sp.pop() {
          ran = true;
          drive(t, Some(sp));
        }
        if ran {
          continue;
        }
      }
      while !tw.flag.swap(false, Ordering::SeqCst) {
        std::thread::park_timeout(Duration::from_millis(5));
        if start.elapsed() > Duration::from_secs(20) {
          panic!("{}", STUCK);
        }
      }
    }
  }

  pub const LOAD_BASE: u64 = 1 << 40;

  #[derive(Clone, Debug)]
  pub struct LoadCall {
    pub key: u64,
    pub val: u64,
    /// `/proc/<pid>/task/<tid>` of the thread that ran the loader (thread loaders only)
    pub tid: Option<String>,
  }
  #[derive(Default)]
  pub struct LoaderLog {
    pub calls: Mutex<Vec<LoadCall>>,
  }
  impl LoaderLog {
    fn record(&self, key: u64, with_tid: bool) -> u64 {
      let tid = if with_tid {
        std::fs::read_link("/proc/thread-self").ok().map(|p| format!("/proc/{}", p.display()))
      } else {
        None
      };
      let mut c = self.calls.lock().unwrap();
      let val = LOAD_BASE + c.len() as u64;
      c.push(LoadCall { key, val, tid });
      val
    }
    pub fn len(&self) -> usize {
      self.calls.lock().unwrap().len()
    }
    pub fn since(&self, n: usize) -> Vec<LoadCall> {
      self.calls.lock().unwrap()[n..].to_vec()
    }
  }

  #[derive(Clone, Copy, Debug, Serialize, Deserialize, PartialEq)]
  pub enum LoaderKind {
    None,
    /// sync loader: the library runs it on a thread it spawns
    Thread,
    /// async loader on the harness' queue spawner
    Task,
  }

  #[derive(Clone, Debug, Serialize, Deserialize)]
  pub struct CacheCfg {
    /// None = unbounded
    pub capacity: Option<u64>,
    /// "default" (no factory) or one of the eight policy names
    pub policy: String,
    pub shards: usize,
    pub ttl: Option<u64>,
    pub tti: Option<u64>,
    pub grace: Option<u64>,
    pub loader: LoaderKind,
    pub hseed: u64,
    pub wheel_tick_ns: Option<u64>,
    pub wheel_size: Option<usize>,
    pub introspect: bool,
    pub janitor_tick_ms: u64,
  }

  fn cache_policy(name: &str, cap: u64) -> Box<dyn CachePolicy<u64, u64>> {
    use fibre_cache::policy::*;
    match name {
      "tinylfu" => Box::new(tinylfu::TinyLfuPolicy::new(cap)),
      "sieve" => Box::new(sieve::SievePolicy::new()),
      "slru" => Box::new(slru::SlruPolicy::new(cap)),
      "arc" => Box::new(arc::ArcPolicy::new(cap as usize)),
      "lru" => Box::new(lru::LruPolicy::new()),
      "fifo" => Box::new(fifo::Fifo::new()),
      "clock" => Box::new(clock::ClockPolicy::new()),
      "random" => Box::new(random::RandomPolicy::new()),
      other => panic!("unknown policy {}", other),
    }
  }

  pub struct Rig {
    pub s: SCache,
    pub a: ACache,
    pub sp: Arc<QueueSpawner>,
    pub log: Arc<LoaderLog>,
    pub loader: LoaderKind,
  }

  fn builder(cfg: &CacheCfg, log: &Arc<LoaderLog>, sp: &Arc<QueueSpawner>) -> CacheBuilder<u64, u64, SeedHash> {
    let mut b = CacheBuilder::<u64, u64, SeedHash>::new()
      .hasher(SeedHash(cfg.hseed))
      .shards(cfg.shards)
      .janitor_tick_interval(Duration::from_millis(cfg.janitor_tick_ms))
      // the janitor's periodic pass and the opportunistic pass on insert are both gated by
      // this probability: 2^-31 parks them
      .maintenance_chance(1 << 31)
      .maintenance_on_introspection(cfg.introspect)
      .spawner(sp.clone() as Arc<dyn TaskSpawner>);
    b = match cfg.capacity {
      Some(c) => b.capacity(c),
      None => b.unbounded(),
    };
    if cfg.policy != "default" {
      let name = cfg.policy.clone();
      let shards = cfg.shards.max(1).next_power_of_two() as u64;
      let per = cfg.capacity.map(|c| (c + shards - 1) / shards).unwrap_or(1000).min(100_000);
      b = b.cache_policy_factory(move || cache_policy(&name, per));
    }
    if let Some(d) = cfg.ttl {
      b = b.time_to_live(Duration::from_nanos(d));
    }
    if let Some(d) = cfg.tti {
      b = b.time_to_idle(Duration::from_nanos(d));
    }
    if let Some(d) = cfg.grace {
      b = b.stale_while_revalidate(Duration::from_nanos(d));
    }
    if let Some(d) = cfg.wheel_tick_ns {
      b = b.timer_tick_duration(Duration::from_nanos(d));
    }
    if let Some(n) = cfg.wheel_size {
      b = b.timer_wheel_size(n);
    }
    match cfg.loader {
      LoaderKind::None => {}
      LoaderKind::Thread => {
        let log = log.clone();
        b = b.loader(move |k: u64| (log.record(k, true), 1));
      }
      LoaderKind::Task => {
        let log = log.clone();
        b = b.async_loader(move |k: u64| {
          let log = log.clone();
          async move { (log.record(k, false), 1) }
        });
      }
    }
    b
  }

  #[derive(Clone, Debug)]
  pub struct SnapEnt {
    pub key: u64,
    pub val: u64,
    pub cost: u64,
    pub ttl_remaining: Option<u64>,
  }

  pub fn snapshot_entries(s: &CacheSnapshot<u64, u64>) -> Vec<SnapEnt> {
    // the entry type is crate-private: look at it through its serialized form
    let v = serde_json::to_value(s).expect("snapshot to json");
    v["entries"]
      .as_array()
      .map(|a| {
        a.iter()
          .map(|e| SnapEnt {
            key: e["key"].as_u64().unwrap(),
            val: e["value"].as_u64().unwrap(),
            cost: e["cost"].as_u64().unwrap(),
            ttl_remaining: if e["ttl_remaining"].is_null() {
              None
            } else {
              Some(e["ttl_remaining"]["secs"].as_u64().unwrap() * 1_000_000_000 + e["ttl_remaining"]["nanos"].as_u64().unwrap())
            },
          })
          .collect()
      })
      .unwrap_or_default()
  }

  #[derive(Clone, Debug, Serialize, Deserialize, PartialEq)]
  pub enum IterApi {
    /// batch 0 = `iter()`, else `iter_with_batch_size`
    Iter { batch: usize },
    IterSnapshot,
    Stream { batch: usize },
    AsyncSnapshotIter,
    ToSnapshot { asy: bool },
  }
  impl IterApi {
    pub fn comp(&self) -> &'static str {
      match self {
        IterApi::Iter { .. } => "iter",
        IterApi::IterSnapshot => "iter_snapshot",
        IterApi::Stream { .. } => "async.iter_stream",
        IterApi::AsyncSnapshotIter => "async.iter_snapshot",
        IterApi::ToSnapshot { asy: false } => "to_snapshot",
        IterApi::ToSnapshot { asy: true } => "async.to_snapshot",
      }
    }
    pub fn batch(&self) -> usize {
      match self {
        IterApi::Iter { batch } | IterApi::Stream { batch } => {
          if *batch == 0 {
            64
          } else {
            *batch
          }
        }
        _ => usize::MAX,
      }
    }
  }

  impl Rig {
    pub fn build(cfg: &CacheCfg) -> Result<Rig, String> {
      let log = Arc::new(LoaderLog::default());
      let sp = Arc::new(QueueSpawner::default());
      let s = builder(cfg, &log, &sp).build().map_err(|e| format!("{:?}", e))?;
      let a = s.to_async();
      Ok(Rig { s, a, sp, log, loader: cfg.loader })
    }
    pub fn from_snapshot(cfg: &CacheCfg, snap: CacheSnapshot<u64, u64>, asy: bool) -> Result<Rig, String> {
      let log = Arc::new(LoaderLog::default());
      let sp = Arc::new(QueueSpawner::default());
      let b = builder(cfg, &log, &sp);
      let (s, a) = if asy {
        let a = b.build_from_snapshot_async(snap).map_err(|e| format!("{:?}", e))?;
        (a.to_sync(), a)
      } else {
        let s = b.build_from_snapshot(snap).map_err(|e| format!("{:?}", e))?;
        let a = s.to_async();
        (s, a)
      };
      Ok(Rig { s, a, sp, log, loader: cfg.loader })
    }
    pub fn get(&self, k: u64, asy: bool) -> Option<u64> {
      if asy {
        block_on(self.a.get(&k, |v| *v))
      } else {
        self.s.get(&k, |v| *v)
      }
    }
    pub fn fetch(&self, k: u64, asy: bool) -> Option<u64> {
      if asy {
        block_on(self.a.fetch(&k)).map(|v| *v)
      } else {
        self.s.fetch(&k).map(|v| *v)
      }
    }
    pub fn peek(&self, k: u64, asy: bool) -> Option<u64> {
      if asy {
        block_on(self.a.peek(&k)).map(|v| *v)
      } else {
        self.s.peek(&k).map(|v| *v)
      }
    }
    pub fn entry_get(&self, k: u64, asy: bool) -> Option<u64> {
      if asy {
        block_on(async {
          match self.a.entry(k).await {
            AsyncEntry::Occupied(o) => Some(*o.get()),
            AsyncEntry::Vacant(_) => None,
          }
        })
      } else {
        match self.s.entry(k) {
          Entry::Occupied(o) => Some(*o.get()),
          Entry::Vacant(_) => None,
        }
      }
    }
    pub fn entry_or_insert(&self, k: u64, v: u64, cost: u64, asy: bool) -> u64 {
      if asy {
        block_on(async { *self.a.entry(k).await.or_insert(v, cost) })
      } else {
        *self.s.entry(k).or_insert(v, cost)
      }
    }
    pub fn multiget(&self, ks: &[u64], asy: bool) -> BTreeMap<u64, u64> {
      if asy {
        block_on(self.a.multiget::<_, u64>(ks.to_vec())).into_iter().map(|(k, v)| (k, *v)).collect()
      } else {
        self.s.multiget::<_, u64>(ks.to_vec()).into_iter().map(|(k, v)| (k, *v)).collect()
      }
    }
    pub fn insert(&self, k: u64, v: u64, cost: u64, asy: bool) {
      if asy {
        block_on(self.a.insert(k, v, cost))
      } else {
        self.s.insert(k, v, cost)
      }
    }
    pub fn insert_ttl(&self, k: u64, v: u64, cost: u64, ttl: u64, asy: bool) {
      let d = Duration::from_nanos(ttl);
      if asy {
        block_on(self.a.insert_with_ttl(k, v, cost, d))
      } else {
        self.s.insert_with_ttl(k, v, cost, d)
      }
    }
    pub fn remove(&self, k: u64, asy: bool) -> Option<u64> {
      if asy {
        block_on(self.a.remove(&k)).map(|v| *v)
      } else {
        self.s.remove(&k).map(|v| *v)
      }
    }
    pub fn maintain(&self, asy: bool) {
      if asy {
        block_on(self.a.run_maintenance())
      } else {
        self.s.run_maintenance()
      }
    }
    pub fn snapshot(&self, asy: bool) -> CacheSnapshot<u64, u64> {
      if asy {
        block_on(self.a.to_snapshot())
      } else {
        self.s.to_snapshot()
      }
    }
    /// Runs whatever the library queued on the spawner (background refreshes) to completion.
    pub fn run_spawned(&self) -> u64 {
      let mut n = 0;
      while let Some(t) = self.sp.pop() {
        n += 1;
        drive(t, Some(&self.sp));
      }
      n
    }
    pub fn fetch_with(&self, k: u64, asy: bool) -> u64 {
      if asy {
        *drive(self.a.fetch_with(&k), Some(&self.sp))
      } else {
        *self.s.fetch_with(&k)
      }
    }
    /// Enumerates through `api`; `hook(i)` runs before the i-th `next()`. Stops after `limit`
    /// items (a cursor that does not advance would never end).
    pub fn iterate(&self, api: &IterApi, limit: usize, hook: &mut dyn FnMut(usize)) -> (Vec<(u64, u64)>, Vec<SnapEnt>) {
      let mut out: Vec<(u64, u64)> = Vec::new();
      let mut snap: Vec<SnapEnt> = Vec::new();
      let mut i = 0usize;
      match api {
        IterApi::Iter { batch } => {
          let mut it = if *batch == 0 { self.s.iter() } else { self.s.iter_with_batch_size(*batch) };
          loop {
            hook(i);
            i += 1;
            match it.next() {
              Some((k, v)) => out.push((k, *v)),
              None => break,
            }
            if out.len() > limit {
              break;
            }
          }
        }
        IterApi::IterSnapshot => {
          let mut it = self.s.iter_snapshot();
          loop {
            hook(i);
            i += 1;
            match it.next() {
              Some((k, v)) => out.push((k, *v)),
              None => break,
            }
            if out.len() > limit {
              break;
            }
          }
        }
        IterApi::Stream { batch } => {
          let mut st = if *batch == 0 { self.a.iter_stream() } else { self.a.iter_stream_with_batch_size(*batch) };
          loop {
            hook(i);
            i += 1;
            match block_on(st.next()) {
              Some((k, v)) => out.push((k, *v)),
              None => break,
            }
            if out.len() > limit {
              break;
            }
          }
        }
        IterApi::AsyncSnapshotIter => {
          let mut it = self.a.iter_snapshot_async();
          loop {
            hook(i);
            i += 1;
            match block_on(it.next()) {
              Some((k, v)) => out.push((k, *v)),
              None => break,
            }
            if out.len() > limit {
              break;
            }
          }
        }
        IterApi::ToSnapshot { asy } => {
          hook(0);
          snap = snapshot_entries(&self.snapshot(*asy));
          out = snap.iter().map(|e| (e.key, e.val)).collect();
        }
      }
      (out, snap)
    }
  }

  /// Waits (wall clock, watchdog only) until the threads that ran the given loader calls are gone.
  fn wait_threads_gone(calls: &[LoadCall]) -> bool {
    let start = Instant::now();
    for c in calls {
      let Some(p) = &c.tid else { return false };
      while std::path::Path::new(p).exists() {
        if start.elapsed() > Duration::from_secs(5) {
          return false;
        }
        std::thread::yield_now();
      }
    }
    true
  }

  static CLOCK_INIT: std::sync::Once = std::sync::Once::new();
  /// Freezes the cache clock (time then only moves through `advance`) and returns now.
  pub fn freeze_clock() -> u64 {
    vc::freeze();
    CLOCK_INIT.call_once(|| vc::advance(Duration::from_secs(1)));
    vc::now_nanos()
  }
  fn advance(ns: u64) -> u64 {
    vc::advance(Duration::from_nanos(ns));
    vc::now_nanos()
  }

  // ------------------------------------------------------------------ findings

  #[derive(Clone, Debug)]
  pub struct Finding {
    pub prop: &'static str,
    pub comp: String,
    pub rule: String,
    pub variant: String,
    pub at: usize,
    pub detail: String,
  }
  impl Finding {
    pub fn sig(&self) -> String {
      format!("{}/{}/{}/{}", self.prop, self.comp, self.rule, self.variant)
    }
  }

  #[derive(Default)]
  pub struct Outcome {
    pub findings: Vec<Finding>,
    /// things seen that belong to another property (never violations here)
    pub other: BTreeMap<String, u64>,
    pub counters: BTreeMap<String, u64>,
    pub trace: Vec<String>,
    pub inconclusive: Vec<String>,
    pub nontrivial: bool,
    pub shape: u64,
  }
  impl Outcome {
    fn c(&mut self, k: &str, n: u64) {
      *self.counters.entry(k.to_string()).or_default() += n;
    }
    fn o(&mut self, k: &str) {
      *self.other.entry(k.to_string()).or_default() += 1;
    }
  }

  fn comp(name: &str, asy: bool) -> String {
    if asy {
      format!("async.{}", name)
    } else {
      name.to_string()
    }
  }

  // ------------------------------------------------------------------ C12 model

  #[derive(Clone, Copy, Debug, PartialEq)]
  enum Origin {
    Insert,
    InsertTtl,
    Entry,
    Loader,
    Refresh,
  }
  impl Origin {
    fn name(self) -> &'static str {
      match self {
        Origin::Insert => "inserted-by-insert",
        Origin::InsertTtl => "inserted-by-insert_with_ttl",
        Origin::Entry => "inserted-by-entry",
        Origin::Loader => "inserted-by-loader",
        Origin::Refresh => "inserted-by-stale-refresh",
      }
    }
    /// coarse class used in signatures
    fn class(self) -> &'static str {
      match self {
        Origin::Insert | Origin::InsertTtl => "inserted-directly",
        _ => "inserted-by-entry-or-loader",
      }
    }
  }

  #[derive(Clone, Debug)]
  struct Ent {
    val: u64,
    cost: u64,
    exp: Option<u64>,
    item_ttl: bool,
    /// interval of possible last-access instants (TTI reference)
    la_lo: u64,
    la_hi: u64,
    origin: Origin,
    /// false once something may legitimately have collected it
    sure: bool,
  }

  #[derive(Clone, Copy, PartialEq)]
  enum Rc {
    Refresh,
    NoRefresh,
    Open,
  }

  struct Model {
    ttl: Option<u64>,
    tti: Option<u64>,
    grace: Option<u64>,
    ents: BTreeMap<u64, Ent>,
    /// keys the model lost track of (after a violation / foreign value): nothing is asserted
    unknown: BTreeSet<u64>,
  }

  impl Model {
    /// Some(cause) if the entry is expired at `t` whatever the open choices were.
    fn def_expired(&self, e: &Ent, t: u64) -> Option<&'static str> {
      if let Some(x) = e.exp {
        if t >= x {
          return Some(if e.item_ttl { "item-ttl" } else { "ttl" });
        }
      }
      if let Some(d) = self.tti {
        if t >= e.la_hi.saturating_add(d) {
          return Some("tti");
        }
      }
      None
    }
    /// certainly present and certainly unexpired at `t`
    fn def_live(&self, e: &Ent, t: u64) -> bool {
      e.sure && e.exp.map_or(true, |x| t < x) && self.tti.map_or(true, |d| t < e.la_lo.saturating_add(d))
    }
    fn tti_live(&self, e: &Ent, t: u64) -> bool {
      self.tti.map_or(true, |d| t < e.la_lo.saturating_add(d))
    }
    fn in_grace(&self, e: &Ent, t: u64) -> bool {
      match (self.grace, e.exp) {
        (Some(g), Some(x)) => t >= x && t < x.saturating_add(g),
        _ => false,
      }
    }
    fn new_ent(&self, val: u64, cost: u64, t: u64, item_ttl: Option<u64>, origin: Origin) -> Ent {
      let (exp, item) = match item_ttl {
        Some(d) => (Some(t + d), true),
        None => (self.ttl.map(|d| t + d), false),
      };
      Ent { val, cost, exp, item_ttl: item, la_lo: t, la_hi: t, origin, sure: true }
    }
  }

  #[derive(Clone, Debug, Serialize, Deserialize, PartialEq)]
  pub enum Op {
    Insert { k: u64, cost: u64, asy: bool },
    InsertTtl { k: u64, cost: u64, ttl: u64, asy: bool },
    Remove { k: u64, asy: bool },
    Advance { ns: u64 },
    Maintain { asy: bool },
    /// peek every key the model holds certainly live (second opinion by get)
    Audit,
    Get { k: u64, asy: bool },
    Fetch { k: u64, asy: bool },
    Peek { k: u64, asy: bool },
    EntryGet { k: u64, asy: bool },
    EntryOrInsert { k: u64, asy: bool },
    Multiget { ks: Vec<u64>, asy: bool },
    Enumerate { api: IterApi },
    FetchWith { k: u64, asy: bool },
    /// `inner` (a read of `hk`) is invoked on a second thread while this thread holds the write
    /// lock of hk's shard through a live `entry(hk)`; the clock moves by `ns` while the reader
    /// waits, then the lock is released. The read of `hk` can only happen after the release,
    /// i.e. at the advanced time: model = Advance(ns); inner.
    LockWait { hk: u64, ns: u64, inner: Box<Op> },
  }

  #[derive(Clone, Debug)]
  enum Pre {
    Val(Option<u64>),
    Map(BTreeMap<u64, u64>),
  }

  impl Op {
    fn name(&self) -> String {
      match self {
        Op::Insert { asy, .. } => comp("insert", *asy),
        Op::InsertTtl { asy, .. } => comp("insert_with_ttl", *asy),
        Op::Remove { asy, .. } => comp("remove", *asy),
        Op::Advance { .. } => "advance".into(),
        Op::Maintain { asy } => comp("run_maintenance", *asy),
        Op::Audit => "audit".into(),
        Op::Get { asy, .. } => comp("get", *asy),
        Op::Fetch { asy, .. } => comp("fetch", *asy),
        Op::Peek { asy, .. } => comp("peek", *asy),
        Op::EntryGet { asy, .. } | Op::EntryOrInsert { asy, .. } => comp("entry", *asy),
        Op::Multiget { asy, .. } => comp("multiget", *asy),
        Op::Enumerate { api } => api.comp().to_string(),
        Op::FetchWith { asy, .. } => comp("fetch_with", *asy),
        Op::LockWait { inner, .. } => inner.name(),
      }
    }
  }

  pub struct Gen12 {
    pub keys: Vec<u64>,
    pub len: usize,
    pub weights: Vec<u32>,
  }

  pub enum Source<'a> {
    Gen(&'a mut Rng, Gen12),
    Fixed(&'a [Op]),
  }

  struct Run12<'a> {
    cfg: &'a CacheCfg,
    rig: Rig,
    m: Model,
    now: u64,
    out: Outcome,
    next_val: u64,
    ops: Vec<Op>,
    last_mutator: String,
    loads_seen: usize,
    aborted: bool,
    /// result of an operation that was already executed (behind a lock, on another thread)
    pre: Option<Pre>,
  }

  const DURS: [u64; 12] =
    [1, 2, 5, 1_000, 1_000_000, 50_000_000, 1_000_000_000, 1_500_000_000, 5_000_000_000, 61_000_000_000, 3_600_000_000_000, 0];

  pub fn gen_cfg12(rng: &mut Rng, janitor_tick_ms: u64) -> CacheCfg {
    let pick_dur = |rng: &mut Rng| -> u64 {
      let d = *rng.pick(&DURS);
      if d == 0 {
        // zero TTL only rarely: the entry is expired the instant it is inserted
        if rng.chance(1, 6) {
          0
        } else {
          rng.range(1, 2_000_000_000)
        }
      } else {
        d
      }
    };
    let mode = rng.below(11);
    // 0-3 TTL only, 4-5 TTI only, 6 both, 7-9 stale-while-revalidate (needs TTL + loader),
    // 10 neither: only entries written with insert_with_ttl ever expire
    let (ttl, tti, grace) = match mode {
      10 => (None, None, None),
      0..=3 => (Some(pick_dur(rng)), None, None),
      4 | 5 => (None, Some(pick_dur(rng).max(1)), None),
      6 => (Some(pick_dur(rng)), Some(pick_dur(rng).max(1)), None),
      _ => (
        Some(pick_dur(rng)),
        if rng.chance(1, 8) { Some(pick_dur(rng).max(1)) } else { None },
        Some(pick_dur(rng).max(1)),
      ),
    };
    let loader = if grace.is_some() || rng.chance(1, 3) {
      if rng.chance(1, 2) {
        LoaderKind::Task
      } else {
        LoaderKind::Thread
      }
    } else {
      LoaderKind::None
    };
    let (wheel_tick_ns, wheel_size) = match rng.below(4) {
      0 => (None, None),
      1 => (Some(10_000_000), Some(100)),
      2 => (Some(30_000_000_000), Some(120)),
      _ => (Some(*rng.pick(&[1_000_000u64, 100_000_000, 1_000_000_000])), Some(*rng.pick(&[1usize, 2, 8, 60]))),
    };
    CacheCfg {
      capacity: None,
      policy: "default".into(),
      shards: *rng.pick(&[1usize, 1, 2, 3, 4, 6, 8]),
      ttl,
      tti,
      grace,
      loader,
      hseed: rng.next(),
      wheel_tick_ns,
      wheel_size,
      introspect: rng.chance(1, 4),
      janitor_tick_ms,
    }
  }

  pub fn gen_plan12(rng: &mut Rng, cfg: &CacheCfg, max_len: u64) -> Gen12 {
    let nkeys = rng.range(1, 6);
    let base = rng.below(1 << 20) * 8;
    let keys: Vec<u64> = (0..nkeys).map(|i| base + i).collect();
    let has_loader = cfg.loader != LoaderKind::None;
    // order: insert, insert_ttl, remove, advance, maintain, audit, get, fetch, peek, entry_get,
    //        entry_or_insert, multiget, enumerate, fetch_with
    let maintain = if rng.chance(2, 5) { 0 } else { rng.range(1, 6) as u32 };
    let weights = vec![
      14,
      if rng.chance(1, 3) { 0 } else { 8 },
      2,
      22,
      maintain,
      3,
      6,
      6,
      6,
      5,
      4,
      4,
      9,
      if has_loader { 10 } else { 0 },
    ];
    Gen12 { keys, len: rng.range(8, max_len.max(9)) as usize, weights }
  }

  impl<'a> Run12<'a> {
    fn viol(&mut self, comp: &str, rule: &str, variant: &str, at: usize, detail: String) {
      self.out.findings.push(Finding { prop: "C12", comp: comp.into(), rule: rule.into(), variant: variant.into(), at, detail });
    }

    fn gen_advance_ns(&self, rng: &mut Rng) -> u64 {
      // interesting instants: deadlines, idle deadlines, ends of grace windows
      let mut inst: Vec<u64> = Vec::new();
      for e in self.m.ents.values() {
        if let Some(x) = e.exp {
          inst.push(x);
          if let Some(gr) = self.m.grace {
            inst.push(x.saturating_add(gr));
          }
        }
        if let Some(d) = self.m.tti {
          inst.push(e.la_lo.saturating_add(d));
          inst.push(e.la_hi.saturating_add(d));
        }
      }
      inst.retain(|x| *x >= self.now && *x < self.now + (1 << 50));
      if !inst.is_empty() && rng.chance(3, 4) {
        let d = *rng.pick(&inst);
        let target = match rng.below(4) {
          0 => d.saturating_sub(1),
          1 | 2 => d,
          _ => d + 1,
        };
        if target > self.now {
          return target - self.now;
        }
        return 1;
      }
      *rng.pick(&[1u64, 1, 10, 1_000, 1_000_000, 100_000_000, 1_000_000_000, 10_000_000_000])
    
    }

    fn gen_op(&self, rng: &mut Rng, g: &Gen12) -> Op {
      let k = *rng.pick(&g.keys);
      let asy = rng.chance(1, 2);
      if !self.m.ents.is_empty() && rng.chance(1, 24) {
        // a read that has to wait for the shard lock while time passes
        let with_deadline: Vec<u64> = self.m.ents.iter().filter(|(_, e)| e.exp.is_some() || self.m.tti.is_some()).map(|(k, _)| *k).collect();
        let hk = if !with_deadline.is_empty() && rng.chance(4, 5) { *rng.pick(&with_deadline) } else { k };
        let ns = self.gen_advance_ns(rng);
        let inner = match rng.below(6) {
          0 => Op::Get { k: hk, asy },
          1 => Op::Fetch { k: hk, asy },
          2 => Op::Peek { k: hk, asy },
          3 => Op::EntryGet { k: hk, asy },
          _ => Op::Multiget { ks: vec![hk], asy },
        };
        return Op::LockWait { hk, ns, inner: Box::new(inner) };
      }
      match rng.weighted(&g.weights) {
        0 => Op::Insert { k, cost: rng.range(0, 3), asy },
        1 => {
          let mut d = *rng.pick(&DURS);
          if d == 0 && !rng.chance(1, 6) {
            d = rng.range(1, 3_000_000_000);
          }
          Op::InsertTtl { k, cost: 1, ttl: d, asy }
        }
        2 => Op::Remove { k, asy },
        3 => Op::Advance { ns: self.gen_advance_ns(rng) },
        4 => Op::Maintain { asy },
        5 => Op::Audit,
        6 => Op::Get { k, asy },
        7 => Op::Fetch { k, asy },
        8 => Op::Peek { k, asy },
        9 => Op::EntryGet { k, asy },
        10 => Op::EntryOrInsert { k, asy },
        11 => {
          let n = rng.range(1, g.keys.len() as u64 + 1);
          let mut ks: Vec<u64> = (0..n).map(|_| *rng.pick(&g.keys)).collect();
          if rng.chance(1, 3) {
            ks.push(g.keys[0] + 100);
          }
          ks.sort();
          ks.dedup();
          Op::Multiget { ks, asy }
        }
        12 => Op::Enumerate {
          api: match rng.below(8) {
            0 => IterApi::Iter { batch: 0 },
            1 => IterApi::Iter { batch: *rng.pick(&[1usize, 2, 3]) },
            2 => IterApi::IterSnapshot,
            3 => IterApi::Stream { batch: 0 },
            4 => IterApi::Stream { batch: *rng.pick(&[1usize, 2, 3]) },
            5 => IterApi::AsyncSnapshotIter,
            6 => IterApi::ToSnapshot { asy: false },
            _ => IterApi::ToSnapshot { asy: true },
          },
        },
        _ => {
          let asy = match self.cfg.loader {
            LoaderKind::Task => true,
            _ => asy,
          };
          Op::FetchWith { k, asy }
        }
      }
    }

    /// Judges what a read returned for `k` (not used for fetch_with).
    fn check_read(&mut self, cmp: &str, k: u64, obs: Option<u64>, rc: Rc, at: usize) {
      let t = self.now;
      if self.m.unknown.contains(&k) {
        self.out.c("reads/on_key_in_unknown_state", 1);
        return;
      }
      let Some(e) = self.m.ents.get(&k).cloned() else {
        match obs {
          None => self.out.c("reads/absent_key_none", 1),
          Some(_) => {
            self.out.o(&format!("C11/{}/value-for-removed-or-never-inserted-key", cmp));
            self.m.unknown.insert(k);
          }
        }
        return;
      };
      let expired = self.m.def_expired(&e, t);
      if expired.is_some() {
        self.out.c("crossings/reads_of_expired_entry", 1);
        self.out.nontrivial = true;
      }
      match obs {
        Some(v) if v != e.val => {
          self.out.o(&format!("C11/{}/value-differs-from-last-write", cmp));
          self.m.unknown.insert(k);
        }
        Some(v) => {
          if let Some(cause) = expired {
            self.out.c(&format!("verdicts/expired-served/{}", cmp), 1);
            let x = e.exp.unwrap_or(0);
            self.viol(
              cmp,
              "expired-served",
              cause,
              at,
              format!(
                "{} returned value {} of key {} at t={} although it expired ({}): ttl deadline {:?}, last access in [{},{}], tti {:?}; {}",
                cmp, v, k, t, cause, e.exp, e.la_lo, e.la_hi, self.m.tti,
                if cause == "tti" { "".to_string() } else { format!("{} ns past the deadline", t - x) }
              ),
            );
          } else {
            self.out.c("verdicts/served_while_possibly_live", 1);
            if let Some(en) = self.m.ents.get_mut(&k) {
              en.sure = true;
              if self.m.tti.is_some() {
                match rc {
                  Rc::Refresh => {
                    en.la_lo = t;
                    en.la_hi = t;
                  }
                  Rc::Open => en.la_hi = en.la_hi.max(t),
                  Rc::NoRefresh => {}
                }
              }
            }
          }
        }
        None => {
          if self.m.def_live(&e, t) {
            self.out.c(&format!("verdicts/unexpired-missing/{}", cmp), 1);
            self.viol(
              cmp,
              "unexpired-missing",
              e.origin.class(),
              at,
              format!(
                "{} reported key {} missing at t={} on an unbounded cache although it is unexpired and was present at the last audit: \
                 value {}, ttl deadline {:?}, last access in [{},{}], tti {:?}, {}",
                cmp, k, t, e.val, e.exp, e.la_lo, e.la_hi, self.m.tti, e.origin.name()
              ),
            );
            self.m.ents.remove(&k);
            self.m.unknown.insert(k);
          } else {
            self.out.c("verdicts/none_while_possibly_expired_or_collected", 1);
          }
        }
      }
    }

    /// peek (second opinion: get) every key that must be there; blames `blame` for a loss.
    fn audit(&mut self, blame: &str, at: usize) {
      let t = self.now;
      let ks: Vec<u64> = self.m.ents.iter().filter(|(_, e)| self.m.def_live(e, t)).map(|(k, _)| *k).collect();
      for k in ks {
        let e = self.m.ents[&k].clone();
        self.out.c("audit/peeks", 1);
        match self.rig.peek(k, false) {
          Some(v) if v == e.val => {}
          Some(_) => {
            self.out.o(&format!("C11/{}/value-differs-from-last-write", blame));
            self.m.ents.remove(&k);
            self.m.unknown.insert(k);
          }
          None => {
            let g = self.rig.get(k, false);
            if g == Some(e.val) {
              // the entry is there: peek is the one that lost it
              if let Some(en) = self.m.ents.get_mut(&k) {
                if self.m.tti.is_some() {
                  en.la_lo = t;
                  en.la_hi = t;
                }
              }
              self.viol(
                "peek",
                "unexpired-missing",
                e.origin.class(),
                at,
                format!("peek reported key {} missing at t={} while get returns its value {} (unexpired, unbounded cache)", k, t, e.val),
              );
            } else {
              self.out.c(&format!("verdicts/unexpired-missing/{}", blame), 1);
              self.viol(
                blame,
                "unexpired-removed",
                e.origin.class(),
                at,
                format!(
                  "after {} key {} is gone (peek and get both miss) at t={} on an unbounded cache although it is unexpired: value {}, \
                   ttl deadline {:?}, last access in [{},{}], tti {:?}, {}",
                  blame, k, t, e.val, e.exp, e.la_lo, e.la_hi, self.m.tti, e.origin.name()
                ),
              );
              self.m.ents.remove(&k);
              self.m.unknown.insert(k);
            }
          }
        }
      }
    }

    fn late_loads(&mut self) {
      // a loader call nobody asked for in this step (e.g. a refresh triggered by a fresh hit):
      // not a C12 matter, but the model no longer knows the key's value
      let n = self.rig.log.len();
      if n != self.loads_seen {
        let calls = self.rig.log.since(self.loads_seen);
        wait_threads_gone(&calls);
        for c in calls {
          self.out.o("C15/loader/unrequested-load");
          self.m.ents.remove(&c.key);
          self.m.unknown.insert(c.key);
        }
        self.loads_seen = self.rig.log.len();
      }
    }

    fn do_fetch_with(&mut self, k: u64, asy: bool, at: usize) {
      let t = self.now;
      let cmp = comp("fetch_with", asy);
      let before = self.rig.log.len();
      let pre = self.m.ents.get(&k).cloned();
      let unknown = self.m.unknown.contains(&k);
      let r = self.rig.fetch_with(k, asy);
      let stale_serve = pre.as_ref().map_or(false, |e| r == e.val && self.m.in_grace(e, t));
      // ---- let the loader activity settle
      let mut settled = true;
      match self.cfg.loader {
        LoaderKind::Task => {
          self.rig.run_spawned();
        }
        LoaderKind::Thread => {
          if stale_serve {
            // the refresh thread was spawned inside fetch_with; wait for its loader call
            let start = Instant::now();
            while !self.rig.log.since(before).iter().any(|c| c.key == k) {
              if start.elapsed() > Duration::from_secs(2) {
                settled = false;
                break;
              }
              std::thread::yield_now();
            }
          }
          if !wait_threads_gone(&self.rig.log.since(before)) {
            settled = false;
          }
        }
        LoaderKind::None => {}
      }
      let calls = self.rig.log.since(before);
      self.loads_seen = self.rig.log.len();
      let mine: Vec<u64> = calls.iter().filter(|c| c.key == k).map(|c| c.val).collect();
      for c in calls.iter().filter(|c| c.key != k) {
        self.out.o("C15/loader/load-of-other-key");
        self.m.ents.remove(&c.key);
        self.m.unknown.insert(c.key);
      }
      self.out.c("fetch_with/loader_calls", mine.len() as u64);
      if !settled {
        self.out.inconclusive.push(format!("{}: loader thread activity did not settle within the watchdog", cmp));
        self.m.ents.remove(&k);
        self.m.unknown.insert(k);
        self.aborted = true;
        return;
      }
      let loaded = |m: &Model, v: u64, origin: Origin| -> Ent { m.new_ent(v, 1, t, None, origin) };
      if unknown {
        if mine.last() == Some(&r) {
          let e = loaded(&self.m, r, Origin::Loader);
          self.m.unknown.remove(&k);
          self.m.ents.insert(k, e);
        }
        return;
      }
      let Some(e) = pre else {
        // certainly absent: the value must come from the loader
        self.out.c("fetch_with/miss_load", 1);
        if mine.contains(&r) && mine.last() == Some(&r) {
          let e = loaded(&self.m, r, Origin::Loader);
          self.m.ents.insert(k, e);
        } else {
          self.out.o(&format!("C15/{}/value-not-from-this-load", cmp));
          self.m.unknown.insert(k);
        }
        return;
      };
      let expired = self.m.def_expired(&e, t);
      let grace = self.m.in_grace(&e, t);
      if expired.is_some() {
        self.out.c("crossings/reads_of_expired_entry", 1);
        self.out.nontrivial = true;
      }
      if r == e.val {
        if grace {
          self.out.c("fetch_with/stale_served_in_grace", 1);
          self.out.nontrivial = true;
          match mine.len() {
            0 => {
              self.viol(
                &cmp,
                "stale-no-refresh",
                "in-grace",
                at,
                format!(
                  "{} served stale value {} of key {} at t={} (deadline {:?}, grace {:?}) but no refresh ran: loader calls for the key: 0",
                  cmp, r, k, t, e.exp, self.m.grace
                ),
              );
              // still the stale entry
            }
            n => {
              if n > 1 {
                self.viol(
                  &cmp,
                  "refresh-ran-more-than-once",
                  "in-grace",
                  at,
                  format!("{} served stale value of key {} once but the loader ran {} times", cmp, k, n),
                );
              }
              let v2 = *mine.last().unwrap();
              let ne = self.m.new_ent(v2, 1, t, None, Origin::Refresh);
              self.m.ents.insert(k, ne);
              let p = self.rig.peek(k, false);
              self.out.c("fetch_with/refresh_completed", 1);
              // (with a zero TTL the refreshed entry is itself expired at once: nothing to see)
              let new_live = self.m.def_live(&self.m.ents[&k], t);
              if (new_live && p != Some(v2)) || (!new_live && p == Some(e.val)) {
                let variant = match p {
                  Some(x) if x == e.val => "stale-value-kept",
                  None => "entry-gone",
                  _ => "other-value",
                };
                self.viol(
                  &cmp,
                  "refresh-not-replacing",
                  variant,
                  at,
                  format!(
                    "after the refresh of key {} completed (loader returned {}) peek returns {:?} at t={} (stale value was {})",
                    k, v2, p, t, e.val
                  ),
                );
                self.m.ents.remove(&k);
                self.m.unknown.insert(k);
              }
            }
          }
        } else if let Some(cause) = expired {
          let variant = if cause == "tti" {
            "tti".to_string()
          } else if self.m.grace.is_some() {
            format!("{}-beyond-grace", cause)
          } else {
            cause.to_string()
          };
          self.out.c(&format!("verdicts/expired-served/{}", cmp), 1);
          self.viol(
            &cmp,
            "expired-served",
            &variant,
            at,
            format!(
              "{} returned value {} of key {} at t={} although it expired ({}): ttl deadline {:?}, grace {:?}, last access in [{},{}], tti {:?}",
              cmp, r, k, t, cause, e.exp, self.m.grace, e.la_lo, e.la_hi, self.m.tti
            ),
          );
          if let Some(v2) = mine.last() {
            let ne = loaded(&self.m, *v2, Origin::Loader);
            self.m.ents.insert(k, ne);
          }
        } else {
          self.out.c("fetch_with/hit", 1);
          if !mine.is_empty() {
            self.out.o("C15/loader/load-on-hit");
            self.m.ents.remove(&k);
            self.m.unknown.insert(k);
          } else if let Some(en) = self.m.ents.get_mut(&k) {
            en.sure = true;
            if self.m.tti.is_some() {
              en.la_lo = t;
              en.la_hi = t;
            }
          }
        }
      } else if mine.last() == Some(&r) {
        // the library treated it as a miss and loaded
        self.out.c("fetch_with/miss_load", 1);
        if self.m.def_live(&e, t) {
          self.out.c(&format!("verdicts/unexpired-missing/{}", cmp), 1);
          self.viol(
            &cmp,
            "unexpired-missing",
            e.origin.class(),
            at,
            format!(
              "{} ran the loader for key {} at t={} although the entry (value {}) is unexpired: deadline {:?}, last access in [{},{}], tti {:?}",
              cmp, k, t, e.val, e.exp, e.la_lo, e.la_hi, self.m.tti
            ),
          );
        } else if grace && e.sure && self.m.tti_live(&e, t) {
          self.viol(
            &cmp,
            "stale-not-served",
            "in-grace",
            at,
            format!(
              "{} loaded key {} synchronously at t={} although its stale value {} is inside the grace window (deadline {:?}, grace {:?})",
              cmp, k, t, e.val, e.exp, self.m.grace
            ),
          );
        }
        let ne = loaded(&self.m, r, Origin::Loader);
        self.m.ents.insert(k, ne);
      } else {
        self.out.o(&format!("C11/{}/value-differs-from-last-write", cmp));
        self.m.ents.remove(&k);
        self.m.unknown.insert(k);
      }
    }

    fn note_crossings(&mut self, before: u64) {
      // evidence: which deadlines were crossed / hit exactly
      let mut inst: Vec<u64> = Vec::new();
      for e in self.m.ents.values() {
        if let Some(x) = e.exp {
          inst.push(x);
          if let Some(g) = self.m.grace {
            inst.push(x.saturating_add(g));
          }
        }
        if let Some(d) = self.m.tti {
          inst.push(e.la_hi.saturating_add(d));
        }
      }
      for x in inst {
        if x > before && x <= self.now {
          self.out.c("crossings/deadlines_crossed", 1);
        }
        if x == self.now && x > before {
          self.out.c("crossings/landed_exactly_on_deadline", 1);
        }
        if x == self.now + 1 {
          self.out.c("crossings/landed_1ns_before_deadline", 1);
        }
        if x + 1 == self.now && x >= before {
          self.out.c("crossings/landed_1ns_after_deadline", 1);
        }
      }
    
    }

    fn step(&mut self, op: &Op, at: usize) {
      crate::seq::wd::beat();
      self.late_loads();
      let t = self.now;
      match op {
        Op::LockWait { .. } => self.out.c("ops/lock_wait", 1),
        _ => self.out.c(&format!("ops/{}", op.name()), 1),
      }
      match op {
        Op::Insert { k, cost, asy } => {
          let v = self.next_val;
          self.next_val += 1;
          self.rig.insert(*k, v, *cost, *asy);
          self.trace_push(format!("{}({}, value {}, cost {})", op.name(), k, v, cost));
          if self.m.ents.contains_key(k) {
            self.out.c("writes/overwrite", 1);
          }
          let e = self.m.new_ent(v, *cost, t, None, Origin::Insert);
          self.m.unknown.remove(k);
          self.m.ents.insert(*k, e);
          self.last_mutator = op.name();
        }
        Op::InsertTtl { k, cost, ttl, asy } => {
          let v = self.next_val;
          self.next_val += 1;
          self.rig.insert_ttl(*k, v, *cost, *ttl, *asy);
          self.trace_push(format!("{}({}, value {}, cost {}, ttl {} ns)", op.name(), k, v, cost, ttl));
          if self.m.ents.contains_key(k) {
            self.out.c("writes/overwrite", 1);
          }
          let e = self.m.new_ent(v, *cost, t, Some(*ttl), Origin::InsertTtl);
          self.m.unknown.remove(k);
          self.m.ents.insert(*k, e);
          self.last_mutator = op.name();
        }
        Op::Remove { k, asy } => {
          let r = self.rig.remove(*k, *asy);
          self.trace_push(format!("{} -> {:?}", op.name(), r));
          self.m.ents.remove(k);
          self.m.unknown.remove(k);
          self.last_mutator = op.name();
        }
        Op::LockWait { hk, ns, inner } => {
          // taking entry(hk) may purge hk when it is past its expiry (like Op::EntryGet)
          if self.m.ents.get(hk).map_or(false, |e| !self.m.def_live(e, t)) {
            self.m.ents.get_mut(hk).unwrap().sure = false;
          }
          let before = self.now;
          let (pre, early, asleep, newnow) = {
            let rig = &self.rig;
            let hold = rig.s.entry(*hk);
            let tid = std::sync::atomic::AtomicU64::new(0);
            std::thread::scope(|sc| {
              let h = sc.spawn(|| {
                tid.store(vh_core::stuck::tid_of_current().unwrap_or(0), Ordering::SeqCst);
                match &**inner {
                  Op::Get { k, asy } => Pre::Val(rig.get(*k, *asy)),
                  Op::Fetch { k, asy } => Pre::Val(rig.fetch(*k, *asy)),
                  Op::Peek { k, asy } => Pre::Val(rig.peek(*k, *asy)),
                  Op::EntryGet { k, asy } => Pre::Val(rig.entry_get(*k, *asy)),
                  Op::Multiget { ks, asy } => Pre::Map(rig.multiget(ks, *asy)),
                  other => panic!("LockWait cannot wrap {:?}", other),
                }
              });
              let asleep = vh_core::stuck::wait_asleep(
                || match tid.load(Ordering::SeqCst) {
                  0 => None,
                  x => Some(x),
                },
                || h.is_finished(),
                2,
                Duration::from_millis(if cfg!(miri) { 0 } else { 25 }),
              );
              // a reader that is already back did not need the lock (cannot happen while every
              // read path takes the shard lock): its read happened at the old time
              let early = h.is_finished();
              let newnow = if early { before } else { advance(*ns) };
              drop(hold);
              let pre = h.join().expect("reader behind the lock panicked");
              (pre, early, asleep, newnow)
            })
          };
          self.out.c("lock_wait/scenarios", 1);
          self.out.c(if asleep { "lock_wait/reader_seen_asleep_behind_the_lock" } else { "lock_wait/reader_not_seen_asleep" }, 1);
          if early {
            self.out.c("lock_wait/reader_returned_before_release", 1);
            self.pre = Some(pre);
            self.step(inner, at);
            self.step(&Op::Advance { ns: *ns }, at);
          } else {
            self.now = newnow;
            self.trace_push(format!("entry({}) held; reader invoked; clock +{} ns; released", hk, ns));
            self.note_crossings(before);
            self.pre = Some(pre);
            self.step(inner, at);
          }
          self.pre = None;
        }
        Op::Advance { ns } => {
          let before = self.now;
          self.now = advance(*ns);
          self.trace_push(format!("clock +{} ns", ns));
          self.note_crossings(before);
        }
        Op::Maintain { asy } => {
          self.rig.maintain(*asy);
          self.trace_push(op.name());
          let ks: Vec<u64> = self.m.ents.keys().copied().collect();
          for k in ks {
            let live = self.m.def_live(&self.m.ents[&k], t);
            if !live {
              // possibly expired: the pass may have collected it
              self.m.ents.get_mut(&k).unwrap().sure = false;
            }
          }
          // both flavours run the same janitor routines
          self.last_mutator = "run_maintenance".into();
          self.audit("run_maintenance", at);
        }
        Op::Audit => {
          let blame = self.last_mutator.clone();
          self.audit(&blame, at);
        }
        Op::Get { k, asy } => {
          let r = match self.pre.take() {
            Some(Pre::Val(v)) => v,
            _ => self.rig.get(*k, *asy),
          };
          self.trace_push(format!("{}({}) -> {:?}", op.name(), k, r));
          self.check_read(&op.name(), *k, r, Rc::Refresh, at);
        }
        Op::Fetch { k, asy } => {
          let r = match self.pre.take() {
            Some(Pre::Val(v)) => v,
            _ => self.rig.fetch(*k, *asy),
          };
          self.trace_push(format!("{}({}) -> {:?}", op.name(), k, r));
          self.check_read(&op.name(), *k, r, Rc::Refresh, at);
        }
        Op::Peek { k, asy } => {
          let r = match self.pre.take() {
            Some(Pre::Val(v)) => v,
            _ => self.rig.peek(*k, *asy),
          };
          self.trace_push(format!("{}({}) -> {:?}", op.name(), k, r));
          self.check_read(&op.name(), *k, r, Rc::NoRefresh, at);
        }
        Op::EntryGet { k, asy } => {
          let r = match self.pre.take() {
            Some(Pre::Val(v)) => v,
            _ => self.rig.entry_get(*k, *asy),
          };
          // entry() holds the shard write lock and may purge an entry that is past its expiry
          // (like a maintenance pass): from here on the entry is no longer certainly present.
          if self.m.ents.get(k).map_or(false, |e| !self.m.def_live(e, t)) {
            self.m.ents.get_mut(k).unwrap().sure = false;
          }
          self.trace_push(format!("{}({}) -> {:?}", op.name(), k, r.map(|v| format!("Occupied({})", v)).unwrap_or("Vacant".into())));
          self.check_read(&op.name(), *k, r, Rc::Open, at);
        }
        Op::EntryOrInsert { k, asy } => {
          let v = self.next_val;
          self.next_val += 1;
          let r = self.rig.entry_or_insert(*k, v, 1, *asy);
          if self.m.ents.get(k).map_or(false, |e| !self.m.def_live(e, t)) {
            self.m.ents.get_mut(k).unwrap().sure = false;
          }
          self.trace_push(format!("{}({}).or_insert({}) -> {}", op.name(), k, v, r));
          if r == v {
            // vacant: the default went in
            self.check_read(&op.name(), *k, None, Rc::Open, at);
            let e = self.m.new_ent(v, 1, t, None, Origin::Entry);
            self.m.unknown.remove(k);
            self.m.ents.insert(*k, e);
            self.last_mutator = op.name();
          } else {
            self.check_read(&op.name(), *k, Some(r), Rc::Open, at);
          }
        }
        Op::Multiget { ks, asy } => {
          let r = match self.pre.take() {
            Some(Pre::Map(m)) => m,
            _ => self.rig.multiget(ks, *asy),
          };
          self.trace_push(format!("{}({:?}) -> {:?}", op.name(), ks, r));
          for k in ks {
            self.check_read(&op.name(), *k, r.get(k).copied(), Rc::Refresh, at);
          }
        }
        Op::Enumerate { api } => {
          let (items, _) = self.rig.iterate(api, 10_000, &mut |_| {});
          self.trace_push(format!("{} -> {:?}", op.name(), items));
          let ks: Vec<u64> = self.m.ents.keys().copied().collect();
          let mut seen: BTreeMap<u64, u64> = BTreeMap::new();
          for (k, v) in &items {
            if seen.insert(*k, *v).is_some() {
              self.out.o(&format!("C17/{}/entry-yielded-twice", api.comp()));
            }
          }
          for (k, _) in &seen {
            if !self.m.ents.contains_key(k) && !self.m.unknown.contains(k) {
              self.out.o(&format!("C11/{}/value-for-removed-or-never-inserted-key", api.comp()));
              self.m.unknown.insert(*k);
            }
          }
          for k in ks {
            self.check_read(api.comp(), k, seen.get(&k).copied(), Rc::Open, at);
          }
        }
        Op::FetchWith { k, asy } => {
          if self.cfg.loader == LoaderKind::None || (self.cfg.loader == LoaderKind::Task && !*asy) {
            return;
          }
          self.do_fetch_with(*k, *asy, at);
          self.last_mutator = op.name();
          let m = format!("{}({})", op.name(), k);
          self.trace_push(m);
        }
      }
    }

    fn trace_push(&mut self, s: String) {
      if self.out.trace.len() < 400 {
        self.out.trace.push(format!("t={} {}", self.now, s));
      }
    }
  }

  /// Runs one C12 program on a fresh cache. Returns the outcome and the concrete ops executed.
  pub fn run12(cfg: &CacheCfg, mut src: Source) -> (Outcome, Vec<Op>) {
    let now = freeze_clock();
    let rig = match Rig::build(cfg) {
      Ok(r) => r,
      Err(e) => {
        let mut o = Outcome::default();
        o.inconclusive.push(format!("cache did not build: {}", e));
        return (o, vec![]);
      }
    };
    let mut r = Run12 {
      cfg,
      rig,
      m: Model { ttl: cfg.ttl, tti: cfg.tti, grace: cfg.grace, ents: BTreeMap::new(), unknown: BTreeSet::new() },
      now,
      out: Outcome::default(),
      next_val: 1,
      ops: Vec::new(),
      last_mutator: "build".into(),
      loads_seen: 0,
      aborted: false,
      pre: None,
    };
    let n = match &src {
      Source::Gen(_, g) => g.len,
      Source::Fixed(ops) => ops.len(),
    };
    for i in 0..n {
      let op = match &mut src {
        Source::Gen(rng, g) => r.gen_op(rng, g),
        Source::Fixed(ops) => ops[i].clone(),
      };
      r.ops.push(op.clone());
      r.step(&op, i);
      if r.aborted || r.out.findings.len() > 12 {
        break;
      }
    }
    // let background refreshes finish before the cache goes away
    r.rig.run_spawned();
    r.late_loads();
    let mut h = Fnv::default();
    h.bytes(format!("{:?}{:?}{:?}{:?}", cfg.ttl, cfg.tti, cfg.grace, cfg.loader).as_bytes());
    for t in &r.out.trace {
      // shape = op names and results without absolute times
      let s = t.splitn(2, ' ').nth(1).unwrap_or("");
      h.bytes(s.as_bytes());
    }
    for o in &r.ops {
      h.bytes(o.name().as_bytes());
    }
    r.out.shape = h.finish();
    let ops = std::mem::take(&mut r.ops);
    (r.out, ops)
  }

  /// Greedy shrinking of a C12 program that keeps a finding with signature `sig`.
  pub fn shrink12(cfg: &CacheCfg, ops: &[Op], sig: &str) -> Vec<Op> {
    let has = |cand: &[Op]| -> bool {
      let (o, _) = run12(cfg, Source::Fixed(cand));
      o.findings.iter().any(|f| f.sig() == sig)
    };
    let mut best: Vec<Op> = ops.to_vec();
    if !has(&best) {
      return best; // not reproducible from the recorded ops (should not happen)
    }
    for _ in 0..4 {
      let mut changed = false;
      let mut i = best.len();
      while i > 0 {
        i -= 1;
        if best.len() <= 1 {
          break;
        }
        let mut cand = best.clone();
        cand.remove(i);
        if has(&cand) {
          best = cand;
          changed = true;
        }
      }
      if !changed {
        break;
      }
    }
    best
  }

  pub fn program_json(cfg: &CacheCfg, ops: &[Op]) -> Value {
    json!({"config": cfg, "ops": ops})
  }

  // ------------------------------------------------------------------ C17

  #[derive(Clone, Debug, Serialize, Deserialize)]
  pub struct EntrySpec {
    pub k: u64,
    pub cost: u64,
    pub ttl: Option<u64>,
    /// inserted twice: the second value is the current one
    pub overwrite: bool,
    pub asy: bool,
  }

  #[derive(Clone, Debug, Serialize, Deserialize)]
  pub struct IterCase {
    pub cfg: CacheCfg,
    pub entries: Vec<EntrySpec>,
    /// clock step between the inserts and the enumeration
    pub pre_advance: u64,
    /// keys read (get) after the step: refreshes their idle time
    pub touch: Vec<u64>,
    pub api: IterApi,
    /// (index of the next() call before which the clock moves, ns)
    pub advances: Vec<(usize, u64)>,
  }

  #[derive(Clone, Debug, Serialize, Deserialize)]
  pub enum FillOp {
    Insert { k: u64, cost: u64, ttl: Option<u64> },
    Get { k: u64 },
    Advance { ns: u64 },
  }

  #[derive(Clone, Debug, Serialize, Deserialize)]
  pub struct RestoreCase {
    pub cfg: CacheCfg,
    pub fill: Vec<FillOp>,
    pub asy_snapshot: bool,
    pub roundtrip: bool,
    /// clock step between snapshot and rebuild
    pub gap: u64,
    pub asy_restore: bool,
    /// inserts after the rebuild (key, cost)
    pub post: Vec<(u64, u64)>,
    /// > 0: to_snapshot is invoked on a second thread while this thread holds one shard's write
    /// lock through a live `entry(k)`; the clock moves by this much while it waits, then the
    /// lock is released - the snapshot instant is the advanced time.
    #[serde(default)]
    pub lock_wait: u64,
  }

  #[derive(Clone, Debug, Serialize, Deserialize)]
  pub enum Case17 {
    Iter(IterCase),
    Restore(RestoreCase),
  }

  pub fn case17_json(c: &Case17) -> Value {
    serde_json::to_value(c).unwrap()
  }
  pub fn case17_brief(c: &Case17) -> String {
    match c {
      Case17::Iter(i) => format!("iter scenario: api {:?}, {} entries, shards {}, advances {:?}", i.api, i.entries.len(), i.cfg.shards, i.advances),
      Case17::Restore(r) => format!("restore scenario: policy {}, capacity {:?}, shards {}", r.cfg.policy, r.cfg.capacity, r.cfg.shards),
    }
  }
  pub fn case17_small(c: &Case17) -> bool {
    match c {
      Case17::Iter(i) => i.entries.len() <= 6,
      Case17::Restore(r) => r.fill.len() <= 10 && r.post.len() <= 6,
    }
  }
  pub fn run17_json(v: &Value) -> Outcome {
    let c: Case17 = serde_json::from_value(v.clone()).expect("case");
    run17(&c)
  }
  pub fn run17(c: &Case17) -> Outcome {
    match c {
      Case17::Iter(i) => run17_iter(i),
      Case17::Restore(r) => run17_restore(r),
    }
  }

  pub fn gen_case17(rng: &mut Rng, tick: u64, only: Option<&str>, thorough: bool) -> Case17 {
    let restore = match only {
      Some("iter") => false,
      Some("restore") => true,
      _ => rng.chance(3, 10),
    };
    if restore {
      Case17::Restore(gen_restore(rng, tick))
    } else {
      Case17::Iter(gen_iter(rng, tick, thorough))
    }
  }

  fn distinct_keys(rng: &mut Rng, n: usize) -> Vec<u64> {
    let mut s: BTreeSet<u64> = BTreeSet::new();
    let dense = rng.chance(1, 3);
    let base = rng.below(1 << 30);
    let mut i = 0u64;
    while s.len() < n {
      if dense {
        s.insert(base + i);
        i += 1;
      } else {
        s.insert(rng.below(1 << 40));
      }
    }
    let mut v: Vec<u64> = s.into_iter().collect();
    rng.shuffle(&mut v);
    v
  }

  fn gen_iter(rng: &mut Rng, tick: u64, thorough: bool) -> IterCase {
    let n = match rng.below(16) {
      0 => 0,
      1 => 1,
      2 => 2,
      3 => 63,
      4 => 64,
      5 => 65,
      6 => 127,
      7 => 128,
      8 => 129,
      9 => {
        if thorough || rng.chance(1, 3) {
          1000
        } else {
          200
        }
      }
      10 | 11 => rng.range(3, 20),
      12 => rng.range(20, 70),
      _ => rng.range(60, 140),
    } as usize;
    let shards = rng.range(1, 16) as usize;
    let batch = *rng.pick(&[0usize, 1, 2, 63, 64, 65, 3, 7]);
    let api = match rng.below(10) {
      0 | 1 | 2 => IterApi::Iter { batch },
      3 => IterApi::IterSnapshot,
      4 | 5 | 6 => IterApi::Stream { batch },
      7 => IterApi::AsyncSnapshotIter,
      8 => IterApi::ToSnapshot { asy: false },
      _ => IterApi::ToSnapshot { asy: true },
    };
    // time plan: A expires at or before `pre`, B between pre and pre+during, C later / never
    let pre: u64 = *rng.pick(&[0u64, 1_000, 1_000_000, 2_000_000_000]);
    let during: u64 = if rng.chance(2, 3) { *rng.pick(&[1u64, 10, 1_000_000, 5_000_000_000]) } else { 0 };
    let (pa, pb) = match rng.below(5) {
      0 => (0, 0),
      1 => (30, 0),
      2 => (0, 40),
      3 => (25, 25),
      _ => (rng.range(0, 90), rng.range(0, 50)),
    };
    let tti = if rng.chance(1, 6) { Some(pre + during + rng.range(1, 1_000_000_000)) } else { None };
    let global_ttl = if rng.chance(1, 4) { Some(pre + during + rng.range(1, 10_000_000_000)) } else { None };
    let keys = distinct_keys(rng, n);
    let mut entries = Vec::with_capacity(n);
    for k in keys {
      let g = rng.below(100);
      let ttl = if g < pa && pre > 0 {
        // expired when the enumeration begins (sometimes exactly at the deadline)
        Some(if rng.chance(1, 3) { pre } else { rng.range(1, pre) })
      } else if g < pa + pb && during > 0 {
        Some(pre + rng.range(1, during))
      } else if rng.chance(1, 2) {
        None
      } else {
        Some(pre + during + rng.range(1, 1 << 40))
      };
      entries.push(EntrySpec { k, cost: rng.range(0, 3), ttl, overwrite: rng.chance(1, 8), asy: rng.chance(1, 2) });
    }
    let mut advances: Vec<(usize, u64)> = Vec::new();
    if during > 0 && !matches!(api, IterApi::ToSnapshot { .. }) {
      let parts = rng.range(1, 3);
      let mut left = during;
      for i in 0..parts {
        let amt = if i + 1 == parts { left } else { rng.range(0, left) };
        left -= amt;
        if amt > 0 {
          advances.push((rng.below(n as u64 + 2) as usize, amt));
        }
      }
      advances.sort();
    }
    let touch: Vec<u64> = if tti.is_some() { entries.iter().filter(|_| rng.chance(1, 5)).map(|e| e.k).take(20).collect() } else { vec![] };
    let bounded = rng.chance(1, 4);
    IterCase {
      cfg: CacheCfg {
        capacity: if bounded { Some(10_000) } else { None },
        policy: if bounded { rng.pick(&["default", "lru", "sieve", "slru"]).to_string() } else { "default".into() },
        shards,
        ttl: global_ttl,
        tti,
        grace: None,
        loader: LoaderKind::None,
        hseed: rng.next(),
        wheel_tick_ns: None,
        wheel_size: None,
        introspect: rng.chance(1, 4),
        janitor_tick_ms: tick,
      },
      entries,
      pre_advance: pre,
      touch,
      api,
      advances,
    }
  }

  /// The restore scenario keeps one cost per key: overwriting with a different cost is what
  /// upsets some policies' own accounting (C13/C14 matter) and would blur the comparison.
  fn key_cost(k: u64) -> u64 {
    match vh_core::rng::splitmix(k) % 8 {
      0 => 0,
      6 => 2,
      7 => 4,
      _ => 1,
    }
  }

  fn gen_restore(rng: &mut Rng, tick: u64) -> RestoreCase {
    let policy = rng.pick(&["default", "tinylfu", "sieve", "slru", "arc", "lru", "fifo", "clock", "random"]).to_string();
    let capacity = *rng.pick(&[5u64, 10, 20, 50, 100, 1000]);
    let shards = *rng.pick(&[1usize, 2, 4, 8]);
    let global_ttl = if rng.chance(1, 3) { Some(rng.range(1_000_000_000, 100_000_000_000)) } else { None };
    let tti = if rng.chance(1, 8) { Some(rng.range(50_000_000_000, 500_000_000_000)) } else { None };
    let nkeys = rng.range(1, (capacity * 2).min(60)) as usize;
    let keys = distinct_keys(rng, nkeys);
    let nfill = rng.range(1, (capacity * 3).min(120));
    let mut fill = Vec::new();
    for _ in 0..nfill {
      let k = *rng.pick(&keys);
      match rng.below(10) {
        0 => fill.push(FillOp::Get { k }),
        1 => fill.push(FillOp::Advance { ns: *rng.pick(&[1u64, 1_000_000, 500_000_000, 2_000_000_000]) }),
        _ => {
          let cost = key_cost(k);
          let ttl = match rng.below(5) {
            0 => Some(*rng.pick(&[1u64, 1_000_000, 3_000_000_000, 10_000_000_000, 60_000_000_000])),
            1 => Some(rng.range(1, 20_000_000_000)),
            _ => None,
          };
          fill.push(FillOp::Insert { k, cost, ttl });
        }
      }
    }
    let npost = rng.range(0, (capacity * 3).min(150));
    let fresh = distinct_keys(rng, 40);
    let mut post = Vec::new();
    for _ in 0..npost {
      let k = if rng.chance(1, 4) { *rng.pick(&keys) } else { *rng.pick(&fresh) };
      post.push((k, key_cost(k)));
    }
    RestoreCase {
      cfg: CacheCfg {
        capacity: Some(capacity),
        policy,
        shards,
        ttl: global_ttl,
        tti,
        grace: None,
        loader: LoaderKind::None,
        hseed: rng.next(),
        wheel_tick_ns: None,
        wheel_size: None,
        introspect: rng.chance(1, 4),
        janitor_tick_ms: tick,
      },
      fill,
      asy_snapshot: rng.chance(1, 2),
      roundtrip: rng.chance(2, 3),
      gap: if rng.chance(1, 3) { *rng.pick(&[1u64, 1_000_000_000, 30_000_000_000]) } else { 0 },
      asy_restore: rng.chance(1, 2),
      post,
      lock_wait: if rng.chance(1, 4) { *rng.pick(&[1u64, 1_000_000, 700_000_000, 2_500_000_000, 15_000_000_000]) } else { 0 },
    }
  }

  fn f17(comp: &str, rule: &str, variant: &str, detail: String) -> Finding {
    Finding { prop: "C17", comp: comp.into(), rule: rule.into(), variant: variant.into(), at: 0, detail }
  }

  /// What an enumeration returned against what it had to return.
  ///  * `must`: key -> value of the entries live from start to end and confirmed present
  ///  * `must_not`: key -> cause of the entries already expired when the enumeration began
  ///  * `known`: every key that was ever written -> its current value (None = unknown / removed)
  fn judge_enumeration(
    out: &mut Outcome,
    comp: &str,
    items: &[(u64, u64)],
    must: &BTreeMap<u64, u64>,
    must_not: &BTreeMap<u64, &'static str>,
    known: &BTreeMap<u64, u64>,
    ctx: &str,
    shape: &str,
  ) {
    let mut seen: BTreeMap<u64, u64> = BTreeMap::new();
    let mut dup: Vec<u64> = Vec::new();
    for (k, v) in items {
      if seen.insert(*k, *v).is_some() {
        dup.push(*k);
      }
    }
    out.c("enumeration/items_yielded", items.len() as u64);
    out.c("enumeration/must_yield", must.len() as u64);
    out.c("enumeration/must_not_yield_expired_at_start", must_not.len() as u64);
    if !dup.is_empty() {
      out.findings.push(f17(
        comp,
        "entry-yielded-twice",
        shape,
        format!("{} yielded keys {:?} more than once ({} items, {} distinct); {}", comp, &dup[..dup.len().min(8)], items.len(), seen.len(), ctx),
      ));
    }
    let phantom: Vec<u64> = seen.keys().copied().filter(|k| !known.contains_key(k)).collect();
    if !phantom.is_empty() {
      out.findings.push(f17(comp, "phantom-entry", shape, format!("{} yielded keys that were never written: {:?}; {}", comp, &phantom[..phantom.len().min(8)], ctx)));
    }
    let wrong: Vec<(u64, u64, u64)> =
      seen.iter().filter_map(|(k, v)| known.get(k).filter(|cur| *cur != v).map(|cur| (*k, *v, *cur))).collect();
    if !wrong.is_empty() {
      out.findings.push(f17(
        comp,
        "not-current-value",
        shape,
        format!("{} yielded (key, value, current value) {:?}; {}", comp, &wrong[..wrong.len().min(8)], ctx),
      ));
    }
    let exp: Vec<(u64, &str)> = seen.keys().filter_map(|k| must_not.get(k).map(|c| (*k, *c))).collect();
    if !exp.is_empty() {
      let cause = exp[0].1;
      out.findings.push(f17(
        comp,
        "expired-yielded",
        cause,
        format!("{} yielded {} entries that were expired when the enumeration began, e.g. {:?}; {}", comp, exp.len(), &exp[..exp.len().min(8)], ctx),
      ));
    }
    let missing: Vec<u64> = must.keys().copied().filter(|k| !seen.contains_key(k)).collect();
    if !missing.is_empty() {
      out.findings.push(f17(
        comp,
        "live-omitted",
        shape,
        format!(
          "{} omitted {} of {} entries that were live throughout, e.g. keys {:?}; {}",
          comp, missing.len(), must.len(), &missing[..missing.len().min(8)], ctx
        ),
      ));
    }
  }

  pub fn run17_iter(c: &IterCase) -> Outcome {
    crate::seq::wd::beat();
    let mut out = Outcome::default();
    let t0 = freeze_clock();
    let rig = match Rig::build(&c.cfg) {
      Ok(r) => r,
      Err(e) => {
        out.inconclusive.push(format!("cache did not build: {}", e));
        return out;
      }
    };
    let m = Model { ttl: c.cfg.ttl, tti: c.cfg.tti, grace: None, ents: BTreeMap::new(), unknown: BTreeSet::new() };
    let mut ents: BTreeMap<u64, Ent> = BTreeMap::new();
    let mut val = 1u64;
    for (i, e) in c.entries.iter().enumerate() {
      let reps = if e.overwrite { 2 } else { 1 };
      for _ in 0..reps {
        match e.ttl {
          Some(d) => rig.insert_ttl(e.k, val, e.cost, d, e.asy),
          None => rig.insert(e.k, val, e.cost, e.asy),
        }
        ents.insert(e.k, m.new_ent(val, e.cost, t0, e.ttl, Origin::Insert));
        val += 1;
      }
      // keep the policy's event buffer drained on bounded caches (no eviction: capacity is ample)
      if c.cfg.capacity.is_some() && i % 8 == 7 {
        rig.maintain(false);
      }
    }
    let mut now = if c.pre_advance > 0 { advance(c.pre_advance) } else { t0 };
    for k in &c.touch {
      if rig.get(*k, false).is_some() {
        if let Some(e) = ents.get_mut(k) {
          e.la_lo = now;
          e.la_hi = now;
        }
      }
    }
    let ts = now;
    // ground truth before: peek every entry that is not certainly expired
    let mut present: BTreeSet<u64> = BTreeSet::new();
    for (k, e) in &ents {
      if m.def_expired(e, ts).is_none() {
        match rig.peek(*k, false) {
          Some(v) if v == e.val => {
            present.insert(*k);
          }
          Some(_) => out.o("C11/peek/value-differs-from-last-write"),
          None => {
            if m.def_live(e, ts) {
              out.o("C12/peek/unexpired-missing-before-enumeration");
            }
          }
        }
      }
    }
    let adv = c.advances.clone();
    let mut moved = 0u64;
    let limit = c.entries.len() * 3 + 100;
    let (items, snap) = rig.iterate(&c.api, limit, &mut |i| {
      for (pos, ns) in &adv {
        if *pos == i {
          now = advance(*ns);
          moved += 1;
        }
      }
    });
    let te = now;
    // ... and after: at quiescence an entry seen before and after was there throughout (on a
    // bounded cache the policy's admission filter may drop entries during the flush that the
    // enumeration itself triggers)
    let present: BTreeSet<u64> = present.into_iter().filter(|k| rig.peek(*k, false) == Some(ents[k].val)).collect();
    let mut must: BTreeMap<u64, u64> = BTreeMap::new();
    let mut must_not: BTreeMap<u64, &'static str> = BTreeMap::new();
    let mut known: BTreeMap<u64, u64> = BTreeMap::new();
    let (mut na, mut nb) = (0u64, 0u64);
    for (k, e) in &ents {
      known.insert(*k, e.val);
      if let Some(cause) = m.def_expired(e, ts) {
        must_not.insert(*k, cause);
        na += 1;
      } else if m.def_live(e, te) && present.contains(k) {
        must.insert(*k, e.val);
      } else {
        nb += 1;
      }
    }
    let batch = c.api.batch();
    let multi_batch = batch != usize::MAX && ents.len() > batch;
    let shape = if moved > 0 {
      "clock-moved-between-batches"
    } else if na > 0 {
      "with-expired-entries"
    } else if multi_batch {
      "multi-batch"
    } else {
      "plain"
    };
    let ctx = format!(
      "{} entries in {} shards, batch {}, {} expired at start, {} expiring during, clock moved {} times, start t={} end t={}",
      ents.len(), c.cfg.shards.max(1).next_power_of_two(), if batch == usize::MAX { 0 } else { batch }, na, nb, moved, ts, te
    );
    out.c(&format!("enumeration/by_api/{}", c.api.comp()), 1);
    out.c(&format!("enumeration/by_shape/{}", shape), 1);
    out.c(&format!("enumeration/shards/{}", c.cfg.shards.max(1).next_power_of_two()), 1);
    out.c(&format!("enumeration/batch/{}", if batch == usize::MAX { "n-a".to_string() } else { batch.to_string() }), 1);
    out.c(
      &format!(
        "enumeration/size_class/{}",
        match ents.len() {
          0 => "0",
          1 => "1",
          2..=62 => "2-62",
          63..=65 => "63-65",
          66..=126 => "66-126",
          127..=129 => "127-129",
          130..=999 => "130-999",
          _ => "1000",
        }
      ),
      1,
    );
    out.c("enumeration/entries_expired_at_start", na);
    out.c("enumeration/entries_expiring_during", nb);
    out.c("enumeration/clock_moves_between_next_calls", moved);
    if items.len() > limit {
      out.findings.push(f17(c.api.comp(), "does-not-terminate", shape, format!("{} yielded more than {} items; {}", c.api.comp(), limit, ctx)));
    }
    judge_enumeration(&mut out, c.api.comp(), &items, &must, &must_not, &known, &ctx, shape);
    // snapshot only: costs and remaining lifetimes
    for s in &snap {
      if let Some(e) = ents.get(&s.key) {
        if s.val == e.val && s.cost != e.cost {
          out.findings.push(f17(c.api.comp(), "cost-mismatch", "entry", format!("snapshot entry {} has cost {}, inserted with {}; {}", s.key, s.cost, e.cost, ctx)));
        }
        if s.val == e.val {
          match (s.ttl_remaining, e.exp) {
            (Some(r), Some(x)) if r > x.saturating_sub(ts) => out.findings.push(f17(
              c.api.comp(),
              "ttl-remaining-too-long",
              "entry",
              format!("snapshot entry {} has ttl_remaining {} ns, the entry has {} ns left; {}", s.key, r, x.saturating_sub(ts), ctx),
            )),
            (None, Some(x)) => out.findings.push(f17(
              c.api.comp(),
              "ttl-remaining-too-long",
              "deadline-dropped",
              format!("snapshot entry {} has no ttl_remaining, the entry has {} ns left; {}", s.key, x.saturating_sub(ts), ctx),
            )),
            _ => {}
          }
        }
      }
    }
    out.nontrivial = multi_batch || na > 0 || moved > 0;
    if out.trace.len() < 8 {
      out.trace.push(format!("{}; yielded {} items", ctx, items.len()));
      if items.len() <= 12 {
        out.trace.push(format!("items {:?}", items));
      }
    }
    let mut h = Fnv::default();
    h.bytes(c.api.comp().as_bytes());
    for x in [batch as u64, ents.len() as u64, c.cfg.shards as u64, na, nb, must.len() as u64, moved, c.cfg.hseed] {
      h.u64(x);
    }
    for (p, _) in &c.advances {
      h.u64(*p as u64);
    }
    out.shape = h.finish();
    out
  }

  /// run_maintenance until two consecutive passes change nothing observable (bounded).
  fn maintain_to_fixpoint(rig: &Rig, keys: &BTreeSet<u64>) -> bool {
    crate::seq::wd::beat();
    let view = |rig: &Rig| -> (u64, u64, u64, usize) {
      let m = rig.s.metrics();
      let resident = keys.iter().filter(|k| rig.peek(**k, false).is_some()).count();
      (m.current_cost, m.evicted_by_capacity, m.evicted_by_ttl + m.evicted_by_tti, resident)
    };
    let mut stable = 0;
    let mut last = view(rig);
    for _ in 0..80 {
      rig.maintain(false);
      let v = view(rig);
      if v == last {
        stable += 1;
        // 512-slot event buffer drained 16 per pass and shard: enough passes to empty a backlog
        if stable >= 3 {
          return true;
        }
      } else {
        stable = 0;
      }
      last = v;
    }
    false
  }

  pub fn run17_restore(c: &RestoreCase) -> Outcome {
    crate::seq::wd::beat();
    let mut out = Outcome::default();
    let cap = c.cfg.capacity.unwrap_or(u64::MAX);
    let t_start = freeze_clock();
    let orig = match Rig::build(&c.cfg) {
      Ok(r) => r,
      Err(e) => {
        out.inconclusive.push(format!("cache did not build: {}", e));
        return out;
      }
    };
    let m = Model { ttl: c.cfg.ttl, tti: c.cfg.tti, grace: None, ents: BTreeMap::new(), unknown: BTreeSet::new() };
    let mut ents: BTreeMap<u64, Ent> = BTreeMap::new();
    let mut now = t_start;
    let mut val = 1u64;
    let mut all_keys: BTreeSet<u64> = BTreeSet::new();
    let mut since_maint = 0;
    for op in &c.fill {
      match op {
        FillOp::Insert { k, cost, ttl } => {
          match ttl {
            Some(d) => orig.insert_ttl(*k, val, *cost, *d, false),
            None => orig.insert(*k, val, *cost, false),
          }
          ents.insert(*k, m.new_ent(val, *cost, now, *ttl, Origin::Insert));
          all_keys.insert(*k);
          val += 1;
          since_maint += 1;
          if since_maint >= 8 {
            orig.maintain(false);
            since_maint = 0;
          }
        }
        FillOp::Get { k } => {
          let _ = orig.get(*k, false);
        }
        FillOp::Advance { ns } => now = advance(*ns),
      }
    }
    if !maintain_to_fixpoint(&orig, &all_keys) {
      out.inconclusive.push("original cache did not reach a maintenance fixpoint in 80 passes".into());
      return out;
    }
    // ---- to_snapshot behind a held shard lock: taken first, judged below against the content at the advanced time
    let mut early_snap: Option<CacheSnapshot<u64, u64>> = None;
    if c.lock_wait > 0 && !all_keys.is_empty() {
      let hk = *all_keys.iter().next().unwrap();
      let before = now;
      let (snap, early, asleep, newnow) = {
        let rig = &orig;
        let hold = rig.s.entry(hk);
        let tid = std::sync::atomic::AtomicU64::new(0);
        std::thread::scope(|sc| {
          let h = sc.spawn(|| {
            tid.store(vh_core::stuck::tid_of_current().unwrap_or(0), Ordering::SeqCst);
            rig.snapshot(c.asy_snapshot)
          });
          let asleep = vh_core::stuck::wait_asleep(
            || match tid.load(Ordering::SeqCst) {
              0 => None,
              x => Some(x),
            },
            || h.is_finished(),
            2,
            Duration::from_millis(if cfg!(miri) { 0 } else { 25 }),
          );
          let early = h.is_finished();
          let newnow = if early { before } else { advance(c.lock_wait) };
          drop(hold);
          (h.join().expect("to_snapshot behind the lock panicked"), early, asleep, newnow)
        })
      };
      now = newnow;
      out.c("restore/lock_wait/scenarios", 1);
      out.c(if asleep { "restore/lock_wait/snapshot_seen_asleep_behind_the_lock" } else { "restore/lock_wait/snapshot_not_seen_asleep" }, 1);
      if early {
        out.c("restore/lock_wait/snapshot_returned_before_release", 1);
      }
      early_snap = Some(snap);
    }
    let t0 = now;
    // ---- ground truth: what the original cache holds live right now
    let mut g: BTreeMap<u64, Ent> = BTreeMap::new();
    for (k, e) in &ents {
      if let Some(v) = orig.peek(*k, false) {
        if v != e.val {
          out.o("C11/peek/value-differs-from-last-write");
          continue;
        }
        if m.def_expired(e, t0).is_some() {
          out.o("C12/peek/expired-served");
          continue;
        }
        g.insert(*k, e.clone());
      }
    }
    let g_cost: u64 = g.values().map(|e| e.cost).sum();
    out.c("restore/scenarios", 1);
    out.c(&format!("restore/policy/{}", c.cfg.policy), 1);
    out.c(&format!("restore/capacity/{}", cap), 1);
    out.c("restore/entries_live_at_snapshot", g.len() as u64);
    out.c("restore/entries_with_deadline_at_snapshot", g.values().filter(|e| e.exp.is_some()).count() as u64);
    out.c("restore/entries_evicted_or_expired_before_snapshot", (ents.len() - g.len()) as u64);
    if g_cost > cap {
      out.o("C13/original-cache/over-capacity-at-quiescence");
    }
    // ---- snapshot, judged like any enumeration against the peek truth
    let snap = match early_snap {
      Some(x) => x,
      None => orig.snapshot(c.asy_snapshot),
    };
    let sents = snapshot_entries(&snap);
    let comp_s = if c.asy_snapshot { "async.to_snapshot" } else { "to_snapshot" };
    // to_snapshot may flush pending policy events first (admission filter): the content right
    // after it is what the snapshot was taken from
    let g_before = g.len();
    g.retain(|k, e| orig.peek(*k, false) == Some(e.val));
    let g_cost: u64 = g.values().map(|e| e.cost).sum();
    out.c("restore/entries_dropped_by_flush_inside_to_snapshot", (g_before - g.len()) as u64);
    let must: BTreeMap<u64, u64> = g.iter().map(|(k, e)| (*k, e.val)).collect();
    let must_not: BTreeMap<u64, &'static str> = ents.iter().filter_map(|(k, e)| m.def_expired(e, t0).map(|cz| (*k, cz))).collect();
    let known: BTreeMap<u64, u64> = ents.iter().map(|(k, e)| (*k, e.val)).collect();
    let items: Vec<(u64, u64)> = sents.iter().map(|e| (e.key, e.val)).collect();
    let ctx = format!("bounded cache capacity {} policy {} shards {}, {} live entries (cost {}) at t={}", cap, c.cfg.policy, c.cfg.shards, g.len(), g_cost, t0);
    judge_enumeration(&mut out, comp_s, &items, &must, &must_not, &known, &ctx, "bounded-cache");
    for s in &sents {
      if let Some(e) = g.get(&s.key) {
        if s.cost != e.cost {
          out.findings.push(f17(comp_s, "cost-mismatch", "entry", format!("snapshot entry {} has cost {}, inserted with {}; {}", s.key, s.cost, e.cost, ctx)));
        }
        match (s.ttl_remaining, e.exp) {
          (Some(r), Some(x)) if r > x - t0 => out.findings.push(f17(
            comp_s,
            "ttl-remaining-too-long",
            "entry",
            format!("snapshot entry {} has ttl_remaining {} ns, the entry has {} ns left; {}", s.key, r, x - t0, ctx),
          )),
          (None, Some(x)) => out.findings.push(f17(
            comp_s,
            "ttl-remaining-too-long",
            "deadline-dropped",
            format!("snapshot entry {} has no ttl_remaining, the entry has {} ns left; {}", s.key, x - t0, ctx),
          )),
          _ => {}
        }
      }
    }
    // ---- (round trip and) rebuild
    let snap2 = if c.roundtrip {
      let bytes = bincode::serialize(&snap).expect("bincode serialize");
      out.c("restore/bincode_round_trips", 1);
      out.c("restore/bincode_bytes", bytes.len() as u64);
      bincode::deserialize::<CacheSnapshot<u64, u64>>(&bytes).expect("bincode deserialize")
    } else {
      snap
    };
    if c.gap > 0 {
      now = advance(c.gap);
    }
    let t1 = now;
    let rest = match Rig::from_snapshot(&c.cfg, snap2, c.asy_restore) {
      Ok(r) => r,
      Err(e) => {
        out.findings.push(f17("restore", "build-failed", "error", format!("build_from_snapshot failed: {}; {}", e, ctx)));
        return out;
      }
    };
    let rt = if c.roundtrip { "after-bincode-round-trip" } else { "direct" };
    // a. same mapping
    let mut missing = Vec::new();
    let mut wrong = Vec::new();
    let mut extra = Vec::new();
    for (k, e) in &ents {
      let p = rest.peek(*k, false);
      match (g.get(k), p) {
        (Some(ge), Some(v)) if v != ge.val => wrong.push((*k, v, ge.val)),
        (Some(_), None) => missing.push(*k),
        (None, Some(v)) => extra.push((*k, v)),
        _ => {}
      }
      let _ = e;
    }
    if !missing.is_empty() {
      let with_deadline = missing.iter().any(|k| g[k].exp.is_some());
      out.findings.push(f17(
        "restore",
        "entry-missing",
        if with_deadline { "entry-with-deadline" } else { "entry-without-deadline" },
        format!("rebuilt cache ({}) misses keys {:?} that were live in the original at snapshot time; {}", rt, &missing[..missing.len().min(8)], ctx),
      ));
    }
    if !wrong.is_empty() {
      out.findings.push(f17("restore", "value-mismatch", rt, format!("rebuilt cache returns (key, value, original) {:?}; {}", &wrong[..wrong.len().min(8)], ctx)));
    }
    if !extra.is_empty() {
      out.findings.push(f17(
        "restore",
        "extra-entry",
        rt,
        format!("rebuilt cache holds (key, value) {:?} that the original no longer held (expired / evicted); {}", &extra[..extra.len().min(8)], ctx),
      ));
    }
    // b. same costs and current_cost
    let rents = snapshot_entries(&rest.snapshot(false));
    for s in &rents {
      if let Some(e) = g.get(&s.key) {
        if s.cost != e.cost {
          out.findings.push(f17("restore", "entry-cost-mismatch", rt, format!("rebuilt entry {} has cost {}, original {}; {}", s.key, s.cost, e.cost, ctx)));
          break;
        }
      } else {
        out.findings.push(f17("restore", "extra-entry", rt, format!("rebuilt cache enumerates key {} that was not live in the original; {}", s.key, ctx)));
        break;
      }
    }
    let cc = rest.s.metrics().current_cost;
    out.c("restore/current_cost_checked", 1);
    if cc != g_cost {
      out.findings.push(f17(
        "restore",
        "current-cost-mismatch",
        rt,
        format!("rebuilt cache reports current_cost {} but holds entries worth {}; {}", cc, g_cost, ctx),
      ));
    }
    // d. capacity from then on, next to a normally filled control cache
    let control = match Rig::build(&c.cfg) {
      Ok(r) => r,
      Err(e) => {
        out.inconclusive.push(format!("control cache did not build: {}", e));
        return out;
      }
    };
    let mut i = 0;
    for (k, e) in &g {
      match e.exp {
        Some(x) => control.insert_ttl(*k, e.val, e.cost, x - t0, false),
        None => control.insert(*k, e.val, e.cost, false),
      }
      i += 1;
      if i % 8 == 0 {
        control.maintain(false);
      }
    }
    let debug = std::env::var_os("VH_DEBUG17").is_some();
    let mut cur_cost: BTreeMap<u64, u64> = g.iter().map(|(k, e)| (*k, e.cost)).collect();
    let mut overwritten: BTreeSet<u64> = BTreeSet::new();
    let mut keys2: BTreeSet<u64> = g.keys().copied().collect();
    for (j, (k, cost)) in c.post.iter().enumerate() {
      rest.insert(*k, val, *cost, false);
      control.insert(*k, val, *cost, false);
      val += 1;
      cur_cost.insert(*k, *cost);
      overwritten.insert(*k);
      keys2.insert(*k);
      if j % 8 == 7 {
        rest.maintain(false);
        control.maintain(false);
      }
      if debug {
        let view = |r: &Rig| -> String {
          let res: Vec<(u64, u64)> = keys2.iter().filter(|k| r.peek(**k, false).is_some()).map(|k| (*k % 1000, cur_cost[k])).collect();
          format!("metrics.current_cost {} resident(key%1000,cost) {:?}", r.s.metrics().current_cost, res)
        };
        out.trace.push(format!("post insert #{} key%1000 {} cost {}{}: restored {} | control {}", j, k % 1000, cost, if j % 8 == 7 { " +maintenance" } else { "" }, view(&rest), view(&control)));
      }
    }
    let fx1 = maintain_to_fixpoint(&rest, &keys2);
    let fx2 = maintain_to_fixpoint(&control, &keys2);
    let resident = |r: &Rig| -> u64 { keys2.iter().filter(|k| r.peek(**k, false).is_some()).map(|k| cur_cost[k]).sum() };
    let (sum_r, sum_c) = (resident(&rest), resident(&control));
    out.c("restore/post_inserts", c.post.len() as u64);
    out.c("restore/capacity_checks", 1);
    if !fx1 || !fx2 {
      out.inconclusive.push("no maintenance fixpoint after the post-restore inserts".into());
    } else if sum_r > cap {
      if sum_c > cap {
        out.o(&format!("C13/{}/over-capacity-at-fixpoint-also-without-restore", c.cfg.policy));
      } else {
        out.findings.push(f17(
          "restore",
          "over-capacity",
          if c.cfg.policy == "default" { "tinylfu" } else { &c.cfg.policy },
          format!(
            "after {} inserts and maintenance to a fixpoint the rebuilt cache holds entries worth {} > capacity {} (a normally filled cache with the same content and inserts: {}); {}",
            c.post.len(), sum_r, cap, sum_c, ctx
          ),
        ));
      }
    }
    let survivors = g.keys().filter(|k| !overwritten.contains(k) && rest.peek(**k, false).is_some()).count();
    let survivors_c = g.keys().filter(|k| !overwritten.contains(k) && control.peek(**k, false).is_some()).count();
    out.c("restore/restored_entries_surviving_refill", survivors as u64);
    out.c("restore/control_entries_surviving_refill", survivors_c as u64);
    // c. lifetimes: step to every original deadline (relative to the rebuild)
    let mut deadlines: Vec<(u64, u64)> = g.iter().filter(|(k, e)| e.exp.is_some() && !overwritten.contains(k)).map(|(k, e)| (e.exp.unwrap() - t0, *k)).collect();
    deadlines.sort();
    let mut checked = 0;
    let mut idx = 0;
    while idx < deadlines.len() && checked < 12 {
      let (r, _) = deadlines[idx];
      let target = t1 + r;
      if target > now {
        now = advance(target - now);
      }
      // everything whose remaining lifetime was <= r must be gone now
      let mut late: Vec<(u64, u64)> = Vec::new();
      for (r2, k) in deadlines.iter().filter(|(r2, _)| *r2 <= r) {
        let p = rest.peek(*k, false);
        let f = rest.fetch(*k, false);
        if p.is_some() || f.is_some() {
          late.push((*k, *r2));
        }
      }
      out.c("restore/deadline_steps", 1);
      if !late.is_empty() {
        out.findings.push(f17(
          "restore",
          "lifetime-extended",
          rt,
          format!(
            "rebuilt at t={} ({} ns after the snapshot): (key, remaining ns at snapshot) {:?} still served {} ns after the rebuild; {}",
            t1, c.gap, &late[..late.len().min(6)], now - t1, ctx
          ),
        ));
        break;
      }
      checked += 1;
      while idx < deadlines.len() && deadlines[idx].0 <= r {
        idx += 1;
      }
    }
    out.nontrivial = g.values().any(|e| e.exp.is_some()) || !c.post.is_empty();
    out.trace.push(format!(
      "{}; snapshot {} entries; rebuilt ({}, gap {} ns) current_cost {}; after {} inserts resident cost restored {} / control {}; restored entries surviving {} / control {}",
      ctx, sents.len(), rt, c.gap, cc, c.post.len(), sum_r, sum_c, survivors, survivors_c
    ));
    let mut h = Fnv::default();
    h.bytes(c.cfg.policy.as_bytes());
    for x in [cap, c.cfg.shards as u64, g.len() as u64, g_cost, c.post.len() as u64, c.gap, c.roundtrip as u64, c.asy_restore as u64, deadlines.len() as u64, c.cfg.hseed] {
      h.u64(x);
    }
    out.shape = h.finish();
    out
  }
}
