//! Cache monitors. `seq` = sequential differential engines (policy_seq, cache_seq);
//! `conc` = concurrent history engines (cache_hist, loader).
pub mod conc;
pub mod seq;
