//! policy_seq — C14: generated on_admit / on_access / on_remove / evict / clear sequences on all
//! eight built-in eviction policies (public `fibre_cache::policy` API) against a bookkeeping
//! model `tracked: key -> cost`, with a final drain and exact LRU / FIFO reference orders.
//!
//! extra args: `--policy a,b`  restrict policies; `--max-len N` longest program (default 160);
//!             `--max-exec N` stop after N cases; `--replay FILE` re-run the program of a witness.

use serde_json::{json, Value};
use std::collections::BTreeMap;
use vh_cache::seq::pol::*;
use vh_core::cli::Args;
use vh_core::result::ShardResult;
use vh_core::rng::Rng;

fn parse_evict_n(s: &str) -> EvictN {
  let inner = |p: &str| -> u64 { s[p.len() + 1..s.len() - 1].parse().unwrap() };
  match s {
    "Zero" => EvictN::Zero,
    "One" => EvictN::One,
    "Total" => EvictN::Total,
    "TotalPlus1" => EvictN::TotalPlus1,
    "Max" => EvictN::Max,
    _ if s.starts_with("Abs(") => EvictN::Abs(inner("Abs")),
    _ if s.starts_with("Frac(") => EvictN::Frac(inner("Frac")),
    _ => panic!("bad evict n {}", s),
  }
}

fn case_from_json(v: &Value) -> Case {
  let policy = POLICIES.iter().copied().find(|p| Some(*p) == v["policy"].as_str()).expect("policy");
  let ops = v["ops"]
    .as_array()
    .unwrap()
    .iter()
    .map(|o| match o["op"].as_str().unwrap() {
      "on_admit" => Op::Admit {
        k: o["key"].as_u64().unwrap(),
        cost: o["cost"].as_u64().unwrap(),
        notify: o["on_remove_for_victims"].as_bool().unwrap_or(true),
      },
      "on_access" => Op::Access { k: o["key"].as_u64().unwrap(), cost_if_untracked: o["cost_if_untracked"].as_u64().unwrap_or(1) },
      "on_remove" => Op::Remove { k: o["key"].as_u64().unwrap() },
      "evict" => Op::Evict { n: parse_evict_n(o["n"].as_str().unwrap()) },
      "clear" => Op::Clear,
      x => panic!("op {}", x),
    })
    .collect();
  Case { policy, cap: v["policy_capacity"].as_u64().unwrap(), ops }
}

fn main() {
  let args = Args::parse();
  vh_core::install_quiet_panic_hook();
  let prop = args.prop.clone();
  assert!(prop == "C14", "policy_seq serves C14 only");

  if let Some(file) = &args.replay {
    let doc: Value = serde_json::from_str(&std::fs::read_to_string(file).expect("replay file")).expect("json");
    let w = &doc["witness"];
    let c = case_from_json(if w["minimal_program"].is_object() { &w["minimal_program"] } else { &w["program"] });
    let o = run(&c, true);
    for t in &o.trace {
      println!("{}", t);
    }
    for f in &o.findings {
      println!("FINDING {}/{} at op {}: {}", f.rule, f.variant, f.at, f.detail);
    }
    return;
  }

  let res_arc = std::sync::Arc::new(std::sync::Mutex::new(ShardResult::new(&prop, "policy_seq", args.seed, args.shard)));
  vh_cache::seq::wd::spawn(res_arc.clone(), args.out.clone(), args.start, std::time::Duration::from_secs(args.get_u64("hang-s", 20)));
  res_arc.lock().unwrap().rule = "one evaluation = one generated program of on_admit/on_access/on_remove/evict/clear calls (1..max-len calls, \
    key space 1..32, policy capacity 1..10000, six cost profiles incl. all-unit, zero and 2^32..2^50 costs) run on a fresh \
    instance of one built-in policy with the bookkeeping model, followed by the final drain; non-trivial = at least one \
    evict/AdmitAndEvict nominated a victim AND some key was re-admitted or accessed between its admission and the end; \
    distinct = hash of (policy, capacity, every call with its observed result)"
    .into();
  let policies: Vec<&'static str> = match args.get("policy") {
    Some(p) => POLICIES.iter().copied().filter(|x| p.split(',').any(|y| y == *x)).collect(),
    None => POLICIES.to_vec(),
  };
  let cfg = GenCfg { max_len: args.get_u64("max-len", if args.thorough { 400 } else { 160 }) };
  let max_exec = args.get_u64("max-exec", u64::MAX);
  let mut rng = Rng::new(args.shard_seed());
  let mut diag_budget: BTreeMap<String, u32> = BTreeMap::new();
  let mut n: u64 = 0;
  while args.time_left() && n < max_exec {
    let policy = policies[(n % policies.len() as u64) as usize];
    n += 1;
    let case = gen_case(&mut rng, policy, &cfg);
    vh_cache::seq::wd::describe(format!("policy {} case_index {} (re-run with the same --seed/--shard/--shards and --max-exec {})", policy, n - 1, n));
    let o = run(&case, true);
    // everything that calls into the library for this case happens before the result is locked
    let mut skipped = 0u64;
    let mut gate = |rule: &str| -> bool {
      let b = diag_budget.entry(format!("{}/{}", policy, rule)).or_insert(0);
      *b += 1;
      *b <= 300 || *b % 16 == 0
    };
    let canon = if o.findings.is_empty() { Vec::new() } else { canonical(&case, &o, &mut gate, &mut skipped) };
    let mut prepared: Vec<(String, Canon, Vec<String>)> = Vec::new();
    for c in canon {
      let sig = format!("C14/{}/{}/{}", policy, c.rule, c.variant);
      let already = res_arc.lock().unwrap().violations.iter().filter(|v| v.signature == sig).count();
      if already >= 50 {
        prepared.push((sig, c, Vec::new()));
        continue;
      }
      let c = if already == 0 { shrink(&c) } else { c };
      let t = run(&c.witness, c.drain).trace;
      prepared.push((sig, c, t));
    }
    let mut guard = res_arc.lock().unwrap();
    let res = &mut *guard;
    res.executions += 1;
    let s = &o.stats;
    let nontrivial = (s.evict_victims + s.admit_victims + s.drain_victims > 0) && (s.admit_readmit + s.access_tracked > 0);
    if nontrivial {
      res.add_nontrivial(o.shape);
    }
    res.count(&format!("cases_by_policy/{}", policy), 1);
    for (k, v) in &s.calls {
      res.count(&format!("calls/{}", k), *v);
      res.count(&format!("calls_by_policy/{}/{}", policy, k), *v);
    }
    res.count("admit/new_key", s.admit_new);
    res.count("admit/readmission", s.admit_readmit);
    res.count("admit/readmission_with_cost_change", s.admit_readmit_cost_change);
    res.count("admit/answered_AdmitAndEvict", s.admit_and_evict);
    res.count("admit/AdmitAndEvict_victims", s.admit_victims);
    res.count("admit/answered_Reject", s.rejects);
    res.count("admit/zero_cost", s.zero_cost_admits);
    res.count("admit/huge_cost_ge_2^32", s.huge_cost_admits);
    res.count("access/tracked_key", s.access_tracked);
    res.count("access/untracked_key", s.access_untracked);
    res.count("remove/tracked_key", s.remove_tracked);
    res.count("remove/untracked_key", s.remove_untracked);
    res.count("evict/calls_with_victims", s.evict_calls_with_victims);
    res.count("evict/victims", s.evict_victims);
    res.count("evict/requested_amount_was_reachable", s.evict_requested_reachable);
    res.count("evict/victims_touched_since_admission", s.touched_then_evicted);
    res.count("evict/exact_order_checks_lru_fifo", s.order_checks);
    res.count("final_drain/rounds", s.drain_rounds);
    res.count("final_drain/victims", s.drain_victims);
    if res.samples.len() < 3 && nontrivial && case.ops.len() <= 14 {
      res.sample(json!({"program": case.to_json(), "observed": o.trace}), 3);
    }

    // ---- findings
    res.count("findings_not_localized_after_cap", skipped);
    for (sig, c, min_trace) in prepared {
      res.count(&format!("findings/{}", sig), 1);
      let already = res.violations.iter().filter(|v| v.signature == sig).count();
      if already >= 50 {
        res.count("violations_beyond_cap", 1);
        continue;
      }
      let witness = json!({
        "seed": args.seed, "shard": args.shard, "case_index": n - 1, "found_after_s": args.elapsed_s(),
        "minimal_program": c.witness.to_json(),
        "minimal_program_final_drain": c.drain,
        "minimal_program_observed": min_trace,
        "program": case.to_json(),
        "finding": {"rule": c.rule, "variant": c.variant, "keys": c.keys, "detail": c.detail},
        "note": "tinylfu (random hash seeds) and random (thread rng) are not bit-for-bit replayable",
      });
      res.violation(&sig, &format!("{}: {}", policy, c.detail), &args.replay_dir, &witness);
    }
  }
  let res = res_arc.lock().unwrap();
  res.write(&args.out, args.elapsed_s());
}
