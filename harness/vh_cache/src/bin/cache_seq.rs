//! cache_seq — C12 and C17 (selected by --prop): single-threaded differential testing of a real
//! `Cache` / `AsyncCache` under the frozen virtual clock with the janitor parked.
//!
//! extra args: `--max-len N` longest C12 program (default 60), `--max-exec N`,
//!             `--janitor-tick-ms N` (default 20; the periodic pass itself is parked by
//!             maintenance_chance(2^31), the short tick only lets the threads of dropped caches end),
//!             `--scenario iter|restore` (C17 only), `--no-shrink 1`,
//!             `--replay FILE` re-run the minimal program of a witness and print what happens.

use serde_json::{json, Value};
use std::panic::{catch_unwind, AssertUnwindSafe};
use vh_cache::seq::cs::*;
use vh_core::cli::Args;
use vh_core::result::ShardResult;
use vh_core::rng::Rng;

/// A panic below: library panic => violation, watchdog => inconclusive, else harness bug.
enum Crash {
  Library(String, String),
  Stuck,
  Harness(String),
}

fn classify(p: Box<dyn std::any::Any + Send>) -> Crash {
  let msg = vh_core::panic_message(&*p);
  let loc = vh_core::last_panic_location();
  if msg.contains("VH_STUCK") {
    Crash::Stuck
  } else if loc.contains("/cache/src/") || loc.contains("/channels/src/") {
    Crash::Library(msg, loc)
  } else {
    Crash::Harness(format!("{} at {}", msg, loc))
  }
}

fn merge(res: &mut ShardResult, prop: &str, o: &Outcome) {
  for (k, v) in &o.counters {
    res.count(k, *v);
  }
  for (k, v) in &o.other {
    if k.starts_with(prop) {
      // same property, seen by a path that does not judge it (e.g. duplicates while checking C12)
      res.count(&format!("unjudged_here/{}", k), *v);
    } else {
      res.count(&format!("other_property_observations/{}", k), *v);
    }
  }
  for i in &o.inconclusive {
    res.inconclusive(i);
  }
}

fn main() {
  let args = Args::parse();
  vh_core::install_quiet_panic_hook();
  let prop = args.prop.clone();
  assert!(prop == "C12" || prop == "C17", "cache_seq serves C12 and C17");
  let tick = args.get_u64("janitor-tick-ms", 20);
  let no_shrink = args.get("no-shrink").is_some();

  if let Some(file) = &args.replay {
    let doc: Value = serde_json::from_str(&std::fs::read_to_string(file).expect("replay file")).expect("json");
    let w = &doc["witness"];
    if prop == "C12" {
      let p = if w["minimal_program"].is_object() { &w["minimal_program"] } else { &w["program"] };
      let cfg: CacheCfg = serde_json::from_value(p["config"].clone()).expect("config");
      let ops: Vec<Op> = serde_json::from_value(p["ops"].clone()).expect("ops");
      let (o, _) = run12(&cfg, Source::Fixed(&ops));
      for t in &o.trace {
        println!("{}", t);
      }
      for f in &o.findings {
        println!("FINDING {} at op {}: {}", f.sig(), f.at, f.detail);
      }
    } else {
      let o = run17_json(&w["case"]);
      for t in &o.trace {
        println!("{}", t);
      }
      for f in &o.findings {
        println!("FINDING {}: {}", f.sig(), f.detail);
      }
    }
    return;
  }

  let res_arc = std::sync::Arc::new(std::sync::Mutex::new(ShardResult::new(&prop, "cache_seq", args.seed, args.shard)));
  vh_cache::seq::wd::spawn(res_arc.clone(), args.out.clone(), args.start, std::time::Duration::from_secs(args.get_u64("hang-s", 20)));
  let mut rng = Rng::new(args.shard_seed());
  let max_exec = args.get_u64("max-exec", u64::MAX);
  let mut n: u64 = 0;

  if prop == "C12" {
    res_arc.lock().unwrap().rule = "one evaluation = one generated program (8..max-len ops over 1..6 keys: insert, insert_with_ttl, overwrite, remove, \
      clock steps aimed at deadline-1ns / deadline / deadline+1ns of TTL, idle and grace deadlines, run_maintenance, audits and every \
      read API in sync and async flavour) on a fresh unbounded cache with a random TTL / TTI / stale-while-revalidate configuration, \
      frozen virtual clock, janitor parked; non-trivial = at least one read was judged against an entry whose expiry instant had \
      been reached (expiry crossing) or a stale value was served inside the grace window; distinct = hash of (TTL/TTI/grace/loader \
      kinds, op sequence with results, times excluded)"
      .into();
    let max_len = args.get_u64("max-len", if args.thorough { 120 } else { 60 });
    while args.time_left() && n < max_exec {
      n += 1;
      let cfg = gen_cfg12(&mut rng, tick);
      let plan = gen_plan12(&mut rng, &cfg, max_len);
      vh_cache::seq::wd::describe(format!("C12 case_index {} config {:?} (re-run with the same --seed/--shard/--shards and --max-exec {})", n - 1, cfg, n));
      let r = catch_unwind(AssertUnwindSafe(|| run12(&cfg, Source::Gen(&mut rng, plan))));
      // shrinking calls into the library: do it before the result is locked
      let mut shrunk: Vec<(String, Vec<Op>, Vec<String>)> = Vec::new();
      if let Ok((o, ops)) = &r {
        for f in &o.findings {
          let sig = f.sig();
          if shrunk.iter().any(|x| x.0 == sig) {
            continue;
          }
          let already = res_arc.lock().unwrap().violations.iter().filter(|v| v.signature == sig).count();
          let upto = &ops[..(f.at + 1).min(ops.len())];
          if already == 0 && !no_shrink {
            let m = catch_unwind(AssertUnwindSafe(|| shrink12(&cfg, upto, &sig))).unwrap_or_else(|_| upto.to_vec());
            let t = catch_unwind(AssertUnwindSafe(|| run12(&cfg, Source::Fixed(&m)).0.trace)).unwrap_or_default();
            shrunk.push((sig, m, t));
          } else {
            shrunk.push((sig, upto.to_vec(), Vec::new()));
          }
        }
      }
      let mut guard = res_arc.lock().unwrap();
      let res = &mut *guard;
      res.executions += 1;
      let (o, ops) = match r {
        Ok(x) => x,
        Err(p) => {
          match classify(p) {
            Crash::Stuck => res.inconclusive("async call made no progress within the watchdog"),
            Crash::Library(msg, loc) => {
              let sig = "C12/cache/panic/library".to_string();
              res.violation(&sig, &format!("library panicked: {} at {}", msg, loc), &args.replay_dir,
                &json!({"seed": args.seed, "shard": args.shard, "case_index": n - 1, "found_after_s": args.elapsed_s(), "config": cfg, "panic": msg, "location": loc}));
            }
            Crash::Harness(m) => {
              res.count("harness_panics", 1);
              if res.notes.len() < 5 {
                res.notes.push(format!("harness panic (not a verdict): {}", m));
              }
            }
          }
          continue;
        }
      };
      merge(res, &prop, &o);
      res.count("ops_total", ops.len() as u64);
      res.count(&format!("configs/ttl_{}", cfg.ttl.is_some()), 1);
      res.count(&format!("configs/tti_{}", cfg.tti.is_some()), 1);
      res.count(&format!("configs/grace_{}", cfg.grace.is_some()), 1);
      res.count(&format!("configs/loader_{:?}", cfg.loader), 1);
      res.count(&format!("configs/shards_{}", cfg.shards), 1);
      if o.nontrivial {
        res.add_nontrivial(o.shape);
      }
      if res.samples.len() < 3 && o.nontrivial && ops.len() <= 16 {
        res.sample(json!({"program": program_json(&cfg, &ops), "observed": o.trace}), 3);
      }
      let mut seen: Vec<String> = Vec::new();
      for f in &o.findings {
        let sig = f.sig();
        if seen.contains(&sig) {
          continue;
        }
        seen.push(sig.clone());
        res.count(&format!("findings/{}", sig), 1);
        let already = res.violations.iter().filter(|v| v.signature == sig).count();
        if already >= 50 {
          res.count("violations_beyond_cap", 1);
          continue;
        }
        let (_, min_ops, min_trace) = shrunk.iter().find(|x| x.0 == sig).cloned().unwrap();
        let witness = json!({
          "seed": args.seed, "shard": args.shard, "case_index": n - 1, "found_after_s": args.elapsed_s(),
          "minimal_program": program_json(&cfg, &min_ops),
          "minimal_program_observed": min_trace,
          "program": program_json(&cfg, &ops),
          "finding": {"signature": sig, "at_op": f.at, "detail": f.detail},
          "note": "times are nanoseconds of the frozen virtual clock; values are assigned 1,2,3.. in program order (loader values 2^40+n)",
        });
        res.violation(&sig, &f.detail, &args.replay_dir, &witness);
      }
    }
  } else {
    res_arc.lock().unwrap().rule = "one evaluation = one generated scenario. iter: a fresh cache (1..16 shards, hash seed) filled with 0..1000 entries around the \
      batch size (expired-before / expiring-during / live-throughout groups by per-item TTL, some overwritten), enumerated through one \
      of iter(batch) / iter_snapshot / async stream(batch) / async snapshot iter / to_snapshot with the clock stepped between next() calls. \
      restore: a bounded cache under one of the nine policy settings filled and maintained to a fixpoint, snapshot (optionally bincode \
      round trip), rebuilt, compared, then refilled next to a normally filled control cache and stepped to every original deadline. \
      non-trivial = iteration spanning more than one batch or meeting expired entries or a moving clock / a restore carrying at least one \
      entry with a deadline; distinct = hash of the scenario parameters and group sizes"
      .into();
    let only = args.get("scenario").map(|s| s.to_string());
    while args.time_left() && n < max_exec {
      n += 1;
      let case = gen_case17(&mut rng, tick, only.as_deref(), args.thorough);
      vh_cache::seq::wd::describe(format!("C17 case_index {} {} (re-run with the same --seed/--shard/--shards and --max-exec {})", n - 1, case17_brief(&case), n));
      let r = catch_unwind(AssertUnwindSafe(|| run17(&case)));
      let mut guard = res_arc.lock().unwrap();
      let res = &mut *guard;
      res.executions += 1;
      let o = match r {
        Ok(x) => x,
        Err(p) => {
          match classify(p) {
            Crash::Stuck => res.inconclusive("async call made no progress within the watchdog"),
            Crash::Library(msg, loc) => {
              res.violation("C17/cache/panic/library", &format!("library panicked: {} at {}", msg, loc), &args.replay_dir,
                &json!({"seed": args.seed, "shard": args.shard, "case_index": n - 1, "found_after_s": args.elapsed_s(), "case": case17_json(&case), "panic": msg, "location": loc}));
            }
            Crash::Harness(m) => {
              res.count("harness_panics", 1);
              if res.notes.len() < 5 {
                res.notes.push(format!("harness panic (not a verdict): {}", m));
              }
            }
          }
          continue;
        }
      };
      merge(res, &prop, &o);
      if o.nontrivial {
        res.add_nontrivial(o.shape);
      }
      if res.samples.len() < 3 && o.nontrivial && case17_small(&case) {
        res.sample(json!({"case": case17_json(&case), "observed": o.trace}), 3);
      }
      let mut seen: Vec<String> = Vec::new();
      for f in &o.findings {
        let sig = f.sig();
        if seen.contains(&sig) {
          continue;
        }
        seen.push(sig.clone());
        res.count(&format!("findings/{}", sig), 1);
        let already = res.violations.iter().filter(|v| v.signature == sig).count();
        if already >= 50 {
          res.count("violations_beyond_cap", 1);
          continue;
        }
        let witness = json!({
          "seed": args.seed, "shard": args.shard, "case_index": n - 1, "found_after_s": args.elapsed_s(),
          "case": case17_json(&case),
          "observed": o.trace,
          "finding": {"signature": sig, "detail": f.detail},
        });
        res.violation(&sig, &f.detail, &args.replay_dir, &witness);
      }
    }
  }
  let res = res_arc.lock().unwrap();
  res.write(&args.out, args.elapsed_s());
}
