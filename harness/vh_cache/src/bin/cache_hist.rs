//! cache_hist — threaded, chaos-perturbed workloads over one `fibre_cache` instance (sync and
//! async handle, janitor, opportunistic and explicit maintenance) with offline history
//! checkers: C11 (per-key forgetting register, compute / or_insert atomicity), C13 (quiescent
//! cost accounting and capacity audit), C16 (eviction listener L1–L5).
//!
//! Extra args: --policy <name>  --mode <name>  --cshards <n>  --no-chaos 1  --max-exec <n>
//!             --concurrent-clear 1 (do not serialise clear(): sync/async clear can deadlock AB-BA)

use serde_json::json;
use vh_cache::conc::check::analyse;
use vh_cache::conc::work::{execute, gen_scn, GenOpts, Mode, Prop};
use vh_cache::conc::{history_json, Policy};
use vh_core::cli::Args;
use vh_core::result::ShardResult;
use vh_core::rng::Rng;
use vh_core::stuck::Canary;

fn main() {
  let args = Args::parse();
  vh_core::install_quiet_panic_hook();
  vh_core::chaos::install();
  let prop = match args.prop.as_str() {
    "C11" => Prop::C11,
    "C13" => Prop::C13,
    "C16" => Prop::C16,
    other => panic!("cache_hist does not serve property {}", other),
  };
  let pname = prop.name();
  let mut res = ShardResult::new(pname, "cache_hist", args.seed, args.shard);
  res.rule = "one evaluation = one generated scenario (policy x shard count x capacity x TTL config x janitor tick x \
    thread count x key count x weighted op mix, C13: x workload class) executed on real threads through the sync and the \
    async handle of one cache with janitor, opportunistic and explicit maintenance under schedule chaos, then checked \
    offline; non-trivial = operations of at least two threads on the same key (or clear / iteration) overlapped in real \
    time (C13 additionally: the quiescent audit was stable and judged; C16: at least one notification was delivered); \
    distinct = distinct (scenario shape, stamp-ordered call/return interleaving of the first 400 operations) hash"
    .into();
  let opts = GenOpts {
    policy: args.get("policy").map(|p| Policy::from_name(p).expect("policy")),
    mode: args.get("mode").map(|m| Mode::from_name(m).expect("mode")),
    shards: args.get("cshards").map(|s| s.parse().expect("cshards")),
    no_chaos: args.get("no-chaos").is_some(),
    concurrent_clear: args.get("concurrent-clear").is_some(),
  };
  let max_exec = args.get_u64("max-exec", u64::MAX);
  let canary = Canary::start();
  // Keep the main thread out of the chaos: its first hook call happens while auto mode is off.
  {
    let c = fibre_cache::CacheBuilder::<u64, u64>::new().shards(1).build().unwrap();
    c.insert(1, 1, 1);
  }
  let mut rng = Rng::new(args.shard_seed());
  let mut exec = 0u64;
  let mut sigs_seen: std::collections::HashSet<String> = Default::default();
  while args.time_left() && exec < max_exec {
    let scn = gen_scn(&mut rng, exec + args.shard * 7, prop, &opts);
    exec += 1;
    let o = execute(scn, &canary);
    let a = analyse(&o);
    res.executions += 1;
    // ---- evidence
    let c = &o.scn.cache;
    res.count(&format!("config/policy/{}", if c.default_policy { "builder-default" } else { c.policy.name() }), 1);
    res.count(&format!("config/shards/{}", c.shards), 1);
    res.count(
      &format!("config/capacity/{}", match c.capacity { None => "unbounded", Some(x) if x <= 8 => "tiny", Some(x) if x <= 60 => "medium", _ => "large" }),
      1,
    );
    res.count(&format!("config/mode/{}", o.scn.mode.name()), 1);
    res.count(&format!("config/threads/{}", o.scn.threads), 1);
    if c.ttl.is_some() || c.tti.is_some() {
      res.count("config/with_ttl_or_tti", 1);
    }
    if o.scn.loader {
      res.count("config/with_loader", 1);
    }
    res.count("events", o.evs.len() as u64);
    for e in &o.evs {
      res.count(&format!("ops_by_form/{}", e.form()), 1);
      if e.kind.is_read() {
        res.count(if e.obs.is_empty() { "outcomes/read_none" } else { "outcomes/read_value" }, 1);
      }
      if !e.removed.is_empty() {
        res.count("outcomes/remove_returned_value", e.removed.len() as u64);
      }
      if e.panicked.is_some() {
        res.count("outcomes/panicked", 1);
      }
    }
    res.count("loader_invocations", o.loads.len() as u64);
    res.count("listener_notifications", o.notifs.len() as u64);
    for k in ["evicted_by_capacity", "evicted_by_ttl", "evicted_by_tti", "invalidations", "inserts", "updates"] {
      if let Some(v) = o.metrics.get(k).and_then(|v| v.as_u64()) {
        res.count(&format!("library_metrics/{}", k), v);
      }
    }
    res.count_obj("chaos", &o.chaos.to_json());
    for (k, v) in &a.counters {
      res.count(k, *v);
    }
    if a.overlapping {
      res.count("executions_with_overlapping_same_key_ops", 1);
    }
    let judged = match prop {
      Prop::C11 => true,
      Prop::C13 => o.audit.as_ref().map_or(false, |x| x.stable),
      Prop::C16 => !o.notifs.is_empty(),
    };
    if a.overlapping && judged && o.complete {
      let mut h = vh_core::Fnv::default();
      h.u64(o.scn.shape_sig());
      h.u64(a.interleaving_sig);
      res.add_nontrivial(h.finish());
    }
    if res.samples.len() < 3 && a.overlapping {
      res.sample(
        json!({"scenario": o.scn.describe(), "events": o.evs.len(), "history_excerpt": history_json(&o.evs, 14),
          "notifications_excerpt": o.notifs.iter().take(5).map(|n| format!("{:?}", n)).collect::<Vec<_>>(),
          "audit": o.audit.as_ref().map(|x| format!("{:?}", x)).map(|s| s.chars().take(600).collect::<String>())}),
        3,
      );
    }
    for why in &a.inconclusive {
      if why.starts_with("HARNESS-PANIC") {
        res.notes.push(why.clone());
        res.count("harness_panics", 1);
      }
      res.inconclusive(why);
    }
    // ---- verdicts
    for f in &a.findings {
      let sig = f.signature();
      if f.prop == pname {
        let witness = json!({"scenario": o.scn.describe(), "detail": f.detail, "history": history_json(&o.evs, 800),
          "loads": o.loads.iter().map(|l| format!("{:?}", l)).collect::<Vec<_>>()});
        if !sigs_seen.contains(&sig) {
          res.count(&format!("first_seen_ms/{}", sig.replace('/', "|")), (args.elapsed_s() * 1000.0) as u64 + 1);
        }
        if sigs_seen.insert(sig.clone()) || res.violations.len() < 40 {
          res.violation(&sig, &f.summary, &args.replay_dir, &witness);
        } else {
          res.count("violations_beyond_cap", 1);
        }
      } else {
        res.count(&format!("other_property_observations/{}", sig.replace('/', "|")), 1);
      }
    }
    if !o.complete {
      let clears = o.open_ops.iter().filter(|e| e["op"].as_str().map_or(false, |s| s.ends_with("clear"))).count();
      if clears >= 2 {
        // sync clear (shard locks in index order) vs async clear (join_all): AB-BA deadlock.
        // A liveness defect outside C11/C13/C16; only reachable with --concurrent-clear 1.
        res.count("other_property_observations/liveness|clear|overlapping-clears-deadlock", 1);
      }
      res.notes.push(format!("execution {} left blocked threads behind; shard stops early", o.scn.exec));
      break;
    }
  }
  res.write(&args.out, args.elapsed_s());
  // library threads of abandoned executions must not keep the process alive
  std::process::exit(0);
}
