//! loader — C15 single-flight monitor: waves of concurrent `fetch_with` callers (threads and
//! async tasks) against an instrumented loader; invalidation / virtual-clock expiry between
//! waves; independence of keys while one loader is held at a gate (same and other
//! pending-load stripe); stale-while-revalidate refreshes racing misses.
//!
//! Extra args: --kind waves|independence|swr  --no-chaos 1  --max-exec <n>  --quiet-ms <n>

use serde_json::json;
use std::time::Duration;
use vh_cache::conc::load::{gen_lscn, run, LKind};
use vh_core::cli::Args;
use vh_core::result::ShardResult;
use vh_core::rng::Rng;
use vh_core::stuck::Canary;

fn main() {
  let args = Args::parse();
  vh_core::install_quiet_panic_hook();
  vh_core::chaos::install();
  assert_eq!(args.prop, "C15", "loader serves C15 only");
  let mut res = ShardResult::new("C15", "loader", args.seed, args.shard);
  res.rule = "one evaluation = one generated scenario (kind waves / independence / stale-while-revalidate x sync or async \
    loader x stripe count x keys x wave sizes 2..24 x caller mix of threads and multiplexed async tasks x arrival delays x \
    invalidate / remove / virtual-clock expiry between waves) executed on real threads under schedule chaos; non-trivial = \
    fetch_with calls of at least two threads on the same key overlapped in real time; distinct = distinct (scenario shape, \
    stamp-ordered interleaving of caller call/return and loader start/end events) hash"
    .into();
  let kind = args.get("kind").map(|k| match k {
    "waves" => LKind::Waves,
    "independence" => LKind::Independence,
    "swr" => LKind::Swr,
    o => panic!("kind {}", o),
  });
  let no_chaos = args.get("no-chaos").is_some();
  let quiet = Duration::from_millis(args.get_u64("quiet-ms", 1200));
  let max_exec = args.get_u64("max-exec", u64::MAX);
  let canary = Canary::start();
  {
    let c = fibre_cache::CacheBuilder::<u64, u64>::new().shards(1).build().unwrap();
    c.insert(1, 1, 1);
  }
  let mut rng = Rng::new(args.shard_seed());
  let mut exec = 0u64;
  while args.time_left() && exec < max_exec {
    let scn = gen_lscn(&mut rng, exec + args.shard * 3, kind, no_chaos);
    exec += 1;
    let o = run(scn, &canary, quiet);
    res.executions += 1;
    res.count(&format!("kinds/{}", o.scn.kind.name()), 1);
    res.count(&format!("loader/{}", if o.scn.async_loader { "async" } else { "sync" }), 1);
    res.count(&format!("stripes/{}", o.scn.cache.shards), 1);
    res.count("fetch_with_calls/sync", o.calls.iter().filter(|c| !c.is_async).count() as u64);
    res.count("fetch_with_calls/async", o.calls.iter().filter(|c| c.is_async).count() as u64);
    res.count("loader_invocations", o.loads.len() as u64);
    for (k, v) in &o.counters {
      res.count(k, *v);
    }
    res.count_obj("chaos", &o.chaos.to_json());
    if o.overlapping_callers {
      res.count("executions_with_overlapping_callers", 1);
      let mut h = vh_core::Fnv::default();
      h.u64(o.scn.shape_sig());
      h.u64(o.interleaving_sig);
      res.add_nontrivial(h.finish());
      if res.samples.len() < 3 {
        res.sample(
          json!({"scenario": o.scn.describe(), "calls": o.calls.iter().take(12).map(|c| c.to_json()).collect::<Vec<_>>(),
            "loads": o.loads.iter().take(6).map(|l| format!("{:?}", l)).collect::<Vec<_>>()}),
          3,
        );
      }
    }
    for why in &o.inconclusive {
      res.inconclusive(why);
    }
    for f in &o.findings {
      if !res.violations.iter().any(|v| v.signature == f.signature()) {
        res.count(&format!("first_seen_ms/{}", f.signature().replace('/', "|")), (args.elapsed_s() * 1000.0) as u64 + 1);
      }
      res.violation(&f.signature(), &f.summary, &args.replay_dir, &f.detail);
    }
    if o.leaked {
      res.notes.push(format!("execution {} left blocked threads behind; shard stops early", o.scn.exec));
      break;
    }
  }
  res.write(&args.out, args.elapsed_s());
  std::process::exit(0);
}
