// ==========================================================================================
// rolling file writer (included into enc_roller.rs)

#[derive(Clone, Debug)]
enum Step {
  Write { pad: usize },
  Clock { how: String, to: DateTime<Utc> },
  Restart,
  Flush,
}

struct Audit {
  /// canonical rolled-file name (without the compression suffix) -> (content, first seen at step)
  known: BTreeMap<String, (Vec<u8>, usize)>,
  rolls_seen: usize,
  retention_deletions: usize,
  compressed_seen: usize,
}

fn record_line(i: u64, pad: usize) -> Vec<u8> {
  format!("R{:08}|{}\n", i, "x".repeat(pad)).into_bytes()
}

/// Parses a file content into record indices; `Err` describes a torn / foreign line.
fn parse_records(content: &[u8]) -> Result<Vec<u64>, String> {
  let mut out = Vec::new();
  let mut rest = content;
  while !rest.is_empty() {
    let Some(nl) = rest.iter().position(|&b| b == b'\n') else {
      return Err(format!("unterminated tail {:?}", String::from_utf8_lossy(&rest[..rest.len().min(40)])));
    };
    let line = &rest[..nl];
    rest = &rest[nl + 1..];
    let ok = line.len() >= 10 && line[0] == b'R' && line[1..9].iter().all(|b| b.is_ascii_digit()) && line[9] == b'|' && line[10..].iter().all(|&b| b == b'x');
    if !ok {
      return Err(format!("malformed line {:?}", String::from_utf8_lossy(&line[..line.len().min(40)])));
    }
    out.push(std::str::from_utf8(&line[1..9]).unwrap().parse::<u64>().unwrap());
  }
  Ok(out)
}

fn gunzip(bytes: &[u8]) -> Result<Vec<u8>, String> {
  use std::io::Read;
  let mut d = flate2::read::GzDecoder::new(bytes);
  let mut out = Vec::new();
  d.read_to_end(&mut out).map_err(|e| e.to_string())?;
  Ok(out)
}

fn policy_json(p: &RollingPolicyInternal) -> Value {
  json!({"prefix": p.file_name_prefix, "suffix": p.file_name_suffix, "time_granularity": p.time_granularity, "max_file_size": p.max_file_size,
    "max_retained_sequences": p.max_retained_sequences,
    "compression": p.compression.as_ref().map(|c| json!({"suffix": c.compressed_file_suffix, "max_uncompressed_sequences": c.max_uncompressed_sequences}))})
}

fn gen_policy(rng: &mut Rng, dir: &Path) -> RollingPolicyInternal {
  let gran = ["never", "minutely", "hourly", "daily"][rng.weighted(&[3, 4, 2, 2])].to_string();
  let size = if gran != "never" && rng.chance(1, 3) { None } else { Some(rng.range(30, 400)) };
  RollingPolicyInternal {
    directory: dir.to_path_buf(),
    file_name_prefix: (*rng.pick(&["app", "svc.main", "x-1", "app_time"])).to_string(),
    file_name_suffix: (*rng.pick(&[".log", ".log", ".txt", ".out"])).to_string(),
    time_granularity: gran,
    max_file_size: size,
    max_retained_sequences: if rng.chance(1, 3) { None } else { Some(rng.below(7) as u32) },
    compression: if rng.chance(1, 2) {
      Some(CompressionPolicyInternal { compressed_file_suffix: (*rng.pick(&[".gz", ".gz", ".gzip", ".zz"])).to_string(), max_uncompressed_sequences: rng.below(4) as u32 })
    } else {
      None
    },
  }
}

fn step_clock(rng: &mut Rng, now: DateTime<Utc>) -> (String, DateTime<Utc>) {
  match rng.below(9) {
    0 => ("+1ms".into(), now + CDuration::milliseconds(1)),
    1 => ("+seconds".into(), now + CDuration::seconds(rng.range(1, 50) as i64)),
    2 => ("+1min".into(), now + CDuration::minutes(1)),
    3 => ("+minutes".into(), now + CDuration::minutes(rng.range(2, 90) as i64)),
    4 => ("+hours".into(), now + CDuration::hours(rng.range(1, 30) as i64)),
    5 => ("+days".into(), now + CDuration::days(rng.range(1, 40) as i64)),
    6 => {
      // just before the next minute boundary
      let t = now.with_second(59).and_then(|t| t.with_nanosecond(999_000_000)).unwrap();
      ("to-xx:59.999".into(), if t > now { t } else { now + CDuration::milliseconds(1) })
    }
    7 => {
      // exactly onto the next minute / hour / day boundary
      let base = now.with_second(0).and_then(|t| t.with_nanosecond(0)).unwrap();
      match rng.below(3) {
        0 => ("to-next-minute".into(), base + CDuration::minutes(1)),
        1 => ("to-next-hour".into(), base.with_minute(0).unwrap() + CDuration::hours(1)),
        _ => ("to-next-day".into(), base.with_minute(0).and_then(|t| t.with_hour(0)).unwrap() + CDuration::days(1)),
      }
    }
    _ => ("+year".into(), now + CDuration::days(366)),
  }
}

fn steps_json(steps: &[Step]) -> Value {
  Value::Array(
    steps
      .iter()
      .map(|s| match s {
        Step::Write { pad } => json!(format!("write(len={})", pad + 11)),
        Step::Clock { how, to } => json!(format!("clock {} -> {}", how, to.to_rfc3339_opts(chrono::SecondsFormat::Millis, true))),
        Step::Restart => json!("restart"),
        Step::Flush => json!("flush"),
      })
      .collect(),
  )
}

/// Reads the directory and checks every clause of the rolling part of C20.
#[allow(clippy::too_many_arguments)]
fn audit_dir(
  policy: &RollingPolicyInternal,
  audit: &mut Audit,
  step_no: usize,
  written: u64,
  ctx_variant: &str,
  out: &mut Vec<Finding>,
) {
  let active_name = format!("{}{}", policy.file_name_prefix, policy.file_name_suffix);
  let comp_suffix = policy.compression.as_ref().map(|c| c.compressed_file_suffix.clone());
  let mut active: Option<Vec<u8>> = None;
  // canonical name -> (decompressed content, is_compressed)
  let mut rolled: BTreeMap<String, (Vec<u8>, bool)> = BTreeMap::new();
  let mut names: Vec<String> = std::fs::read_dir(&policy.directory).unwrap().map(|e| e.unwrap().file_name().into_string().unwrap()).collect();
  names.sort();
  for n in &names {
    let bytes = std::fs::read(policy.directory.join(n)).unwrap();
    if *n == active_name {
      active = Some(bytes);
      continue;
    }
    let (canon, compressed) = match &comp_suffix {
      Some(cs) if n.ends_with(cs.as_str()) && n.len() > cs.len() => (n[..n.len() - cs.len()].to_string(), true),
      _ => (n.clone(), false),
    };
    let content = if compressed {
      match gunzip(&bytes) {
        Ok(c) => c,
        Err(e) => {
          out.push(finding("roller", "compressed-file-unreadable", "gunzip", format!("[{}] {} cannot be gunzipped: {}", ctx_variant, n, e), json!({"file": n})));
          continue;
        }
      }
    } else {
      bytes
    };
    if rolled.contains_key(&canon) {
      out.push(finding("roller", "duplicate-record", "plain-and-compressed-copy",
        format!("[{}] {} exists both compressed and uncompressed", ctx_variant, canon), json!({"file": canon})));
      continue;
    }
    rolled.insert(canon, (content, compressed));
  }
  // --- immutability of existing rolled files; disappearance only through retention
  let mut vanished = Vec::new();
  for (name, (content, seen)) in audit.known.iter() {
    match rolled.get(name) {
      Some((now, _)) => {
        if now != content {
          out.push(finding("roller", "rolled-file-content-changed", "existing-rolled-file",
            format!("[{}] rolled file {} (first seen at step {}) changed from {} to {} bytes", ctx_variant, name, seen, content.len(), now.len()), json!({"file": name})));
        }
      }
      None => vanished.push(name.clone()),
    }
  }
  for v in &vanished {
    audit.known.remove(v);
    if policy.max_retained_sequences.is_none() {
      out.push(finding("roller", "rolled-file-vanished", "no-retention-configured",
        format!("[{}] rolled file {} disappeared although no retention limit is configured", ctx_variant, v), json!({"file": v})));
    } else {
      audit.retention_deletions += 1;
    }
  }
  for (name, (content, compressed)) in &rolled {
    if !audit.known.contains_key(name) {
      audit.known.insert(name.clone(), (content.clone(), step_no));
      audit.rolls_seen += 1;
    }
    if *compressed {
      audit.compressed_seen += 1;
    }
  }
  // --- retention count
  if let Some(k) = policy.max_retained_sequences {
    if rolled.len() > k as usize {
      out.push(finding("roller", "retention-exceeded", "rolled-file-count",
        format!("[{}] {} rolled files present, max_retained_sequences = {}", ctx_variant, rolled.len(), k), json!({"files": rolled.keys().collect::<Vec<_>>() })));
    }
  }
  // --- records: every file is an ascending contiguous run; together (ordered by their first
  // record = creation order, because records are written in index order) they form one
  // contiguous run that ends at the last written record
  let mut runs: Vec<(u64, u64, String)> = Vec::new();
  let mut torn = false;
  let mut all: Vec<(String, Vec<u64>)> = Vec::new();
  for (name, (content, _)) in &rolled {
    match parse_records(content) {
      Ok(v) => all.push((name.clone(), v)),
      Err(e) => {
        torn = true;
        out.push(finding("roller", "torn-line", "rolled-file", format!("[{}] rolled file {}: {}", ctx_variant, name, e), json!({"file": name})));
      }
    }
  }
  match active.as_deref().map(parse_records) {
    Some(Ok(v)) => all.push(("<active>".into(), v)),
    Some(Err(e)) => {
      torn = true;
      out.push(finding("roller", "torn-line", "active-file", format!("[{}] active file: {}", ctx_variant, e), json!({})));
    }
    None => {
      if written > 0 {
        out.push(finding("roller", "active-file-missing", "after-step", format!("[{}] the active log file does not exist", ctx_variant), json!({})));
      }
    }
  }
  if torn {
    return;
  }
  let mut seen: HashSet<u64> = HashSet::new();
  for (name, v) in &all {
    for w in v.windows(2) {
      if w[1] != w[0] + 1 {
        let rule = if w[1] <= w[0] { "reordered-record" } else { "lost-record" };
        out.push(finding("roller", rule, "inside-one-file", format!("[{}] {}: record {} is followed by {}", ctx_variant, name, w[0], w[1]), json!({"file": name})));
      }
    }
    for x in v {
      if !seen.insert(*x) {
        out.push(finding("roller", "duplicate-record", "across-files", format!("[{}] record {} appears twice (second time in {})", ctx_variant, x, name), json!({"file": name})));
      }
    }
    if let (Some(a), Some(b)) = (v.first(), v.last()) {
      runs.push((*a, *b, name.clone()));
    }
  }
  runs.sort();
  for w in runs.windows(2) {
    if w[1].0 > w[0].1 + 1 {
      out.push(finding("roller", "lost-record", "gap-between-files",
        format!("[{}] records {}..{} are missing between {} and {} although older records are still present", ctx_variant, w[0].1 + 1, w[1].0 - 1, w[0].2, w[1].2), json!({})));
    }
  }
  // the active file must hold the newest records
  if let Some(last) = runs.last() {
    if last.2 != "<active>" && all.iter().any(|(n, v)| n == "<active>" && !v.is_empty()) {
      out.push(finding("roller", "reordered-record", "rolled-newer-than-active", format!("[{}] rolled file {} holds newer records than the active file", ctx_variant, last.2), json!({})));
    }
  }
  if written > 0 {
    let newest = runs.last().map(|r| r.1);
    let can_be_empty = policy.max_retained_sequences.is_some();
    match newest {
      Some(n) if n == written - 1 => {}
      Some(n) => out.push(finding("roller", "lost-record", "newest-record",
        format!("[{}] newest record on disk is {}, last written is {}", ctx_variant, n, written - 1), json!({}))),
      None => {
        // everything rolled away and deleted by retention: only legal with a retention limit
        if !can_be_empty {
          out.push(finding("roller", "lost-record", "newest-record", format!("[{}] no record on disk, {} written", ctx_variant, written), json!({})));
        }
      }
    }
    if policy.max_retained_sequences.is_none() {
      let oldest = runs.first().map(|r| r.0);
      if oldest != Some(0) {
        out.push(finding("roller", "lost-record", "oldest-record-without-retention-limit",
          format!("[{}] oldest record on disk is {:?} although nothing may ever be deleted", ctx_variant, oldest), json!({})));
      }
    }
  }
}

fn run_roller_case(rng: &mut Rng, dir: &Path, res: &mut ShardResult) -> Vec<(Finding, Value)> {
  std::fs::create_dir_all(dir).unwrap();
  let policy = gen_policy(rng, dir);
  let mut now = Utc
    .with_ymd_and_hms(2024 + rng.below(4) as i32, rng.range(1, 12) as u32, rng.range(1, 28) as u32, rng.below(24) as u32, rng.below(60) as u32, rng.below(60) as u32)
    .unwrap();
  let nsteps = rng.range(20, 120) as usize;
  let mut steps: Vec<Step> = Vec::new();
  let mut findings: Vec<Finding> = Vec::new();
  let mut audit = Audit { known: BTreeMap::new(), rolls_seen: 0, retention_deletions: 0, compressed_seen: 0 };
  let mut written: u64 = 0;
  let mut restarts_with_rolled = 0u64;
  let mut time_rolls = 0u64;
  let open = |now: DateTime<Utc>| guarded(|| VerifCustomRoller::verif_new_at_time(policy.clone(), now, None));
  let mut roller = match open(now) {
    Ok(Ok(r)) => Some(r),
    Ok(Err(e)) => {
      res.inconclusive(&format!("roller could not be created: {}", e));
      return Vec::new();
    }
    Err((msg, loc)) => {
      return vec![(finding("roller", "panic", "create", format!("creating the roller panicked at {}: {}", loc, msg), json!({"loc": loc})), policy_json(&policy))];
    }
  };
  let mut last_ctx = "write";
  let mut pending_ctx: Option<&'static str> = None;
  for step_no in 0..nsteps {
    let step = match rng.below(100) {
      0..=69 => Step::Write { pad: if rng.chance(1, 12) { rng.range(100, 600) as usize } else { rng.below(60) as usize } },
      70..=87 => {
        let (how, to) = step_clock(rng, now);
        Step::Clock { how, to }
      }
      88..=95 => Step::Restart,
      _ => Step::Flush,
    };
    steps.push(step.clone());
    let mut io_error: Option<String> = None;
    match &step {
      Step::Write { pad } => {
        let line = record_line(written, *pad);
        let period_before = policy.format_period(now);
        let _ = period_before;
        let r = guarded(|| {
          let w = roller.as_mut().unwrap();
          let mut buf: &[u8] = &line;
          while !buf.is_empty() {
            match w.verif_write_at_time(buf, now) {
              Ok(0) => return Err("write returned 0".to_string()),
              Ok(n) => buf = &buf[n..],
              Err(e) => return Err(e.to_string()),
            }
          }
          Ok(())
        });
        match r {
          Ok(Ok(())) => {
            written += 1;
            res.count("roller/writes", 1);
          }
          Ok(Err(e)) => io_error = Some(e),
          Err((msg, loc)) => {
            findings.push(finding("roller", "panic", "write", format!("write panicked at {}: {}", loc, msg), json!({"loc": loc})));
            break;
          }
        }
        last_ctx = pending_ctx.take().unwrap_or("after-write");
      }
      Step::Clock { to, .. } => {
        if policy.time_granularity != "never" && policy.format_period(*to) != policy.format_period(now) {
          time_rolls += 1;
          pending_ctx = Some("after-write-in-new-period");
        }
        now = *to;
        res.count("roller/clock_steps", 1);
      }
      Step::Restart => {
        // drop = the process ends normally (BufWriter flushes on drop), then a new process
        // opens the same directory at the current time
        roller = None;
        if !audit.known.is_empty() {
          restarts_with_rolled += 1;
        }
        match open(now) {
          Ok(Ok(r)) => roller = Some(r),
          Ok(Err(e)) => io_error = Some(e.to_string()),
          Err((msg, loc)) => {
            findings.push(finding("roller", "panic", "restart", format!("re-creating the roller panicked at {}: {}", loc, msg), json!({"loc": loc})));
            break;
          }
        }
        res.count("roller/restarts", 1);
        pending_ctx = Some("after-restart");
        last_ctx = "after-restart";
      }
      Step::Flush => {
        res.count("roller/explicit_flushes", 1);
      }
    }
    if let Some(e) = io_error {
      res.inconclusive(&format!("roller I/O error at step {}: {}", step_no, e));
      break;
    }
    // audit after every step (the active file is read after a flush)
    if let Some(w) = roller.as_mut() {
      use std::io::Write;
      if let Err(e) = w.flush() {
        res.inconclusive(&format!("flush failed: {}", e));
        break;
      }
    }
    let variant = format!("{}{}", last_ctx, if policy.compression.is_some() { "-compressing" } else { "" });
    let before = findings.len();
    audit_dir(&policy, &mut audit, step_no, written, &variant, &mut findings);
    res.count("roller/audits", 1);
    if findings.len() > before {
      break; // first violation of the case is the witness; later ones are consequences
    }
  }
  drop(roller);
  res.count("evaluations/roller", 1);
  res.count(&format!("roller/policy/granularity/{}", policy.time_granularity), 1);
  res.count(&format!("roller/policy/size_limit/{}", policy.max_file_size.is_some()), 1);
  res.count(&format!("roller/policy/retention/{}", policy.max_retained_sequences.map(|k| k.to_string()).unwrap_or("none".into())), 1);
  res.count(&format!("roller/policy/compression/{}", policy.compression.is_some()), 1);
  res.count("roller/rolled_files_created", audit.rolls_seen as u64);
  res.count("roller/retention_deletions", audit.retention_deletions as u64);
  res.count("roller/compressed_file_observations", audit.compressed_seen as u64);
  res.count("roller/clock_steps_into_new_period", time_rolls);
  res.count("roller/restarts_over_existing_rolled_files", restarts_with_rolled);
  let nontrivial = audit.rolls_seen >= 2 && (restarts_with_rolled > 0 || audit.retention_deletions > 0 || audit.compressed_seen > 0 || time_rolls > 0);
  if nontrivial {
    let mut h = Fnv::default();
    h.bytes(policy_json(&policy).to_string().as_bytes());
    h.bytes(format!("{:?}", steps).as_bytes());
    res.add_nontrivial(h.finish());
    res.count("nontrivial/roller", 1);
  }
  let program = json!({"policy": policy_json(&policy), "steps": steps_json(&steps), "records_written": written,
    "files_at_end": std::fs::read_dir(dir).map(|d| { let mut v: Vec<String> = d.map(|e| e.unwrap().file_name().into_string().unwrap()).collect(); v.sort(); v }).unwrap_or_default()});
  if res.samples.iter().filter(|s| s["family"] == "roller").count() < 1 && nontrivial && steps.len() < 60 {
    res.sample(json!({"family": "roller", "program": program}), 6);
  }
  findings.into_iter().map(|f| (f, program.clone())).collect()
}
