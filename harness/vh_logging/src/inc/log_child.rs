// ==========================================================================================
// child side of log_check (included into log_check.rs): runs ONE generated case against the
// real, process-global fibre_logging and reports what the custom streams received.
//
//   log_check --child run --dir <case dir>
//
// <case dir>/case.json is the script, <case dir>/config.yaml the logging configuration, file
// appenders write into <case dir>; the report goes to <case dir>/result.json.

use std::sync::atomic::{AtomicBool, AtomicU64, Ordering};
use std::sync::{Arc, Barrier, Mutex};
use std::time::{Duration, Instant};

/// Event targets are compile-time constants because `tracing` callsites are static.
pub const TARGETS: [&str; 12] = [
  "app", "app::db", "app::db::pool", "app::dbx", "app::d", "application", "application::core", "app_x", "ap", "other", "other::mod", "zzz::deep::path",
];

macro_rules! tr_level {
  ($name:literal, $l:expr, $m:expr) => {
    match $l {
      1 => tracing::event!(target: $name, tracing::Level::ERROR, "{}", $m),
      2 => tracing::event!(target: $name, tracing::Level::WARN, "{}", $m),
      3 => tracing::event!(target: $name, tracing::Level::INFO, "{}", $m),
      4 => tracing::event!(target: $name, tracing::Level::DEBUG, "{}", $m),
      5 => tracing::event!(target: $name, tracing::Level::TRACE, "{}", $m),
      _ => panic!("level index"),
    }
  };
}

fn emit_tracing(target: usize, level: u8, msg: &str) {
  match target {
    0 => tr_level!("app", level, msg),
    1 => tr_level!("app::db", level, msg),
    2 => tr_level!("app::db::pool", level, msg),
    3 => tr_level!("app::dbx", level, msg),
    4 => tr_level!("app::d", level, msg),
    5 => tr_level!("application", level, msg),
    6 => tr_level!("application::core", level, msg),
    7 => tr_level!("app_x", level, msg),
    8 => tr_level!("ap", level, msg),
    9 => tr_level!("other", level, msg),
    10 => tr_level!("other::mod", level, msg),
    11 => tr_level!("zzz::deep::path", level, msg),
    _ => panic!("target index"),
  }
}

fn emit_log(target: usize, level: u8, msg: &str) {
  let lvl = match level {
    1 => log::Level::Error,
    2 => log::Level::Warn,
    3 => log::Level::Info,
    4 => log::Level::Debug,
    _ => log::Level::Trace,
  };
  log::log!(target: TARGETS[target], lvl, "{}", msg);
}

pub fn message_of(id: u64, thread: u64) -> String {
  format!("ev {} th{}", id, thread)
}

#[derive(Clone)]
struct ScriptEvent {
  id: u64,
  thread: u64,
  target: usize,
  level: u8,
  tracing: bool,
}

fn parse_events(v: &serde_json::Value) -> Vec<ScriptEvent> {
  v.as_array()
    .map(|a| {
      a.iter()
        .map(|e| ScriptEvent {
          id: e["id"].as_u64().unwrap(),
          thread: e["thread"].as_u64().unwrap(),
          target: e["target"].as_u64().unwrap() as usize,
          level: e["level"].as_u64().unwrap() as u8,
          tracing: e["api"].as_str() == Some("tracing"),
        })
        .collect()
    })
    .unwrap_or_default()
}

fn emit(e: &ScriptEvent) -> (u64, u64) {
  let msg = message_of(e.id, e.thread);
  let call = vh_core::stamp();
  if e.tracing {
    emit_tracing(e.target, e.level, &msg);
  } else {
    emit_log(e.target, e.level, &msg);
  }
  let ret = vh_core::stamp();
  (call, ret)
}

// ---- "pinned emitter": a legal schedule in which one emitting thread is preempted between two
// of the channel's own atomic steps (ticket claim -> slot publication) for a scripted time.
thread_local!(static PIN_STATE: std::cell::Cell<u8> = const { std::cell::Cell::new(0) }); // 1 armed, 2 claimed
static PIN_STALL_MS: AtomicU64 = AtomicU64::new(0);
static PIN_ENTERED: AtomicBool = AtomicBool::new(false);

fn pin_hook(kind: fibre::verif::Kind) {
  let _ = PIN_STATE.try_with(|s| match (s.get(), kind) {
    (1, fibre::verif::Kind::Rmw) => s.set(2),
    (2, fibre::verif::Kind::Store) => {
      s.set(0);
      PIN_ENTERED.store(true, Ordering::SeqCst);
      std::thread::sleep(Duration::from_millis(PIN_STALL_MS.load(Ordering::SeqCst)));
    }
    _ => {}
  });
}

struct StreamReport {
  name: String,
  received: Vec<serde_json::Value>,
  disconnected: bool,
  saw_empty_after_quiescence: bool,
}

pub fn child_main(args: &vh_core::cli::Args) {
  use serde_json::json;
  let dir = std::path::PathBuf::from(args.get("dir").expect("--dir"));
  let case: serde_json::Value = serde_json::from_str(&std::fs::read_to_string(dir.join("case.json")).expect("case.json")).expect("case json");
  let result_path = dir.join("result.json");
  let panics: Arc<Mutex<Vec<String>>> = Arc::new(Mutex::new(Vec::new()));
  let write_result = |v: serde_json::Value| {
    let tmp = dir.join("result.json.tmp");
    std::fs::write(&tmp, serde_json::to_string(&v).unwrap()).expect("write result");
    std::fs::rename(&tmp, &result_path).expect("rename result");
  };

  // --- chaos on the channel's own synchronisation steps (claim -> publish windows etc.)
  let chaos = case["chaos"].as_str().unwrap_or("off").to_string();
  let seed = case["seed"].as_u64().unwrap_or(1);
  let pinned = chaos == "pin";
  if pinned {
    PIN_STALL_MS.store(case["pin"]["stall_ms"].as_u64().unwrap_or(100), Ordering::SeqCst);
    fibre::verif::install(Some(pin_hook));
  } else {
    vh_core::chaos::install();
  }
  let profile = match chaos.as_str() {
    "light" => vh_core::chaos::Profile::LIGHT,
    "heavy" => vh_core::chaos::Profile::HEAVY,
    "shutdown-race" => {
      let mut p = vh_core::chaos::Profile::HEAVY;
      p.p_sleep = (1 << 20) / 25;
      p.max_sleep_us = 1500;
      p.p_yield = (1 << 20) / 20;
      p.horizon = 200;
      p
    }
    _ => vh_core::chaos::Profile::OFF,
  };
  vh_core::chaos::set_profile(&profile);
  vh_core::chaos::set_auto(chaos != "off" && !pinned, seed);

  let probes = parse_events(&case["probes"]);
  let events = parse_events(&case["events"]);
  let nthreads = case["threads"].as_u64().unwrap() as usize;
  let how = case["shutdown"]["how"].as_str().unwrap().to_string();
  let while_running = case["shutdown"]["mode"].as_str() == Some("while-running");
  let wait_threads: Vec<u64> = case["shutdown"]["wait_threads"].as_array().map(|a| a.iter().map(|x| x.as_u64().unwrap()).collect()).unwrap_or_default();

  // --- events before init must go nowhere (and register their callsites early)
  let mut pre_init = Vec::new();
  if case["pre_init"].as_bool() == Some(true) {
    for e in probes.iter().take(6) {
      let mut e = e.clone();
      e.id += 1_000_000;
      pre_init.push(e.id);
      emit(&e);
    }
  }

  // --- slow sink: the appender's file is a FIFO; nothing is read from it until shutdown has begun,
  // then 1 KiB every 25 ms (copied into `<name>.out`, where the parent looks)
  let shutdown_started = Arc::new(AtomicBool::new(false));
  let mut slow_reader = None;
  if let Some(name) = case["slow_sink"].as_str() {
    let fifo = dir.join(format!("{}.fifo", name));
    let out = dir.join(format!("{}.out", name));
    let ok = std::process::Command::new("mkfifo").arg(&fifo).status().map(|s| s.success()).unwrap_or(false);
    if !ok {
      write_result(json!({"init_error": "mkfifo failed"}));
      return;
    }
    let started = shutdown_started.clone();
    slow_reader = Some(std::thread::spawn(move || {
      use std::io::{Read, Write};
      let mut f = match std::fs::File::open(&fifo) {
        Ok(f) => f,
        Err(_) => return false,
      };
      let mut o = std::fs::File::create(&out).expect("slow sink copy");
      while !started.load(Ordering::SeqCst) {
        std::thread::sleep(Duration::from_millis(2));
      }
      let mut buf = [0u8; 1024];
      let t0 = Instant::now();
      loop {
        match f.read(&mut buf) {
          Ok(0) => return true, // writer closed the file: everything it wrote has been copied
          Ok(n) => {
            let _ = o.write_all(&buf[..n]);
          }
          Err(_) => return false,
        }
        if t0.elapsed() > Duration::from_secs(25) {
          return false;
        }
        std::thread::sleep(Duration::from_millis(25));
      }
    }));
  }

  let init = match std::panic::catch_unwind(|| fibre_logging::init_from_file(&dir.join("config.yaml"))) {
    Ok(Ok(i)) => i,
    Ok(Err(e)) => {
      write_result(json!({"init_error": e.to_string()}));
      return;
    }
    Err(p) => {
      write_result(json!({"init_panic": format!("{} @ {}", vh_core::panic_message(&*p), vh_core::last_panic_location())}));
      return;
    }
  };
  let mut init = init;

  // --- consumers of the custom streams (needed while emitting: overflow policy is `block`)
  let quiescent = Arc::new(AtomicBool::new(false));
  let mut consumers = Vec::new();
  let mut names: Vec<String> = init.custom_streams.keys().cloned().collect();
  names.sort();
  for name in names {
    let rx = init.custom_streams.remove(&name).unwrap();
    let q = quiescent.clone();
    consumers.push(std::thread::spawn(move || {
      let mut rep = StreamReport { name, received: Vec::new(), disconnected: false, saw_empty_after_quiescence: false };
      let push = |rep: &mut StreamReport, ev: fibre_logging::LogEvent| {
        rep.received.push(json!({"level": ev.level.to_string(), "target": ev.target, "message": ev.message}));
      };
      loop {
        let was_quiescent = q.load(Ordering::SeqCst);
        match rx.recv_timeout(Duration::from_millis(3)) {
          Ok(ev) => push(&mut rep, ev),
          Err(fibre::RecvErrorTimeout::Disconnected) => {
            rep.disconnected = true;
            break;
          }
          Err(fibre::RecvErrorTimeout::Timeout) => {
            if was_quiescent {
              // Nothing can change any more: shutdown has returned and every emitter is done.
              match rx.try_recv() {
                Ok(ev) => push(&mut rep, ev),
                Err(fibre::TryRecvError::Disconnected) => {
                  rep.disconnected = true;
                  break;
                }
                Err(fibre::TryRecvError::Empty) => {
                  rep.saw_empty_after_quiescence = true;
                  break;
                }
              }
            }
          }
        }
      }
      rep
    }));
  }

  // --- probes: one event per (target, level, api) used by the script, emitted sequentially first
  let stamps: Arc<Mutex<Vec<(u64, u64, u64)>>> = Arc::new(Mutex::new(Vec::new()));
  for e in &probes {
    match std::panic::catch_unwind(|| emit(e)) {
      Ok((c, r)) => stamps.lock().unwrap().push((e.id, c, r)),
      Err(p) => panics.lock().unwrap().push(format!("emit probe: {} @ {}", vh_core::panic_message(&*p), vh_core::last_panic_location())),
    }
  }

  // --- emitting threads
  let barrier = Arc::new(Barrier::new(nthreads + 1));
  let mut handles: Vec<Option<std::thread::JoinHandle<()>>> = Vec::new();
  let done: Arc<Vec<AtomicU64>> = Arc::new((0..nthreads).map(|_| AtomicU64::new(0)).collect());
  for t in 0..nthreads {
    let mine: Vec<ScriptEvent> = events.iter().filter(|e| e.thread == t as u64).cloned().collect();
    let (b, st, pn, dn) = (barrier.clone(), stamps.clone(), panics.clone(), done.clone());
    let use_chaos = chaos != "off" && !pinned;
    handles.push(Some(
      std::thread::Builder::new()
        .name(format!("emitter-{}", t))
        .spawn(move || {
          let _g = if use_chaos { Some(vh_core::chaos::enter(seed, 0, t as u64 + 1)) } else { None };
          b.wait();
          let mut local = Vec::with_capacity(mine.len());
          for e in &mine {
            match std::panic::catch_unwind(|| emit(e)) {
              Ok((c, r)) => local.push((e.id, c, r)),
              Err(p) => pn.lock().unwrap().push(format!("emit: {} @ {}", vh_core::panic_message(&*p), vh_core::last_panic_location())),
            }
            dn[t].fetch_add(1, Ordering::SeqCst);
          }
          st.lock().unwrap().extend(local);
        })
        .unwrap(),
    ));
  }
  barrier.wait();
  if while_running {
    for &t in &wait_threads {
      if let Some(h) = handles[t as usize].take() {
        let _ = h.join();
      }
    }
  } else {
    for h in handles.iter_mut() {
      if let Some(h) = h.take() {
        let _ = h.join();
      }
    }
  }
  // --- pinned emitter + events that return while it is pinned
  let mut pin_handle = None;
  if pinned {
    let pe = parse_events(&serde_json::Value::Array(vec![case["pin"]["event"].clone()])).remove(0);
    let (st, pn) = (stamps.clone(), panics.clone());
    pin_handle = Some(std::thread::Builder::new().name("pinned-emitter".into()).spawn(move || {
      PIN_STATE.with(|s| s.set(1));
      match std::panic::catch_unwind(|| emit(&pe)) {
        Ok((c, r)) => st.lock().unwrap().push((pe.id, c, r)),
        Err(p) => pn.lock().unwrap().push(format!("emit: {} @ {}", vh_core::panic_message(&*p), vh_core::last_panic_location())),
      }
      PIN_STATE.with(|s| s.set(0));
    }).unwrap());
    let t_wait = Instant::now();
    while !PIN_ENTERED.load(Ordering::SeqCst) && t_wait.elapsed() < Duration::from_millis(500) && !pin_handle.as_ref().unwrap().is_finished() {
      std::thread::sleep(Duration::from_micros(200));
    }
    for e in parse_events(&case["pin"]["post"]) {
      match std::panic::catch_unwind(|| emit(&e)) {
        Ok((c, r)) => stamps.lock().unwrap().push((e.id, c, r)),
        Err(p) => panics.lock().unwrap().push(format!("emit: {} @ {}", vh_core::panic_message(&*p), vh_core::last_panic_location())),
      }
    }
  }
  // --- shutdown
  let t0 = Instant::now();
  let shutdown_call = vh_core::stamp();
  shutdown_started.store(true, Ordering::SeqCst);
  let shutdown_budget = if slow_reader.is_some() { 20 } else { 8 };
  let r = std::panic::catch_unwind(std::panic::AssertUnwindSafe(|| {
    if how == "drop" {
      drop(init);
    } else {
      init.shutdown(Duration::from_secs(shutdown_budget));
    }
  }));
  let shutdown_ret = vh_core::stamp();
  let shutdown_ms = t0.elapsed().as_millis() as u64;
  if let Err(p) = r {
    panics.lock().unwrap().push(format!("shutdown: {} @ {}", vh_core::panic_message(&*p), vh_core::last_panic_location()));
  }
  for h in handles.iter_mut() {
    if let Some(h) = h.take() {
      let _ = h.join();
    }
  }
  if let Some(h) = pin_handle {
    let _ = h.join();
  }
  let slow_sink_eof = slow_reader.map(|h| h.join().unwrap_or(false));
  let pin_entered = PIN_ENTERED.load(Ordering::SeqCst);
  quiescent.store(true, Ordering::SeqCst);
  let mut streams = Vec::new();
  for c in consumers {
    match c.join() {
      Ok(rep) => streams.push(json!({"name": rep.name, "received": rep.received, "disconnected": rep.disconnected,
        "saw_empty_after_quiescence": rep.saw_empty_after_quiescence})),
      Err(_) => panics.lock().unwrap().push("consumer thread died".into()),
    }
  }
  let totals = vh_core::chaos::take_totals();
  let st = stamps.lock().unwrap();
  write_result(json!({
    "stamps": st.iter().map(|(id, c, r)| json!([id, c, r])).collect::<Vec<_>>(),
    "shutdown_call": shutdown_call, "shutdown_ret": shutdown_ret, "shutdown_ms": shutdown_ms,
    "streams": streams, "panics": *panics.lock().unwrap(), "pre_init_ids": pre_init, "pin_entered": pin_entered,
    "chaos_points": totals.total_points(), "chaos_delays": totals.delays + totals.stalls,
    "slow_sink_read_to_eof": slow_sink_eof,
  }));
}
