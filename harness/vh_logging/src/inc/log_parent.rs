// ==========================================================================================
// parent side of log_check: run the child, read what every appender received, compare with
// the expectation (included into log_check.rs)

struct Finding {
  sig: String,
  summary: String,
  detail: Value,
}

fn finding(component: &str, rule: &str, variant: &str, summary: String, detail: Value) -> Finding {
  Finding { sig: format!("C19/{}/{}/{}", component, rule, variant), summary, detail }
}

#[derive(Debug, Clone)]
struct Received {
  id: Option<u64>,
  level: String,
  target: String,
  message: String,
}

fn parse_id(message: &str) -> Option<u64> {
  let mut it = message.split(' ');
  if it.next() != Some("ev") {
    return None;
  }
  it.next()?.parse().ok()
}

/// Reads a file appender's output. `Err` = a line that cannot be parsed (reported as such).
fn read_file_appender(path: &Path, encoder: &str) -> Result<Vec<Received>, String> {
  let text = match std::fs::read_to_string(path) {
    Ok(t) => t,
    Err(e) if e.kind() == std::io::ErrorKind::NotFound => return Ok(Vec::new()),
    Err(e) => return Err(e.to_string()),
  };
  let mut out = Vec::new();
  for line in text.split_inclusive('\n') {
    if !line.ends_with('\n') {
      return Err(format!("unterminated last line {:?}", line));
    }
    let line = &line[..line.len() - 1];
    if encoder == "pattern" {
      let parts: Vec<&str> = line.splitn(3, '|').collect();
      if parts.len() != 3 {
        return Err(format!("malformed pattern line {:?}", line));
      }
      out.push(Received { id: parse_id(parts[2]), level: parts[0].to_string(), target: parts[1].to_string(), message: parts[2].to_string() });
    } else {
      let v: Value = serde_json::from_str(line).map_err(|e| format!("invalid JSON line {:?}: {}", line, e))?;
      let message = v["message"].as_str().unwrap_or("").to_string();
      out.push(Received { id: parse_id(&message), level: v["level"].as_str().unwrap_or("").to_string(), target: v["target"].as_str().unwrap_or("").to_string(), message });
    }
  }
  Ok(out)
}

const LEVEL_UPPER: [&str; 6] = ["OFF", "ERROR", "WARN", "INFO", "DEBUG", "TRACE"];

struct CaseStats {
  emitted: u64,
  deliveries_expected: u64,
  deliveries_seen: u64,
  required: u64,
  nonadditive_winner_events: u64,
  boundary_near_miss_events: u64,
  in_flight_at_shutdown: u64,
}

fn check_case(case: &Case, dir: &Path, result: &Value, res: &mut ShardResult) -> (Vec<Finding>, CaseStats) {
  let mut out = Vec::new();
  let mut stats = CaseStats { emitted: 0, deliveries_expected: 0, deliveries_seen: 0, required: 0, nonadditive_winner_events: 0, boundary_near_miss_events: 0, in_flight_at_shutdown: 0 };
  for p in result["panics"].as_array().cloned().unwrap_or_default() {
    let p = p.as_str().unwrap_or("").to_string();
    if p.contains("/vh_logging/") || p.contains("/vh_core/") {
      res.inconclusive(&format!("harness panic in child: {}", p));
    } else {
      let what = p.split(':').next().unwrap_or("call").trim().replace(' ', "-");
      out.push(finding("library", "panic", &what, format!("library panicked: {}", p), json!({"panic": p})));
    }
  }
  let stamps: HashMap<u64, (u64, u64)> = result["stamps"].as_array().cloned().unwrap_or_default().iter().map(|s| (s[0].as_u64().unwrap(), (s[1].as_u64().unwrap(), s[2].as_u64().unwrap()))).collect();
  let shutdown_call = result["shutdown_call"].as_u64().unwrap_or(u64::MAX);
  let all: Vec<&Ev> = case.probes.iter().chain(case.events.iter()).chain(case.pin_event.iter()).chain(case.pin_post.iter()).collect();
  let by_id: HashMap<u64, &Ev> = all.iter().map(|e| (e.id, *e)).collect();
  stats.emitted = all.len() as u64;
  // script position per thread for the order check
  let mut pos: HashMap<u64, usize> = HashMap::new();
  for (i, e) in all.iter().enumerate() {
    pos.insert(e.id, i);
  }
  // expectation per event
  let mut exp: HashMap<u64, BTreeSet<String>> = HashMap::new();
  let mut winner_of: HashMap<u64, LoggerSpec> = HashMap::new();
  for e in &all {
    let (set, w) = expected_appenders(case, TARGETS[e.target], e.level);
    if !w.additive {
      stats.nonadditive_winner_events += 1;
    }
    if case.loggers.iter().any(|l| l.name != "root" && TARGETS[e.target].starts_with(l.name.as_str()) && !module_prefix(&l.name, TARGETS[e.target])) {
      stats.boundary_near_miss_events += 1;
    }
    stats.deliveries_expected += set.len() as u64;
    exp.insert(e.id, set);
    winner_of.insert(e.id, w);
  }
  for e in &all {
    match stamps.get(&e.id) {
      Some((_, ret)) if *ret < shutdown_call => {}
      _ => stats.in_flight_at_shutdown += 1,
    }
  }
  // what every appender received
  let mut received: BTreeMap<String, Vec<Received>> = BTreeMap::new();
  let streams = result["streams"].as_array().cloned().unwrap_or_default();
  for a in &case.appenders {
    if a.kind == "custom" {
      let Some(s) = streams.iter().find(|s| s["name"] == a.name.as_str()) else {
        out.push(finding("init", "custom-stream-missing", "custom", format!("custom appender {} has no receiver in InitResult.custom_streams", a.name), json!({})));
        continue;
      };
      let v: Vec<Received> = s["received"]
        .as_array()
        .cloned()
        .unwrap_or_default()
        .iter()
        .map(|r| {
          let message = r["message"].as_str().unwrap_or("").to_string();
          Received { id: parse_id(&message), level: r["level"].as_str().unwrap_or("").to_string(), target: r["target"].as_str().unwrap_or("").to_string(), message }
        })
        .collect();
      received.insert(a.name.clone(), v);
      if s["disconnected"].as_bool() != Some(true) {
        out.push(finding("shutdown", "stream-not-disconnected", "custom",
          format!("custom stream {} still reports Empty (not Disconnected) after shutdown returned and every emitter had finished", a.name), json!({"stream": a.name})));
      } else {
        res.count("streams_drained_to_disconnected", 1);
      }
    } else {
      match read_file_appender(&dir.join(format!("{}.out", a.name)), &a.encoder) {
        Ok(v) => {
          received.insert(a.name.clone(), v);
        }
        Err(e) => out.push(finding("delivery", "unparsable-output", &format!("file-{}", a.encoder), format!("file appender {}: {}", a.name, e), json!({"appender": a.name}))),
      }
    }
  }
  let pre_init: HashSet<u64> = result["pre_init_ids"].as_array().cloned().unwrap_or_default().iter().filter_map(|x| x.as_u64()).collect();
  for a in &case.appenders {
    let Some(recv) = received.get(&a.name) else { continue };
    let kind = if a.kind == "custom" { "custom-stream" } else { "file-appender" };
    stats.deliveries_seen += recv.len() as u64;
    let mut seen_ids: HashMap<u64, usize> = HashMap::new();
    let mut last_pos_by_thread: HashMap<u64, (usize, u64)> = HashMap::new();
    for r in recv {
      let Some(id) = r.id else {
        out.push(finding("delivery", "foreign-record", kind, format!("{} received a record that no script event produced: {:?}", a.name, r.message), json!({"appender": a.name})));
        continue;
      };
      if pre_init.contains(&id) {
        out.push(finding("delivery", "pre-init-event-delivered", kind, format!("{} received event {} that was emitted before initialisation", a.name, id), json!({"appender": a.name})));
        continue;
      }
      let Some(e) = by_id.get(&id) else {
        out.push(finding("delivery", "foreign-record", kind, format!("{} received unknown event id {}", a.name, id), json!({"appender": a.name})));
        continue;
      };
      *seen_ids.entry(id).or_insert(0) += 1;
      // same logical content for log and tracing
      let want_msg = message_of(e.id, e.thread);
      if r.message != want_msg || r.target != TARGETS[e.target] || r.level != LEVEL_UPPER[e.level as usize] {
        out.push(finding("delivery", "content-mismatch", if e.tracing { "tracing" } else { "log" },
          format!("{}: event {} emitted as ({}, {}, {:?}) arrived as ({}, {}, {:?})", a.name, id, LEVEL_UPPER[e.level as usize], TARGETS[e.target], want_msg, r.level, r.target, r.message), json!({"appender": a.name})));
      }
      // per-thread order
      let p = pos[&id];
      if let Some((lp, lid)) = last_pos_by_thread.get(&e.thread) {
        if p < *lp {
          out.push(finding("delivery", "per-thread-order", kind,
            format!("{}: event {} of thread {} arrived after event {} although it was emitted earlier", a.name, id, e.thread, lid), json!({"appender": a.name})));
        }
      }
      last_pos_by_thread.insert(e.thread, (p, id));
      // routing
      if !exp[&id].contains(&a.name) {
        let w = &winner_of[&id];
        let variant = if !w.additive && w.appenders.is_empty() {
          "non-additive-logger-without-appenders"
        } else if !w.additive {
          "non-additive-logger-ignored"
        } else if case.loggers.iter().any(|l| l.appenders.contains(&a.name) && l.name != "root" && TARGETS[e.target].starts_with(l.name.as_str()) && !module_prefix(&l.name, TARGETS[e.target])) {
          "prefix-without-module-boundary"
        } else {
          "level-or-logger-selection"
        };
        out.push(finding("routing", "unexpected-delivery", variant,
          format!("{} received event {} (target {}, level {}, via {}) which the rule does not route there (most specific matching logger: {:?} additive={} appenders={:?})",
            a.name, id, TARGETS[e.target], LEVEL_UPPER[e.level as usize], if e.tracing { "tracing" } else { "log" }, w.name, w.additive, w.appenders),
          json!({"appender": a.name, "event": ev_json(e)})));
      }
    }
    for (id, n) in &seen_ids {
      if *n > 1 {
        out.push(finding("delivery", "duplicate", kind, format!("{} received event {} {} times", a.name, id, n), json!({"appender": a.name})));
      }
    }
    // missing deliveries: only events whose emit call returned before shutdown began are owed
    for e in &all {
      if !exp[&e.id].contains(&a.name) || seen_ids.contains_key(&e.id) {
        continue;
      }
      let Some((_, ret)) = stamps.get(&e.id) else { continue };
      if *ret >= shutdown_call {
        continue;
      }
      // Did the sequential probe of the same (target, level, api) reach this appender? Then
      // routing works and this event was lost on the way.
      let probe_of = |tracing: bool| case.probes.iter().find(|p| p.target == e.target && p.level == e.level && p.tracing == tracing).map(|p| seen_ids.contains_key(&p.id));
      let same_api = probe_of(e.tracing);
      let other_api = probe_of(!e.tracing);
      if same_api == Some(true) && !e.probe {
        let when = if case.while_running { "emitters-still-running" } else { "after-emitters-finished" };
        if case.chaos == "pin" {
          res.count("pinned_emitter/lost_events_in_pinned_cases", 1);
        }
        out.push(finding("shutdown", "lost-event", &format!("{}-{}", kind, when),
          format!("{} never received event {} (thread {}, via {}) although its emit call returned before shutdown began and the same kind of event was delivered earlier",
            a.name, e.id, e.thread, if e.tracing { "tracing" } else { "log" }), json!({"appender": a.name, "event": ev_json(e)})));
      } else {
        let w = &winner_of[&e.id];
        let variant = match (e.tracing, other_api) {
          // the most specific matching logger owns no appender: it is invisible to the
          // implementation's additivity gate, a less specific non-additive logger takes over
          _ if w.appenders.is_empty() && w.name != "root" => "most-specific-logger-without-appenders",
          (true, Some(true)) => "tracing-only",
          (false, Some(true)) => "log-only",
          _ => "both-apis",
        };
        out.push(finding("routing", "missing-delivery", variant,
          format!("{} never received event {} (target {}, level {}, via {}) which the rule routes there", a.name, e.id, TARGETS[e.target], LEVEL_UPPER[e.level as usize], if e.tracing { "tracing" } else { "log" }),
          json!({"appender": a.name, "event": ev_json(e)})));
      }
    }
  }
  // events that were owed count
  for e in &all {
    if let Some((_, ret)) = stamps.get(&e.id) {
      if *ret < shutdown_call {
        stats.required += exp[&e.id].len() as u64;
      }
    }
  }
  (out, stats)
}

fn main() {
  let args = Args::parse();
  vh_core::install_quiet_panic_hook();
  if args.get("child").is_some() {
    child_main(&args);
    return;
  }
  let mut res = ShardResult::new(&args.prop, "log_check", args.seed, args.shard);
  res.rule = "one evaluation = one generated case run in its own child process: 1-4 appenders (custom streams and file appenders with \
    json / flattened json / pattern encoders, channel capacity 1-1024, overflow: block), a logger tree drawn from {root, app, app::db, \
    app::db::pool, application, ap, app::d, other, other::mod, app_x, zzz} with random levels (off..trace), additivity flags and appender \
    lists (possibly empty or with a duplicate), and a script of 10-160 (+60-250 straggler) events over 3-10 (target, level) combinations from \
    12 targets, each emitted through `log` or `tracing` by 1-4 threads after one sequential probe per (target, level, api); shutdown by \
    shutdown() or by dropping the guard, after all emitters finished or while some are still emitting (channel chaos on, or one emitter pinned between the channel's ticket claim and slot publication for 2-250 ms while 1-5 further events are emitted and return). Non-trivial = the \
    case contains an event whose most specific matching logger is non-additive, or a logger name that is a string prefix but not a \
    module-path prefix of an emitted target, or a shutdown that overlapped running emitters. Distinct = hash of (configuration, script)."
    .into();
  let focus = args.get("focus").unwrap_or("all").to_string();
  let mut rng = Rng::new(args.shard_seed());
  let base_tmp = std::env::temp_dir().join(format!("vh-log-check-{}-{}-{}", std::process::id(), args.seed, args.shard));
  let _ = std::fs::create_dir_all(&base_tmp);
  let exe = std::env::current_exe().expect("current_exe");
  let watchdog = std::time::Duration::from_millis(args.get_u64("child-watchdog-ms", 30_000));
  let mut sig_counts: HashMap<String, u64> = HashMap::new();
  let max_iter = args.get_u64("max-iter", u64::MAX);
  let mut iter = 0u64;
  while args.time_left() && iter < max_iter {
    iter += 1;
    // every shard starts with one slow-sink shutdown case (a few seconds), then the general mix
    let case = if iter == 1 && focus == "all" && args.shard % 2 == 0 { gen_case(&mut rng, "slow-sink") } else { gen_case(&mut rng, &focus) };
    if case.slow_sink.is_some() {
      res.count("evaluations/slow_sink_shutdown", 1);
    }
    let dir = base_tmp.join(format!("case-{}", iter));
    std::fs::create_dir_all(&dir).expect("case dir");
    let yaml = yaml_of(&case, &dir);
    std::fs::write(dir.join("config.yaml"), &yaml).expect("config.yaml");
    std::fs::write(dir.join("case.json"), case_json(&case).to_string()).expect("case.json");
    let mut cmd = std::process::Command::new(&exe);
    cmd.arg("--child").arg("run").arg("--dir").arg(&dir);
    let outc = proc::run(cmd, watchdog);
    res.executions += 1;
    res.count(&format!("evaluations/shutdown_{}/{}", case.how, if case.while_running { "while-emitters-running" } else { "after-emitters-finished" }), 1);
    res.count(&format!("chaos_profile/{}", case.chaos), 1);
    let result: Option<Value> = std::fs::read_to_string(dir.join("result.json")).ok().and_then(|t| serde_json::from_str(&t).ok());
    let program = json!({"config": config_json(&case), "config_yaml": yaml, "script": case_json(&case)});
    let mut findings: Vec<Finding> = Vec::new();
    match (&outc.ending, &result) {
      (proc::Ending::Exited(0), Some(r)) if r.get("init_error").is_some() || r.get("init_panic").is_some() => {
        // every generated configuration is valid: a refusal is a harness/generator problem
        res.inconclusive(&format!("child could not initialise logging: {}", r));
      }
      (proc::Ending::Exited(0), Some(r)) if case.slow_sink.is_some() && r["slow_sink_read_to_eof"].as_bool() != Some(true) => {
        res.inconclusive("slow-sink case: the FIFO reader did not reach end-of-file (writer still open or too slow): no verdict");
      }
      (proc::Ending::Exited(0), Some(r)) => {
        let (f, st) = check_case(&case, &dir, r, &mut res);
        findings = f;
        res.count("events_emitted", st.emitted);
        res.count("deliveries/expected_by_rule", st.deliveries_expected);
        res.count("deliveries/observed", st.deliveries_seen);
        res.count("deliveries/owed_before_shutdown", st.required);
        res.count("events/most_specific_logger_non_additive", st.nonadditive_winner_events);
        res.count("events/target_has_string_prefix_logger_without_boundary", st.boundary_near_miss_events);
        res.count("events/not_returned_before_shutdown_began", st.in_flight_at_shutdown);
        if case.chaos == "pin" {
          res.count(if r["pin_entered"].as_bool() == Some(true) { "pinned_emitter/pinned_between_claim_and_publish" } else { "pinned_emitter/event_not_routed_anywhere" }, 1);
        }
        res.count("child/chaos_points", r["chaos_points"].as_u64().unwrap_or(0));
        res.count("child/chaos_delays", r["chaos_delays"].as_u64().unwrap_or(0));
        res.count("child/shutdown_ms_total", r["shutdown_ms"].as_u64().unwrap_or(0));
        for e in case.probes.iter().chain(case.events.iter()) {
          res.count(if e.tracing { "events_by_api/tracing" } else { "events_by_api/log" }, 1);
        }
        for a in &case.appenders {
          res.count(&format!("appenders/{}", if a.kind == "custom" { "custom".to_string() } else { format!("file-{}", a.encoder) }), 1);
        }
        let nontrivial = st.nonadditive_winner_events > 0 || st.boundary_near_miss_events > 0 || (case.while_running && st.in_flight_at_shutdown > 0);
        if nontrivial {
          let mut h = Fnv::default();
          h.bytes(program["config"].to_string().as_bytes());
          h.bytes(program["script"].to_string().as_bytes());
          res.add_nontrivial(h.finish());
          res.count("nontrivial_cases", 1);
        }
        if res.samples.len() < 2 && nontrivial && case.events.len() < 40 {
          res.sample(json!({"config": config_json(&case), "script_events": case.events.len(), "shutdown": case_json(&case)["shutdown"],
            "observed": {"deliveries": st.deliveries_seen, "expected": st.deliveries_expected}}), 3);
        }
      }
      (proc::Ending::Timeout, _) => res.inconclusive(&format!("child hit the {} ms watchdog (stderr: {})", watchdog.as_millis(), outc.stderr.chars().take(300).collect::<String>())),
      (proc::Ending::Signaled(s), _) => {
        findings.push(finding("library", "crash", "signal", format!("child died with signal {} (stderr: {})", s, outc.stderr.chars().take(400).collect::<String>()), json!({"signal": s})));
      }
      (e, _) => res.inconclusive(&format!("child ended {:?} without a result (stderr: {})", e, outc.stderr.chars().take(300).collect::<String>())),
    }
    // one witness per signature per case is enough
    let mut seen_in_case = HashSet::new();
    for f in findings {
      res.count(&format!("findings_by_signature/{}", f.sig.replace('/', "|")), 1);
      if !seen_in_case.insert(f.sig.clone()) {
        continue;
      }
      let n = sig_counts.entry(f.sig.clone()).or_insert(0);
      *n += 1;
      if *n <= 3 {
        let witness = json!({"seed": args.seed, "shard": args.shard, "iteration": iter, "detail": f.detail, "program": program,
          "child_stderr": outc.stderr.chars().take(1000).collect::<String>()});
        res.violation(&f.sig, &f.summary, &args.replay_dir, &witness);
      }
    }
    let _ = std::fs::remove_dir_all(&dir);
  }
  let _ = std::fs::remove_dir_all(&base_tmp);
  res.write(&args.out, args.elapsed_s());
}
