//! log_check — runtime monitor for C19: log events reach exactly the configured appenders,
//! exactly once, identically for `log` and `tracing`, in per-thread order, none lost with the
//! blocking overflow policy — including at shutdown — and custom streams disconnect after
//! draining.
//!
//! fibre_logging's initialisation is process-global, so every generated case runs in a child
//! process (`log_check --child run --dir <case dir>`); the parent generates the case, computes
//! the expected deliveries from the routing rule of the property statement and compares.

include!("../inc/log_child.rs");

use serde_json::{json, Value};
use std::collections::{BTreeMap, BTreeSet, HashMap, HashSet};
use std::path::Path;
use vh_core::cli::Args;
use vh_core::result::ShardResult;
use vh_core::rng::Rng;
use vh_core::Fnv;
use vh_logging::proc;

const LOGGER_NAMES: [&str; 10] = ["app", "app::db", "app::db::pool", "application", "ap", "app::d", "other", "other::mod", "app_x", "zzz"];
const LEVEL_NAMES: [&str; 6] = ["off", "error", "warn", "info", "debug", "trace"];

#[derive(Clone, Debug)]
struct AppenderSpec {
  name: String,
  /// "custom" | "file"
  kind: String,
  /// file encoders: "json" | "json_flat" | "pattern"
  encoder: String,
  capacity: u64,
}

#[derive(Clone, Debug)]
struct LoggerSpec {
  name: String,
  /// 0 = off, 1 = error ... 5 = trace
  level: u8,
  appenders: Vec<String>,
  additive: bool,
  /// written explicitly in the YAML (additive defaults to true)
  additive_explicit: bool,
}

#[derive(Clone, Debug)]
struct Ev {
  id: u64,
  thread: u64,
  target: usize,
  level: u8,
  tracing: bool,
  probe: bool,
}

struct Case {
  appenders: Vec<AppenderSpec>,
  loggers: Vec<LoggerSpec>,
  has_root: bool,
  threads: u64,
  probes: Vec<Ev>,
  events: Vec<Ev>,
  pre_init: bool,
  how: String,
  while_running: bool,
  wait_threads: Vec<u64>,
  chaos: String,
  seed: u64,
  /// "pin" mode: one more emitter is held between ticket claim and publication for `pin_ms`
  /// while `pin_post` events are emitted (and return) before shutdown begins
  pin_event: Option<Ev>,
  pin_post: Vec<Ev>,
  pin_ms: u64,
  /// name of a file appender whose file is a FIFO read slowly (1 KiB per 25 ms) once shutdown has
  /// begun: flushing the backlog then takes seconds, yet nothing accepted may be lost
  slow_sink: Option<String>,
}

// ------------------------------------------------------------------------------------------
// the routing rule of the C19 statement

fn module_prefix(name: &str, target: &str) -> bool {
  target == name || (target.len() > name.len() && target.starts_with(name) && target[name.len()..].starts_with("::"))
}

/// Root logger as configured, or the documented default (info, no appenders, additive).
fn root_of(case: &Case) -> LoggerSpec {
  case
    .loggers
    .iter()
    .find(|l| l.name == "root")
    .cloned()
    .unwrap_or(LoggerSpec { name: "root".into(), level: 3, appenders: vec![], additive: true, additive_explicit: false })
}

/// The statement: "delivered to an appender exactly when the most specific logger that names
/// that appender and whose name is a module-path prefix of the event target (the root logger as
/// fallback) admits the event's level, except that when the most specific matching logger
/// overall is non-additive only that logger's own appenders can receive it."
fn expected_appenders(case: &Case, target: &str, level: u8) -> (BTreeSet<String>, LoggerSpec) {
  let root = root_of(case);
  let matching: Vec<&LoggerSpec> = case.loggers.iter().filter(|l| l.name != "root" && module_prefix(&l.name, target)).collect();
  let winner: LoggerSpec = matching.iter().max_by_key(|l| l.name.len()).map(|l| (*l).clone()).unwrap_or(root.clone());
  let mut out = BTreeSet::new();
  for a in &case.appenders {
    let rule: Option<&LoggerSpec> = matching
      .iter()
      .filter(|l| l.appenders.contains(&a.name))
      .max_by_key(|l| l.name.len())
      .copied()
      .or(if root.appenders.contains(&a.name) { Some(&root) } else { None });
    let Some(rule) = rule else { continue };
    if level > rule.level {
      continue;
    }
    if !winner.additive && !winner.appenders.contains(&a.name) {
      continue;
    }
    out.insert(a.name.clone());
  }
  (out, winner)
}

// ------------------------------------------------------------------------------------------
// generation

/// Backlog flushed through a slow sink at shutdown: one file appender on a FIFO, a root logger that
/// admits everything, 2 threads x ~3300 events (a few hundred KB), shutdown() after the emitters finished.
fn gen_slow_sink_case(rng: &mut Rng) -> Case {
  let appenders = vec![AppenderSpec { name: "f0".into(), kind: "file".into(), encoder: "pattern".into(), capacity: 8192 }];
  let loggers = vec![LoggerSpec { name: "root".into(), level: 5, appenders: vec!["f0".into()], additive: true, additive_explicit: false }];
  let threads = 2;
  let combos: Vec<(usize, u8)> = (0..4).map(|_| (rng.below(TARGETS.len() as u64) as usize, rng.range(1, 5) as u8)).collect();
  let mut id = 0u64;
  let mut probes = Vec::new();
  let mut seen = HashSet::new();
  for &(t, l) in &combos {
    for tr in [false, true] {
      if seen.insert((t, l, tr)) {
        probes.push(Ev { id, thread: 99, target: t, level: l, tracing: tr, probe: true });
        id += 1;
      }
    }
  }
  let mut events = Vec::new();
  for _ in 0..rng.range(6000, 7200) {
    let &(t, l) = rng.pick(&combos);
    events.push(Ev { id, thread: rng.below(threads), target: t, level: l, tracing: rng.chance(1, 2), probe: false });
    id += 1;
  }
  Case {
    appenders, loggers, has_root: true, threads, probes, events, pre_init: false, how: "shutdown".into(), while_running: false,
    wait_threads: vec![], chaos: "off".into(), seed: rng.next(), pin_event: None, pin_post: vec![], pin_ms: 0, slow_sink: Some("f0".into()),
  }
}

fn gen_case(rng: &mut Rng, focus: &str) -> Case {
  if focus == "slow-sink" {
    return gen_slow_sink_case(rng);
  }
  let n_app = rng.range(1, 4) as usize;
  let mut appenders = Vec::new();
  for i in 0..n_app {
    let custom = rng.chance(1, 2);
    appenders.push(AppenderSpec {
      name: format!("{}{}", if custom { "s" } else { "f" }, i),
      kind: if custom { "custom".into() } else { "file".into() },
      encoder: (*rng.pick(&["json", "json_flat", "pattern"])).to_string(),
      capacity: *rng.pick(&[1u64, 2, 3, 8, 64, 256, 1024]),
    });
  }
  let names: Vec<String> = appenders.iter().map(|a| a.name.clone()).collect();
  let pick_apps = |rng: &mut Rng, allow_empty: bool| -> Vec<String> {
    let mut v: Vec<String> = names.iter().filter(|_| rng.chance(1, 2)).cloned().collect();
    if v.is_empty() && !(allow_empty && rng.chance(1, 2)) {
      v.push(rng.pick(&names).clone());
    }
    if !v.is_empty() && rng.chance(1, 12) {
      v.push(v[0].clone()); // the same appender listed twice
    }
    v
  };
  let mut loggers = Vec::new();
  let has_root = rng.chance(5, 6);
  if has_root {
    let additive = rng.chance(4, 5);
    loggers.push(LoggerSpec { name: "root".into(), level: *rng.pick(&[0u8, 1, 2, 3, 3, 4, 5]), appenders: pick_apps(rng, true), additive, additive_explicit: !additive || rng.chance(1, 3) });
  }
  let mut pool: Vec<&str> = LOGGER_NAMES.to_vec();
  rng.shuffle(&mut pool);
  // bias towards names that are prefixes of each other
  let k = rng.range(0, 5) as usize;
  let mut chosen: Vec<&str> = pool.into_iter().take(k).collect();
  if rng.chance(2, 3) && !chosen.contains(&"app") {
    chosen.push("app");
  }
  if rng.chance(1, 2) && !chosen.contains(&"app::db") {
    chosen.push("app::db");
  }
  for name in chosen {
    let additive = rng.chance(3, 5);
    loggers.push(LoggerSpec {
      name: name.to_string(),
      level: rng.below(6) as u8,
      appenders: pick_apps(rng, true),
      additive,
      additive_explicit: !additive || rng.chance(1, 3),
    });
  }
  // bias: a logger that owns no appender below / above loggers of the other additivity (the
  // shapes in which "most specific matching logger overall" and "most specific logger that
  // names an appender" differ)
  if rng.chance(1, 4) {
    let (parent, child) = *rng.pick(&[("app", "app::db"), ("app::db", "app::db::pool"), ("other", "other::mod")]);
    loggers.retain(|l| l.name != parent && l.name != child);
    let parent_additive = rng.chance(1, 2);
    loggers.push(LoggerSpec { name: parent.into(), level: rng.range(2, 5) as u8, appenders: pick_apps(rng, false), additive: parent_additive, additive_explicit: true });
    loggers.push(LoggerSpec { name: child.into(), level: rng.below(6) as u8, appenders: vec![], additive: !parent_additive, additive_explicit: true });
  }
  let threads = rng.range(1, 4);
  // a handful of (target, level) combinations, each emitted several times through both APIs
  let n_combo = rng.range(3, 10) as usize;
  let combos: Vec<(usize, u8)> = (0..n_combo).map(|_| (rng.below(TARGETS.len() as u64) as usize, rng.range(1, 5) as u8)).collect();
  let mut id = 0u64;
  let mut probes = Vec::new();
  let mut seen = HashSet::new();
  for &(t, l) in &combos {
    for tr in [false, true] {
      if seen.insert((t, l, tr)) {
        probes.push(Ev { id, thread: 99, target: t, level: l, tracing: tr, probe: true });
        id += 1;
      }
    }
  }
  let n_events = rng.range(10, 160);
  let mut events = Vec::new();
  for _ in 0..n_events {
    let &(t, l) = rng.pick(&combos);
    events.push(Ev { id, thread: rng.below(threads), target: t, level: l, tracing: rng.chance(1, 2), probe: false });
    id += 1;
  }
  let while_running = match focus {
    "routing" => false,
    "shutdown" => threads >= 2,
    _ => threads >= 2 && rng.chance(1, 3),
  };
  let mut wait_threads = Vec::new();
  if while_running {
    // at least one thread is joined before shutdown begins and at least one keeps emitting
    let mut ts: Vec<u64> = (0..threads).collect();
    rng.shuffle(&mut ts);
    let k = rng.range(1, threads - 1) as usize;
    wait_threads = ts[..k].to_vec();
    // stragglers get a long tail so that they are still busy when shutdown starts
    let stragglers: Vec<u64> = ts[k..].to_vec();
    for _ in 0..rng.range(60, 250) {
      let &(t, l) = rng.pick(&combos);
      events.push(Ev { id, thread: *rng.pick(&stragglers), target: t, level: l, tracing: rng.chance(1, 2), probe: false });
      id += 1;
    }
  }
  let mut pin_event = None;
  let mut pin_post = Vec::new();
  let mut pin_ms = 0;
  let chaos = if while_running && rng.chance(1, 2) {
    let &(t, l) = rng.pick(&combos);
    pin_event = Some(Ev { id, thread: 97, target: t, level: l, tracing: rng.chance(1, 2), probe: false });
    id += 1;
    for _ in 0..rng.range(1, 5) {
      let &(t, l) = if rng.chance(1, 2) { &(pin_event.as_ref().unwrap().target, pin_event.as_ref().unwrap().level) } else { rng.pick(&combos) };
      pin_post.push(Ev { id, thread: 98, target: t, level: l, tracing: rng.chance(1, 2), probe: false });
      id += 1;
    }
    pin_ms = *rng.pick(&[2u64, 20, 80, 120, 250]);
    "pin".to_string()
  } else if while_running {
    (*rng.pick(&["shutdown-race", "shutdown-race", "heavy", "light"])).to_string()
  } else {
    (*rng.pick(&["off", "light", "heavy"])).to_string()
  };
  Case {
    appenders,
    loggers,
    has_root,
    threads,
    probes,
    events,
    pre_init: rng.chance(1, 4),
    how: if rng.chance(1, 2) { "shutdown".into() } else { "drop".into() },
    while_running,
    wait_threads,
    chaos,
    seed: rng.next(),
    pin_event,
    pin_post,
    pin_ms,
    slow_sink: None,
  }
}

fn yaml_of(case: &Case, dir: &Path) -> String {
  let mut y = String::from("version: 1\nappenders:\n");
  for a in &case.appenders {
    y.push_str(&format!("  {}:\n", a.name));
    if a.kind == "custom" {
      y.push_str(&format!("    kind: custom\n    buffer_size: {}\n    overflow: block\n", a.capacity));
    } else {
      // a slow sink is a FIFO; the child copies what it reads from it into `<name>.out`
      let file = if case.slow_sink.as_deref() == Some(a.name.as_str()) { format!("{}.fifo", a.name) } else { format!("{}.out", a.name) };
      y.push_str(&format!("    kind: file\n    path: \"{}\"\n    channel_capacity: {}\n    overflow: block\n", dir.join(file).display(), a.capacity));
      match a.encoder.as_str() {
        "json" => y.push_str("    encoder:\n      kind: json_lines\n"),
        "json_flat" => y.push_str("    encoder:\n      kind: json_lines\n      flatten_fields: true\n"),
        _ => y.push_str("    encoder:\n      kind: pattern\n      pattern: \"%p|%t|%m%n\"\n"),
      }
    }
  }
  if case.loggers.is_empty() {
    y.push_str("loggers: {}\n");
    return y;
  }
  y.push_str("loggers:\n");
  for l in &case.loggers {
    y.push_str(&format!("  \"{}\":\n    level: {}\n    appenders: [{}]\n", l.name, LEVEL_NAMES[l.level as usize], l.appenders.join(", ")));
    if l.additive_explicit {
      y.push_str(&format!("    additive: {}\n", l.additive));
    }
  }
  y
}

fn ev_json(e: &Ev) -> Value {
  json!({"id": e.id, "thread": e.thread, "target": e.target, "level": e.level, "api": if e.tracing { "tracing" } else { "log" }})
}

fn case_json(case: &Case) -> Value {
  json!({
    "threads": case.threads, "probes": case.probes.iter().map(ev_json).collect::<Vec<_>>(),
    "events": case.events.iter().map(ev_json).collect::<Vec<_>>(), "pre_init": case.pre_init,
    "shutdown": {"how": case.how, "mode": if case.while_running { "while-running" } else { "after-join" }, "wait_threads": case.wait_threads},
    "chaos": case.chaos, "seed": case.seed, "slow_sink": case.slow_sink,
    "pin": {"event": case.pin_event.as_ref().map(ev_json), "post": case.pin_post.iter().map(ev_json).collect::<Vec<_>>(), "stall_ms": case.pin_ms},
    // change points are drawn from the first `horizon` synchronisation steps of a thread: about
    // a dozen steps per emitted event
    "chaos_horizon": (case.events.len() as u64 * 12 / case.threads.max(1)).max(200),
  })
}

fn config_json(case: &Case) -> Value {
  json!({
    "appenders": case.appenders.iter().map(|a| json!({"name": a.name, "kind": a.kind, "encoder": if a.kind == "file" { a.encoder.as_str() } else { "-" }, "capacity": a.capacity, "overflow": "block"})).collect::<Vec<_>>(),
    "loggers": case.loggers.iter().map(|l| json!({"name": l.name, "level": LEVEL_NAMES[l.level as usize], "appenders": l.appenders, "additive": l.additive})).collect::<Vec<_>>(),
    "root_configured": case.has_root,
  })
}

include!("../inc/log_parent.rs");
