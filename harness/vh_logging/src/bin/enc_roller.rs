//! enc_roller — runtime monitor for C20: log encoders are total and lossless (JSON-lines,
//! pattern) and the rolling file writer never loses, duplicates, reorders or tears a record,
//! never changes an existing rolled file and keeps at most the configured newest rolled files.
//!
//! `--only enc|roller` restricts the evaluation family.

use chrono::{DateTime, Duration as CDuration, TimeZone, Timelike, Utc};
use fibre_logging::config::processed::{CompressionPolicyInternal, JsonLinesEncoderInternal, RollingPolicyInternal};
use fibre_logging::encoders::json::JsonLinesFormatter;
use fibre_logging::encoders::pattern::PatternFormatter;
use fibre_logging::encoders::EventFormatter;
use fibre_logging::{LogEvent, LogValue, VerifCustomRoller};
use serde_json::{json, Value};
use std::collections::{BTreeMap, HashMap, HashSet};
use std::panic::{catch_unwind, AssertUnwindSafe};
use std::path::Path;
use tracing::Level;
use vh_core::cli::Args;
use vh_core::result::ShardResult;
use vh_core::rng::Rng;
use vh_core::Fnv;
use vh_logging::minijson::{self, J};
use vh_logging::strgen;

struct Finding {
  sig: String,
  summary: String,
  detail: Value,
}

fn finding(component: &str, rule: &str, variant: &str, summary: String, detail: Value) -> Finding {
  Finding { sig: format!("C20/{}/{}/{}", component, rule, variant), summary, detail }
}

fn is_harness_loc(loc: &str) -> bool {
  loc.contains("/vh_logging/") || loc.contains("/vh_core/")
}

fn guarded<R>(f: impl FnOnce() -> R) -> Result<R, (String, String)> {
  match catch_unwind(AssertUnwindSafe(f)) {
    Ok(r) => Ok(r),
    Err(p) => Err((vh_core::panic_message(&*p), vh_core::last_panic_location())),
  }
}

fn clip(s: &str, n: usize) -> String {
  let mut out: String = s.chars().take(n).collect();
  if s.chars().count() > n {
    out.push_str(&format!("…(+{} chars)", s.chars().count() - n));
  }
  out
}

// ==========================================================================================
// encoder inputs

/// top-level keys every JSON record carries
const ALWAYS_PRESENT: &[&str] = &["timestamp", "level", "target", "name"];
/// field names that a flattened record cannot put at the top level: they live under "fields"
const SHADOWED_NAMES: &[&str] = &["timestamp", "level", "target", "name", "fields"];
const RESERVED: &[&str] = &["timestamp", "level", "target", "message", "name", "span_id", "parent_id", "thread_id", "thread_name"];
const LEVELS: [(Level, &str); 5] = [(Level::ERROR, "ERROR"), (Level::WARN, "WARN"), (Level::INFO, "INFO"), (Level::DEBUG, "DEBUG"), (Level::TRACE, "TRACE")];

fn gen_value(rng: &mut Rng) -> LogValue {
  match rng.below(12) {
    0..=2 => LogValue::String(strgen::nasty(rng)),
    3 => LogValue::Debug(strgen::nasty(rng)),
    4 => LogValue::Int(*rng.pick(&[i64::MIN, i64::MAX, 0, -1, 1, i64::MIN + 1, 9007199254740993, -9007199254740993, 1 << 53])),
    5 => LogValue::Int(rng.next() as i64),
    6 => LogValue::Float(*rng.pick(&[f64::NAN, f64::INFINITY, f64::NEG_INFINITY])),
    7 => LogValue::Float(*rng.pick(&[0.0, -0.0, f64::MIN_POSITIVE, f64::MAX, f64::MIN, f64::EPSILON, 5e-324, 1e300, 0.1, 1.0 / 3.0, 1e21, 1e-7, 123456789.123456789])),
    8 => LogValue::Float(f64::from_bits(rng.next())),
    9 => LogValue::Float((rng.next() as i64 as f64) / (1u64 << rng.below(60)) as f64),
    _ => LogValue::Bool(rng.chance(1, 2)),
  }
}

fn gen_event(rng: &mut Rng, flatten: bool) -> (LogEvent, usize) {
  let (level, _) = LEVELS[rng.below(5) as usize];
  let target = if rng.chance(1, 2) { strgen::nasty(rng) } else { format!("app::{}", strgen::plain(rng, 1, 8)) };
  let name = if rng.chance(1, 3) { strgen::nasty(rng) } else { "event".to_string() };
  let message = if rng.chance(1, 12) { None } else { Some(strgen::nasty(rng)) };
  let mut ev = LogEvent::new(level, target, name, message);
  let nf = if rng.chance(1, 4) { 0 } else { rng.range(1, 6) };
  for _ in 0..nf {
    // now and then a field is named like one of the record's own top-level keys: in flattened mode it
    // must neither replace the core value nor disappear (it is kept under "fields")
    // (only keys every record carries: with the optional ones - message, span_id, ... - a flattened field of
    // that name in a record that lacks the core value is indistinguishable from the core value by design)
    let key = loop {
      let k = if rng.chance(1, 8) {
        rng.pick(SHADOWED_NAMES).to_string()
      } else if rng.chance(1, 2) {
        strgen::plain(rng, 1, 8)
      } else {
        strgen::nasty(rng)
      };
      if flatten && RESERVED.contains(&k.as_str()) && !ALWAYS_PRESENT.contains(&k.as_str()) {
        continue;
      }
      break k;
    };
    ev.fields.insert(key, gen_value(rng));
  }
  if rng.chance(1, 3) {
    ev.span_id = Some(strgen::nasty(rng));
  }
  if rng.chance(1, 4) {
    ev.parent_id = Some(strgen::nasty(rng));
  }
  if rng.chance(1, 3) {
    ev.thread_id = Some(format!("{}", rng.below(100)));
  }
  if rng.chance(1, 3) {
    ev.thread_name = Some(strgen::nasty(rng));
  }
  let longest = ev.message.as_ref().map(|m| m.len()).unwrap_or(0).max(ev.target.len());
  (ev, longest)
}

fn value_json(v: &LogValue) -> Value {
  match v {
    LogValue::String(s) => json!({"String": clip(s, 120)}),
    LogValue::Debug(s) => json!({"Debug": clip(s, 120)}),
    LogValue::Int(i) => json!({"Int": i.to_string()}),
    LogValue::Float(f) => json!({"Float": format!("{:?}", f), "bits": format!("{:#018x}", f.to_bits())}),
    LogValue::Bool(b) => json!({"Bool": b}),
  }
}

fn event_json(ev: &LogEvent) -> Value {
  json!({"level": ev.level.to_string(), "target": clip(&ev.target, 200), "name": clip(&ev.name, 80),
    "message": ev.message.as_ref().map(|m| clip(m, 300)),
    "fields": ev.fields.iter().map(|(k, v)| json!([clip(k, 80), value_json(v)])).collect::<Vec<_>>(),
    "span_id": ev.span_id.as_ref().map(|m| clip(m, 40)), "thread_name": ev.thread_name.as_ref().map(|m| clip(m, 40))})
}

// ==========================================================================================
// JSON-lines oracle

fn check_field(key: &str, want: &LogValue, got: Option<&J>, out: &mut Vec<Finding>, mode: &str) {
  let Some(got) = got else {
    out.push(finding("json", "field-lost", mode, format!("field {:?} is missing from the JSON record", clip(key, 60)), json!({"key": key})));
    return;
  };
  let ok = match (want, got) {
    (LogValue::String(s), J::Str(g)) | (LogValue::Debug(s), J::Str(g)) => s == g,
    (LogValue::Bool(b), J::Bool(g)) => b == g,
    (LogValue::Int(i), J::Num(raw)) => raw.parse::<i64>().map(|g| g == *i).unwrap_or(false),
    (LogValue::Float(f), J::Null) => !f.is_finite(),
    (LogValue::Float(f), J::Num(raw)) => f.is_finite() && raw.parse::<f64>().map(|g| g == *f).unwrap_or(false),
    _ => false,
  };
  if !ok {
    let variant = match want {
      LogValue::String(_) | LogValue::Debug(_) => "string",
      LogValue::Int(_) => "int",
      LogValue::Float(_) => "float",
      LogValue::Bool(_) => "bool",
    };
    out.push(finding("json", "field-not-round-tripped", &format!("{}-{}", mode, variant),
      format!("field {:?}: wrote {:?}, JSON holds {:?}", clip(key, 60), value_json(want), clip(&format!("{:?}", got), 200)), json!({"key": key})));
  }
}

fn check_json(ev: &LogEvent, flatten: bool, res: &mut ShardResult) -> Vec<Finding> {
  let mode = if flatten { "flattened" } else { "nested" };
  let mut out = Vec::new();
  let fmt = JsonLinesFormatter::new(JsonLinesEncoderInternal { flatten_fields: flatten });
  let bytes = match guarded(|| fmt.format_event(ev)) {
    Err((msg, loc)) => {
      if is_harness_loc(&loc) {
        res.inconclusive(&format!("harness panic in json check: {} @ {}", msg, loc));
      } else {
        out.push(finding("json", "panic", mode, format!("JSON encoder panicked at {}: {}", loc, msg), json!({"loc": loc})));
      }
      return out;
    }
    Ok(Err(e)) => {
      out.push(finding("json", "encode-error", mode, format!("JSON encoder returned an error: {}", e), json!({})));
      return out;
    }
    Ok(Ok(b)) => b,
  };
  res.count("json/records", 1);
  res.count("json/bytes", bytes.len() as u64);
  let Ok(text) = std::str::from_utf8(&bytes) else {
    out.push(finding("json", "invalid-utf8", mode, "JSON record is not valid UTF-8".into(), json!({})));
    return out;
  };
  if !text.ends_with('\n') || text[..text.len() - 1].contains('\n') {
    out.push(finding("json", "not-a-single-line", mode,
      format!("record has {} line feed(s), ends with LF: {}", text.matches('\n').count(), text.ends_with('\n')), json!({"record": clip(text, 400)})));
    return out;
  }
  let line = &text[..text.len() - 1];
  if line.contains('\r') {
    res.count("json/observations/raw_carriage_return_in_record", 1);
  }
  if line.contains('\u{2028}') || line.contains('\u{2029}') {
    res.count("json/observations/raw_u2028_u2029_in_record", 1);
  }
  if let Err(e) = serde_json::from_str::<Value>(line) {
    out.push(finding("json", "invalid-json", mode, format!("serde_json rejects the record: {}", e), json!({"record": clip(line, 400)})));
    return out;
  }
  let j = match minijson::parse(line) {
    Ok(j) => j,
    Err(e) => {
      // serde_json accepted it: the independent reader disagreeing is a harness problem.
      res.inconclusive(&format!("minijson rejects a record serde_json accepts: {}", e));
      return out;
    }
  };
  if !matches!(j, J::Obj(_)) {
    out.push(finding("json", "invalid-json", mode, "record is not a JSON object".into(), json!({})));
    return out;
  }
  let want_level = LEVELS.iter().find(|(l, _)| *l == ev.level).unwrap().1;
  if j.get("level").and_then(|x| x.as_str()) != Some(want_level) {
    out.push(finding("json", "level-not-round-tripped", mode, format!("level {} became {:?}", want_level, j.get("level")), json!({})));
  }
  if j.get("target").and_then(|x| x.as_str()) != Some(ev.target.as_str()) {
    out.push(finding("json", "target-not-round-tripped", mode, format!("target {:?} became {:?}", clip(&ev.target, 100), j.get("target").map(|x| clip(&format!("{:?}", x), 100))), json!({})));
  }
  match (&ev.message, j.get("message")) {
    (Some(m), Some(J::Str(g))) if m == g => {}
    (None, None) | (None, Some(J::Null)) => {}
    (m, g) => out.push(finding("json", "message-not-round-tripped", mode,
      format!("message {:?} became {:?}", m.as_ref().map(|m| clip(m, 100)), g.map(|x| clip(&format!("{:?}", x), 100))), json!({}))),
  }
  if flatten {
    for (k, v) in &ev.fields {
      if SHADOWED_NAMES.contains(&k.as_str()) {
        // shadowed by a core key (or named like the nested object itself): the core key keeps its value (checked above), the field lives under "fields"
        let nested = j.get("fields").and_then(|f| f.get(k));
        if nested.is_none() {
          out.push(finding("json", "field-lost", "flattened-name-collides-with-core-key",
            format!("field {:?} has the name of a top-level key of the record and appears nowhere in the flattened record", k), json!({})));
        } else {
          check_field(k, v, nested, &mut out, mode);
        }
      } else {
        check_field(k, v, j.get(k), &mut out, mode);
      }
    }
  } else {
    match j.get("fields") {
      None => {
        if !ev.fields.is_empty() {
          out.push(finding("json", "field-lost", mode, "the \"fields\" object is missing".into(), json!({})));
        }
      }
      Some(f @ J::Obj(members)) => {
        for (k, v) in &ev.fields {
          check_field(k, v, f.get(k), &mut out, mode);
        }
        if members.len() != ev.fields.len() {
          out.push(finding("json", "field-count", mode, format!("{} fields written, {} members in \"fields\"", ev.fields.len(), members.len()), json!({})));
        }
      }
      Some(other) => out.push(finding("json", "field-lost", mode, format!("\"fields\" is not an object: {:?}", clip(&format!("{:?}", other), 80)), json!({}))),
    }
  }
  out
}

// ==========================================================================================
// pattern oracle

const DATE_FORMATS: &[&str] = &[
  "%Y-%m-%d", "%H:%M:%S%.3f", "%+", "%s", "%A, %d %B %Y", "%e", "%Z", "%z", "%:z", "%%", "%c", "%D %T", "%j %U %W", "%Y-%m-%dT%H:%M:%S%.f", "%v", "%R",
  "%y%m%d", "%I:%M %p", "%.6f", "%.9f", "%3f", "%6f", "%9f", "%n%t", "plain text", "%G-%V-%u", "%C", "%h %P", "%x %X", "%r",
];
const BAD_DATE_FORMATS: &[&str] = &["%Q", "%", "%-", "%!", "%5", "%.3", "%.", "%:", "%Y-%", "%#z", "%::::z", "%E", "%O", "%.12f", "%_", "%0"];

struct Pat {
  text: String,
  /// sentinel pairs around each %m occurrence, with the padding of that occurrence
  msgs: Vec<(String, String, Option<i64>)>,
  extreme_padding: bool,
  bad_date: bool,
}

fn overflow_checks_on() -> bool {
  // `i32::abs(i32::MIN)` panics iff arithmetic overflow checks are compiled in.
  let v: i32 = std::hint::black_box(i32::MIN);
  catch_unwind(|| std::hint::black_box(v).abs()).is_err()
}

fn gen_literal(rng: &mut Rng) -> String {
  let mut s = String::new();
  for _ in 0..rng.below(4) {
    match rng.below(8) {
      0 => s.push_str("%%"),
      1 => s.push_str("% "),
      2 => s.push_str(*rng.pick(&["[", "] ", " - ", " | ", "{", "}", "{x}", "\t", "\u{e4}", "\u{1f600}", "100", "-5", "\\", "\"", "\n"])),
      _ => s.push_str(&strgen::plain(rng, 1, 5)),
    }
  }
  // A '{' directly after a directive letter would be read as that directive's option block.
  if s.starts_with('{') {
    s.insert(0, ' ');
  }
  s
}

fn gen_pattern(rng: &mut Rng, ev: &LogEvent, allow_extreme: bool) -> Pat {
  let mut p = Pat { text: String::new(), msgs: Vec::new(), extreme_padding: false, bad_date: false };
  let n = rng.range(1, 9);
  let mut tag = 0;
  for _ in 0..n {
    p.text.push_str(&gen_literal(rng));
    let padding: Option<i64> = match rng.below(10) {
      0..=4 => None,
      5..=7 => Some(rng.below(41) as i64 * if rng.chance(1, 2) { -1 } else { 1 }),
      8 => Some(*rng.pick(&[0i64, 100, -100, 999, -999, 5000, -5000, 2147483648, 99999999999])),
      _ => {
        if allow_extreme && rng.chance(1, 20) {
          p.extreme_padding = true;
          Some(i32::MIN as i64)
        } else {
          Some(rng.below(300) as i64)
        }
      }
    };
    let pad_txt = match padding {
      None => String::new(),
      Some(0) if rng.chance(1, 2) => "-0".to_string(),
      Some(v) => v.to_string(),
    };
    match rng.below(12) {
      0..=3 => {
        // message, wrapped in sentinels that occur nowhere else
        let (a, b) = loop {
          let a = format!("\u{ab}S{}:{:06x}\u{bb}", tag, rng.below(1 << 24));
          let b = format!("\u{ab}E{}:{:06x}\u{bb}", tag, rng.below(1 << 24));
          let hay = format!("{:?}{:?}{:?}{:?}", ev.message, ev.target, ev.thread_name, ev.fields);
          if !hay.contains(&a) && !hay.contains(&b) {
            break (a, b);
          }
        };
        tag += 1;
        p.text.push_str(&a);
        p.text.push_str(&format!("%{}m", pad_txt));
        p.text.push_str(&b);
        // i32 range only: out-of-range digit strings are ignored by the encoder (no padding)
        let eff = padding.filter(|v| *v >= i32::MIN as i64 && *v <= i32::MAX as i64);
        p.msgs.push((a, b, eff));
      }
      4 => {
        let bad = rng.chance(1, 6);
        let f = if bad { *rng.pick(BAD_DATE_FORMATS) } else { *rng.pick(DATE_FORMATS) };
        p.bad_date |= bad;
        if rng.chance(1, 3) {
          p.text.push_str(&format!("%{}d", pad_txt));
        } else {
          p.text.push_str(&format!("%{}d{{{}}}", pad_txt, f));
        }
      }
      5 => p.text.push_str(&format!("%{}{}", pad_txt, if rng.chance(1, 2) { "p" } else { "l" })),
      6 => p.text.push_str(&format!("%{}t", pad_txt)),
      7 => p.text.push_str(&format!("%{}T", pad_txt)),
      8 => p.text.push_str(&format!("%{}n", pad_txt)),
      9 => p.text.push_str(&format!("%{}X", pad_txt)),
      _ => {
        // %X{key}: an existing key (without '}' — the option syntax cannot express it) or a missing one
        let key = ev.fields.keys().find(|k| !k.contains('}') && !k.is_empty()).cloned().filter(|_| rng.chance(2, 3)).unwrap_or_else(|| "nokey".to_string());
        p.text.push_str(&format!("%{}X{{{}}}", pad_txt, key));
      }
    }
  }
  p.text.push_str(&gen_literal(rng));
  p
}

fn check_pattern(ev: &LogEvent, pat: &Pat, res: &mut ShardResult) -> Vec<Finding> {
  let mut out = Vec::new();
  let variant = if pat.extreme_padding { "padding-i32-min" } else if pat.bad_date { "invalid-date-format" } else { "regular" };
  let bytes = match guarded(|| PatternFormatter::new(&pat.text).format_event(ev)) {
    Err((msg, loc)) => {
      if is_harness_loc(&loc) {
        res.inconclusive(&format!("harness panic in pattern check: {} @ {}", msg, loc));
      } else {
        out.push(finding("pattern", "panic", variant, format!("pattern encoder panicked at {}: {} (pattern {:?})", loc, msg, clip(&pat.text, 200)), json!({"loc": loc})));
      }
      return out;
    }
    Ok(Err(e)) => {
      out.push(finding("pattern", "encode-error", variant, format!("pattern encoder returned an error: {}", e), json!({})));
      return out;
    }
    Ok(Ok(b)) => b,
  };
  res.count("pattern/records", 1);
  res.count("pattern/bytes", bytes.len() as u64);
  let Ok(text) = String::from_utf8(bytes) else {
    out.push(finding("pattern", "invalid-utf8", variant, "pattern output is not valid UTF-8".into(), json!({})));
    return out;
  };
  let msg = ev.message.clone().unwrap_or_default();
  let mut from = 0usize;
  for (a, b, padding) in &pat.msgs {
    res.count("pattern/message_directives_checked", 1);
    let Some(sa) = text[from..].find(a.as_str()).map(|i| i + from + a.len()) else {
      out.push(finding("pattern", "message-not-verbatim", "literal-lost", format!("literal before %m vanished (pattern {:?})", clip(&pat.text, 200)), json!({})));
      return out;
    };
    let Some(eb) = text[sa..].find(b.as_str()).map(|i| i + sa) else {
      out.push(finding("pattern", "message-not-verbatim", "literal-lost", format!("literal after %m vanished (pattern {:?})", clip(&pat.text, 200)), json!({})));
      return out;
    };
    let got = &text[sa..eb];
    from = eb + b.len();
    // verbatim, optionally surrounded by padding blanks on the side the padding sign selects
    let ok = match padding {
      None => got == msg,
      Some(p) if *p > 0 => got.ends_with(msg.as_str()) && got[..got.len() - msg.len()].chars().all(|c| c == ' '),
      Some(p) if *p < 0 => got.starts_with(msg.as_str()) && got[msg.len()..].chars().all(|c| c == ' '),
      Some(_) => got == msg,
    };
    if !ok {
      let v = if padding.is_some() { "padded" } else { "unpadded" };
      out.push(finding("pattern", "message-not-verbatim", v,
        format!("%m rendered {:?} for message {:?} (padding {:?}, pattern {:?})", clip(got, 200), clip(&msg, 200), padding, clip(&pat.text, 200)), json!({})));
    } else if padding.is_some() && got.len() != msg.len() {
      res.count("pattern/message_directives_actually_padded", 1);
    }
  }
  out
}

include!("../inc/roller.rs");

fn main() {
  let args = Args::parse();
  vh_core::install_quiet_panic_hook();
  let mut res = ShardResult::new(&args.prop, "enc_roller", args.seed, args.shard);
  res.rule = "two evaluation families, alternating. (enc) one generated event (level, target, name, optional message, 0-6 fields of \
    String/Debug/Int/Float/Bool, optional span/thread data; strings mix ASCII, quotes, backslashes, C0/C1 controls, CR/LF, U+2028/2029, BOM, \
    noncharacters, non-BMP, JSON/pattern look-alikes, empty and >=64 KiB) is encoded by the JSON-lines formatter in nested and flattened \
    mode and by two random patterns over %d %d{fmt} %p %l %t %m %T %n %X %X{key} %% with paddings; non-trivial = the event contains at least \
    one character that needs JSON escaping or is non-ASCII, or a non-finite float / i64 extreme. (roller) one random rolling policy (size \
    limit, time granularity, both, retention, compression) driven through 20-120 steps of write(record i) / clock step / restart / flush \
    on a temp directory with an audit of the whole directory after every step; non-trivial = at least two rolls happened and at least one \
    of: restart with existing rolled files, retention deletion, compression, a time-triggered roll. Distinct = hash of the event content \
    / of (policy, step sequence)."
    .into();
  let only = args.get("only").map(|s| s.to_string());
  let mut rng = Rng::new(args.shard_seed());
  let allow_extreme = overflow_checks_on() && args.get_u64("extreme-padding", 1) == 1;
  res.count(if allow_extreme { "config/overflow_checks_on" } else { "config/overflow_checks_off_or_extreme_padding_disabled" }, 1);
  let base_tmp = std::env::temp_dir().join(format!("vh-enc-roller-{}-{}-{}", std::process::id(), args.seed, args.shard));
  let _ = std::fs::create_dir_all(&base_tmp);
  let mut sig_counts: HashMap<String, u64> = HashMap::new();
  let mut iter = 0u64;
  let max_iter = args.get_u64("max-iter", u64::MAX);
  while args.time_left() && iter < max_iter {
    iter += 1;
    let fam = match only.as_deref() {
      Some("enc") => 0,
      Some("roller") => 1,
      _ => (iter % 2) as usize,
    };
    res.executions += 1;
    let mut findings: Vec<(Finding, Value)> = Vec::new();
    let r = catch_unwind(AssertUnwindSafe(|| {
      if fam == 0 {
        let flatten_first = rng.chance(1, 2);
        let (ev, longest) = gen_event(&mut rng, true);
        let mut f = Vec::new();
        for fl in [flatten_first, !flatten_first] {
          f.extend(check_json(&ev, fl, &mut res));
        }
        let mut pats = Vec::new();
        for _ in 0..2 {
          let p = gen_pattern(&mut rng, &ev, allow_extreme);
          f.extend(check_pattern(&ev, &p, &mut res));
          pats.push(p.text);
        }
        res.count("evaluations/enc", 1);
        if longest >= 65_536 {
          res.count("enc/events_with_64KiB_string", 1);
        }
        if ev.message.as_deref() == Some("") {
          res.count("enc/events_with_empty_message", 1);
        }
        if ev.message.is_none() {
          res.count("enc/events_without_message", 1);
        }
        let mut nontrivial = false;
        let all_strings = ev.message.iter().chain(std::iter::once(&ev.target)).chain(ev.fields.keys());
        for s in all_strings {
          if s.chars().any(|c| (c as u32) < 0x20 || c == '"' || c == '\\' || !c.is_ascii()) {
            nontrivial = true;
          }
        }
        for v in ev.fields.values() {
          match v {
            LogValue::Float(x) if !x.is_finite() => {
              nontrivial = true;
              res.count("enc/non_finite_floats", 1);
            }
            LogValue::Float(_) => res.count("enc/finite_floats", 1),
            LogValue::Int(i) if *i == i64::MIN || *i == i64::MAX => {
              nontrivial = true;
              res.count("enc/i64_extremes", 1);
            }
            LogValue::String(s) | LogValue::Debug(s) => {
              if s.chars().any(|c| (c as u32) < 0x20 || c == '"' || c == '\\' || !c.is_ascii()) {
                nontrivial = true;
              }
            }
            _ => {}
          }
        }
        if nontrivial {
          let mut h = Fnv::default();
          h.bytes(format!("{:?}{:?}{:?}{:?}", ev.message, ev.target, ev.fields, pats).as_bytes());
          res.add_nontrivial(h.finish());
          res.count("nontrivial/enc", 1);
        }
        if res.samples.iter().filter(|s| s["family"] == "enc").count() < 2 && nontrivial && longest < 300 {
          res.sample(json!({"family": "enc", "event": event_json(&ev), "patterns": pats}), 6);
        }
        let program = json!({"event": event_json(&ev), "patterns": pats, "iteration": iter});
        for x in f {
          findings.push((x, program.clone()));
        }
      } else {
        let dir = base_tmp.join(format!("case-{}", iter));
        let out = run_roller_case(&mut rng, &dir, &mut res);
        let _ = std::fs::remove_dir_all(&dir);
        for x in out {
          findings.push(x);
        }
      }
    }));
    if let Err(p) = r {
      let why = format!("HARNESS-PANIC at {}: {}", vh_core::last_panic_location(), vh_core::panic_message(&*p));
      res.notes.push(why.clone());
      res.count("harness_panics", 1);
      res.inconclusive(&why);
      continue;
    }
    for (f, program) in findings {
      let n = sig_counts.entry(f.sig.clone()).or_insert(0);
      *n += 1;
      res.count(&format!("findings_by_signature/{}", f.sig.replace('/', "|")), 1);
      if *n <= 3 {
        let witness = json!({"seed": args.seed, "shard": args.shard, "iteration": iter, "detail": f.detail, "program": program});
        res.violation(&f.sig, &f.summary, &args.replay_dir, &witness);
      }
    }
  }
  let _ = std::fs::remove_dir_all(&base_tmp);
  res.write(&args.out, args.elapsed_s());
}
