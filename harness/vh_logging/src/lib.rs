//! Shared pieces of the fibre_logging monitors: an independent strict JSON reader that keeps
//! number tokens as text, the "nasty string" generator, and a child-process runner.

pub mod minijson {
  //! Strict RFC 8259 reader. Numbers are kept as their raw text so that integers and floats can
  //! be compared exactly (serde_json's default float parser is not correctly rounded).

  #[derive(Debug, Clone, PartialEq)]
  pub enum J {
    Null,
    Bool(bool),
    Num(String),
    Str(String),
    Arr(Vec<J>),
    Obj(Vec<(String, J)>),
  }

  impl J {
    pub fn get(&self, k: &str) -> Option<&J> {
      match self {
        J::Obj(v) => v.iter().find(|(n, _)| n == k).map(|(_, x)| x),
        _ => None,
      }
    }
    pub fn as_str(&self) -> Option<&str> {
      match self {
        J::Str(s) => Some(s),
        _ => None,
      }
    }
  }

  struct P<'a> {
    b: &'a [u8],
    i: usize,
  }

  pub fn parse(s: &str) -> Result<J, String> {
    let mut p = P { b: s.as_bytes(), i: 0 };
    p.ws();
    let v = p.value(0)?;
    p.ws();
    if p.i != p.b.len() {
      return Err(format!("trailing bytes at {}", p.i));
    }
    Ok(v)
  }

  impl<'a> P<'a> {
    fn ws(&mut self) {
      while self.i < self.b.len() && matches!(self.b[self.i], b' ' | b'\t' | b'\n' | b'\r') {
        self.i += 1;
      }
    }
    fn eat(&mut self, lit: &[u8]) -> bool {
      if self.b[self.i..].starts_with(lit) {
        self.i += lit.len();
        true
      } else {
        false
      }
    }
    fn value(&mut self, depth: usize) -> Result<J, String> {
      if depth > 64 {
        return Err("too deep".into());
      }
      if self.i >= self.b.len() {
        return Err("eof".into());
      }
      match self.b[self.i] {
        b'n' => self.eat(b"null").then_some(J::Null).ok_or_else(|| "bad literal".to_string()),
        b't' => self.eat(b"true").then_some(J::Bool(true)).ok_or_else(|| "bad literal".to_string()),
        b'f' => self.eat(b"false").then_some(J::Bool(false)).ok_or_else(|| "bad literal".to_string()),
        b'"' => Ok(J::Str(self.string()?)),
        b'[' => {
          self.i += 1;
          let mut v = Vec::new();
          self.ws();
          if self.i < self.b.len() && self.b[self.i] == b']' {
            self.i += 1;
            return Ok(J::Arr(v));
          }
          loop {
            self.ws();
            v.push(self.value(depth + 1)?);
            self.ws();
            match self.b.get(self.i) {
              Some(b',') => self.i += 1,
              Some(b']') => {
                self.i += 1;
                return Ok(J::Arr(v));
              }
              _ => return Err(format!("expected , or ] at {}", self.i)),
            }
          }
        }
        b'{' => {
          self.i += 1;
          let mut v = Vec::new();
          self.ws();
          if self.i < self.b.len() && self.b[self.i] == b'}' {
            self.i += 1;
            return Ok(J::Obj(v));
          }
          loop {
            self.ws();
            if self.b.get(self.i) != Some(&b'"') {
              return Err(format!("expected key at {}", self.i));
            }
            let k = self.string()?;
            self.ws();
            if self.b.get(self.i) != Some(&b':') {
              return Err(format!("expected : at {}", self.i));
            }
            self.i += 1;
            self.ws();
            let x = self.value(depth + 1)?;
            v.push((k, x));
            self.ws();
            match self.b.get(self.i) {
              Some(b',') => self.i += 1,
              Some(b'}') => {
                self.i += 1;
                return Ok(J::Obj(v));
              }
              _ => return Err(format!("expected , or }} at {}", self.i)),
            }
          }
        }
        b'-' | b'0'..=b'9' => self.number(),
        c => Err(format!("unexpected byte {:#x} at {}", c, self.i)),
      }
    }
    fn number(&mut self) -> Result<J, String> {
      let st = self.i;
      if self.b[self.i] == b'-' {
        self.i += 1;
      }
      match self.b.get(self.i) {
        Some(b'0') => self.i += 1,
        Some(b'1'..=b'9') => {
          while matches!(self.b.get(self.i), Some(b'0'..=b'9')) {
            self.i += 1;
          }
        }
        _ => return Err(format!("bad number at {}", st)),
      }
      if self.b.get(self.i) == Some(&b'.') {
        self.i += 1;
        if !matches!(self.b.get(self.i), Some(b'0'..=b'9')) {
          return Err(format!("bad fraction at {}", st));
        }
        while matches!(self.b.get(self.i), Some(b'0'..=b'9')) {
          self.i += 1;
        }
      }
      if matches!(self.b.get(self.i), Some(b'e' | b'E')) {
        self.i += 1;
        if matches!(self.b.get(self.i), Some(b'+' | b'-')) {
          self.i += 1;
        }
        if !matches!(self.b.get(self.i), Some(b'0'..=b'9')) {
          return Err(format!("bad exponent at {}", st));
        }
        while matches!(self.b.get(self.i), Some(b'0'..=b'9')) {
          self.i += 1;
        }
      }
      Ok(J::Num(String::from_utf8(self.b[st..self.i].to_vec()).unwrap()))
    }
    fn hex4(&mut self) -> Result<u32, String> {
      if self.i + 4 > self.b.len() {
        return Err("short \\u".into());
      }
      let s = std::str::from_utf8(&self.b[self.i..self.i + 4]).map_err(|_| "bad \\u")?;
      let v = u32::from_str_radix(s, 16).map_err(|_| format!("bad \\u{}", s))?;
      self.i += 4;
      Ok(v)
    }
    fn string(&mut self) -> Result<String, String> {
      // precondition: at '"'
      self.i += 1;
      let mut out: Vec<u8> = Vec::new();
      loop {
        let Some(&c) = self.b.get(self.i) else { return Err("eof in string".into()) };
        match c {
          b'"' => {
            self.i += 1;
            return String::from_utf8(out).map_err(|_| "invalid utf-8 in string".to_string());
          }
          b'\\' => {
            self.i += 1;
            let Some(&e) = self.b.get(self.i) else { return Err("eof in escape".into()) };
            self.i += 1;
            match e {
              b'"' => out.push(b'"'),
              b'\\' => out.push(b'\\'),
              b'/' => out.push(b'/'),
              b'b' => out.push(8),
              b'f' => out.push(12),
              b'n' => out.push(b'\n'),
              b'r' => out.push(b'\r'),
              b't' => out.push(b'\t'),
              b'u' => {
                let mut cp = self.hex4()?;
                if (0xD800..0xDC00).contains(&cp) {
                  if !(self.b.get(self.i) == Some(&b'\\') && self.b.get(self.i + 1) == Some(&b'u')) {
                    return Err("lone high surrogate".into());
                  }
                  self.i += 2;
                  let lo = self.hex4()?;
                  if !(0xDC00..0xE000).contains(&lo) {
                    return Err("bad low surrogate".into());
                  }
                  cp = 0x10000 + ((cp - 0xD800) << 10) + (lo - 0xDC00);
                } else if (0xDC00..0xE000).contains(&cp) {
                  return Err("lone low surrogate".into());
                }
                let ch = char::from_u32(cp).ok_or("bad code point")?;
                let mut buf = [0u8; 4];
                out.extend_from_slice(ch.encode_utf8(&mut buf).as_bytes());
              }
              x => return Err(format!("bad escape \\{}", x as char)),
            }
          }
          0..=0x1f => return Err(format!("raw control byte {:#x} in string", c)),
          _ => {
            out.push(c);
            self.i += 1;
          }
        }
      }
    }
  }
}

pub mod strgen {
  use vh_core::rng::Rng;

  const SPECIAL: &[&str] = &[
    "\"", "'", "\\", "\\\\", "\\n", "\\u0000", "\n", "\r", "\r\n", "\t", "\0", "\u{1}", "\u{7}", "\u{8}", "\u{b}", "\u{c}", "\u{1b}", "\u{1f}",
    "\u{7f}", "\u{80}", "\u{85}", "\u{9f}", "\u{a0}", "\u{2028}", "\u{2029}", "\u{feff}", "\u{fffd}", "\u{fffe}", "\u{ffff}", "\u{d7ff}",
    "\u{e000}", "\u{10000}", "\u{1f600}", "\u{10ffff}", "e\u{301}", "\u{202e}", "\u{200b}", "\u{e4}\u{f6}\u{fc}", "\u{65e5}\u{672c}\u{8a9e}",
    "{", "}", "[", "]", ":", ",", "%", "%%", "%m", "%n", "%-5p", "{}", "\",\"x\":\"", "}\n{", "null", "NaN", "</script>", " ", "  ",
  ];

  /// A string mixing plain ASCII with quotes, backslashes, control characters, line and
  /// paragraph separators and non-BMP characters.
  pub fn nasty(rng: &mut Rng) -> String {
    match rng.below(40) {
      0 => return String::new(),
      1 => return long(rng),
      2 => return (*rng.pick(SPECIAL)).to_string(),
      _ => {}
    }
    let n = rng.range(1, 24);
    let mut s = String::new();
    for _ in 0..n {
      match rng.below(10) {
        0..=3 => {
          let k = rng.range(1, 6);
          for _ in 0..k {
            s.push((b' ' + rng.below(95) as u8) as char);
          }
        }
        4..=7 => s.push_str(*rng.pick(SPECIAL)),
        8 => {
          // arbitrary scalar value
          let cp = loop {
            let c = match rng.below(4) {
              0 => rng.below(0x80),
              1 => rng.below(0x800),
              2 => rng.below(0x10000),
              _ => rng.below(0x110000),
            } as u32;
            if let Some(ch) = char::from_u32(c) {
              break ch;
            }
          };
          s.push(cp);
        }
        _ => s.push((rng.below(0x20) as u8) as char),
      }
    }
    s
  }

  /// 64 KiB and more.
  pub fn long(rng: &mut Rng) -> String {
    let unit = nasty_short(rng);
    let mut s = String::with_capacity(70_000);
    while s.len() < 65_536 {
      s.push_str(&unit);
      s.push('x');
    }
    s
  }

  fn nasty_short(rng: &mut Rng) -> String {
    let mut s = String::new();
    for _ in 0..rng.range(1, 5) {
      s.push_str(*rng.pick(SPECIAL));
    }
    s
  }

  pub fn plain(rng: &mut Rng, lo: u64, hi: u64) -> String {
    let n = rng.range(lo, hi);
    (0..n).map(|_| (b'a' + rng.below(26) as u8) as char).collect()
  }
}

pub mod proc {
  use std::io::Read;
  use std::process::{Command, Stdio};
  use std::time::{Duration, Instant};

  #[derive(Debug)]
  pub enum Ending {
    Exited(i32),
    Signaled(i32),
    Timeout,
    SpawnFailed(String),
  }

  pub struct Outcome {
    pub ending: Ending,
    pub stdout: String,
    pub stderr: String,
    pub wall_ms: u64,
  }

  /// Runs the child with piped output; kills it after `watchdog` (=> `Timeout`, which callers
  /// must treat as inconclusive).
  pub fn run(mut cmd: Command, watchdog: Duration) -> Outcome {
    let t0 = Instant::now();
    cmd.stdin(Stdio::null()).stdout(Stdio::piped()).stderr(Stdio::piped());
    let mut child = match cmd.spawn() {
      Ok(c) => c,
      Err(e) => return Outcome { ending: Ending::SpawnFailed(e.to_string()), stdout: String::new(), stderr: String::new(), wall_ms: 0 },
    };
    let mut so = child.stdout.take().unwrap();
    let mut se = child.stderr.take().unwrap();
    let h1 = std::thread::spawn(move || {
      let mut b = Vec::new();
      let _ = so.read_to_end(&mut b);
      String::from_utf8_lossy(&b).into_owned()
    });
    let h2 = std::thread::spawn(move || {
      let mut b = Vec::new();
      let _ = se.read_to_end(&mut b);
      String::from_utf8_lossy(&b).into_owned()
    });
    let mut naps = 0u64;
    let ending = loop {
      match child.try_wait() {
        Ok(Some(st)) => {
          use std::os::unix::process::ExitStatusExt;
          break match (st.code(), st.signal()) {
            (Some(c), _) => Ending::Exited(c),
            (None, Some(s)) => Ending::Signaled(s),
            _ => Ending::Exited(-1),
          };
        }
        Ok(None) => {}
        Err(_) => {
          let _ = child.kill();
          let _ = child.wait();
          break Ending::Timeout;
        }
      }
      if t0.elapsed() >= watchdog {
        let _ = child.kill();
        let _ = child.wait();
        break Ending::Timeout;
      }
      naps += 1;
      std::thread::sleep(Duration::from_micros(if naps < 400 { 250 } else { 2000 }));
    };
    let stdout = h1.join().unwrap_or_default();
    let stderr = h2.join().unwrap_or_default();
    Outcome { ending, stdout, stderr, wall_ms: t0.elapsed().as_millis() as u64 }
  }
}
