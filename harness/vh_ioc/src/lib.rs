//! Helpers shared by the IoC monitor: running one case in a child process under a watchdog
//! and deciding, from /proc, whether a child that did not finish is *provably blocked*.

pub mod fam;
pub mod model;

pub mod proc {
  use std::io::Read;
  use std::process::{Command, Stdio};
  use std::time::{Duration, Instant};

  #[derive(Debug)]
  pub enum Ending {
    /// Exited by itself with this code.
    Exited(i32),
    /// Killed by a signal it raised itself (SIGSEGV = 11, SIGABRT = 6, ...).
    Signaled(i32),
    /// Watchdog expired; every thread of the child was asleep and made no progress at all
    /// (no CPU tick, no context switch) over the whole observation window.
    ProvablyBlocked { detail: String },
    /// Watchdog expired but the child was still doing something (or /proc was unreadable).
    TimeoutUnknown { detail: String },
    SpawnFailed(String),
  }

  #[derive(Debug)]
  pub struct Outcome {
    pub ending: Ending,
    pub stdout: String,
    pub stderr: String,
    pub wall_ms: u64,
  }

  #[derive(Clone, PartialEq, Debug)]
  struct TaskSnap {
    tid: u64,
    state: char,
    cpu_ticks: u64,
    ctx_switches: u64,
  }

  fn snapshot(pid: u32) -> Option<Vec<TaskSnap>> {
    let mut out = Vec::new();
    let dir = std::fs::read_dir(format!("/proc/{}/task", pid)).ok()?;
    for e in dir {
      let e = e.ok()?;
      let tid: u64 = e.file_name().to_str()?.parse().ok()?;
      let stat = std::fs::read_to_string(e.path().join("stat")).ok()?;
      // "pid (comm) S ppid ..." — comm may contain spaces/parens: split at the last ')'.
      let rest = &stat[stat.rfind(')')? + 1..];
      let f: Vec<&str> = rest.split_whitespace().collect();
      // f[0] = state, f[11] = utime, f[12] = stime (fields 3, 14, 15 of the full line)
      let state = f.first()?.chars().next()?;
      let utime: u64 = f.get(11)?.parse().ok()?;
      let stime: u64 = f.get(12)?.parse().ok()?;
      let status = std::fs::read_to_string(e.path().join("status")).ok()?;
      let mut ctx = 0u64;
      for l in status.lines() {
        if l.starts_with("voluntary_ctxt_switches") || l.starts_with("nonvoluntary_ctxt_switches") {
          ctx += l.split(':').nth(1)?.trim().parse::<u64>().ok()?;
        }
      }
      out.push(TaskSnap { tid, state, cpu_ticks: utime + stime, ctx_switches: ctx });
    }
    out.sort_by_key(|t| t.tid);
    Some(out)
  }

  /// Observes the child for `samples` x `gap`: blocked iff every sample is identical and every
  /// task is in an interruptible/uninterruptible sleep.
  fn provably_blocked(pid: u32, samples: usize, gap: Duration) -> (bool, String) {
    let first = match snapshot(pid) {
      Some(s) => s,
      None => return (false, "cannot read /proc".into()),
    };
    if first.is_empty() || first.iter().any(|t| t.state != 'S' && t.state != 'D') {
      return (false, format!("not all tasks asleep: {:?}", first));
    }
    for _ in 0..samples {
      std::thread::sleep(gap);
      match snapshot(pid) {
        Some(s) if s == first => {}
        Some(s) => return (false, format!("tasks progressed: {:?} -> {:?}", first, s)),
        None => return (false, "cannot read /proc".into()),
      }
    }
    (true, format!("{} task(s) asleep, no cpu tick and no context switch for {:?}: {:?}", first.len(), gap * samples as u32, first))
  }

  /// Runs `cmd` with piped output; kills it after `watchdog`.
  pub fn run(mut cmd: Command, watchdog: Duration) -> Outcome {
    let t0 = Instant::now();
    cmd.stdin(Stdio::null()).stdout(Stdio::piped()).stderr(Stdio::piped());
    let mut child = match cmd.spawn() {
      Ok(c) => c,
      Err(e) => {
        return Outcome { ending: Ending::SpawnFailed(e.to_string()), stdout: String::new(), stderr: String::new(), wall_ms: 0 }
      }
    };
    let mut so = child.stdout.take().unwrap();
    let mut se = child.stderr.take().unwrap();
    let h1 = std::thread::spawn(move || {
      let mut b = Vec::new();
      let _ = so.read_to_end(&mut b);
      String::from_utf8_lossy(&b).into_owned()
    });
    let h2 = std::thread::spawn(move || {
      let mut b = Vec::new();
      let _ = se.read_to_end(&mut b);
      String::from_utf8_lossy(&b).into_owned()
    });
    let ending;
    let mut naps = 0u64;
    loop {
      match child.try_wait() {
        Ok(Some(st)) => {
          use std::os::unix::process::ExitStatusExt;
          ending = match (st.code(), st.signal()) {
            (Some(c), _) => Ending::Exited(c),
            (None, Some(s)) => Ending::Signaled(s),
            _ => Ending::Exited(-1),
          };
          break;
        }
        Ok(None) => {}
        Err(e) => {
          ending = Ending::TimeoutUnknown { detail: format!("try_wait: {}", e) };
          let _ = child.kill();
          let _ = child.wait();
          break;
        }
      }
      if t0.elapsed() >= watchdog {
        let (blocked, detail) = provably_blocked(child.id(), 4, Duration::from_millis(300));
        // The child may have finished while we were looking.
        if let Ok(Some(st)) = child.try_wait() {
          use std::os::unix::process::ExitStatusExt;
          ending = match (st.code(), st.signal()) {
            (Some(c), _) => Ending::Exited(c),
            (None, Some(s)) => Ending::Signaled(s),
            _ => Ending::Exited(-1),
          };
          break;
        }
        ending = if blocked { Ending::ProvablyBlocked { detail } } else { Ending::TimeoutUnknown { detail } };
        let _ = child.kill();
        let _ = child.wait();
        break;
      }
      naps += 1;
      std::thread::sleep(Duration::from_micros(if naps < 200 { 500 } else { 5000 }));
    }
    let stdout = h1.join().unwrap_or_default();
    let stderr = h2.join().unwrap_or_default();
    Outcome { ending, stdout, stderr, wall_ms: t0.elapsed().as_millis() as u64 }
  }
}
