// ==========================================================================================
// chain: factories that resolve other services (included into ioc_check.rs)

#[derive(Clone, Debug)]
enum DepRef {
  Node(usize),
  /// A key nobody registered: the factory must see `None`.
  Missing { cont: usize, slot: u8, name: Option<String> },
}

#[derive(Clone, Debug)]
struct CNode {
  cont: usize,
  slot: u8,
  name: Option<String>,
  kind: Kind,
  impl_idx: u8,
  gen: u64,
  deps: Vec<DepRef>,
}

#[derive(Clone)]
enum WeakHandle {
  Global,
  Inst(Weak<Container>),
}

/// One resolution event of a node: who resolved it and what came back.
struct Event {
  /// serial of the parent instance whose factory made the resolution (0 = top level) + index
  site: (u64, usize, u64),
  node: Option<usize>,
  key: Key,
  cont: usize,
  got: Option<(Ident, usize)>,
  panicked: Option<String>,
  /// keys (cont, slot, name) being resolved on the path from the top-level call to this one
  path: Vec<(usize, Key)>,
}

fn walk(events: &mut Vec<Event>, nodes: &[CNode], parent_serial: u64, path: &[(usize, Key)], node: usize, deps: &[DepSum], seen_parents: &mut HashSet<u64>) {
  // Each parent instance's dependency list is one set of resolution events; the same parent
  // instance reached twice must not be counted twice.
  if !seen_parents.insert(parent_serial) {
    return;
  }
  for (i, d) in deps.iter().enumerate() {
    let dref = &nodes[node].deps[i];
    let (dn, cont) = match dref {
      DepRef::Node(j) => (Some(*j), nodes[*j].cont),
      DepRef::Missing { cont, .. } => (None, *cont),
    };
    let key: Key = (d.slot, d.name.clone());
    events.push(Event {
      site: (parent_serial, i, 0),
      node: dn,
      key: key.clone(),
      cont,
      got: d.got.as_ref().map(|g| (g.0, g.1)),
      panicked: d.panicked.clone(),
      path: path.to_vec(),
    });
    if let (Some(j), Some((id, _, sub))) = (dn, d.got.as_ref()) {
      let mut p = path.to_vec();
      p.push((cont, key));
      walk(events, nodes, id.serial, &p, j, sub, seen_parents);
    }
  }
}

fn eval_chain(ctx: &mut Ctx) {
  if ctx.rng.chance(1, 4) {
    return eval_chain_local(ctx);
  }
  let rng = &mut ctx.rng;
  let primary_global = rng.chance(1, 2);
  let two_conts = rng.chance(1, 3);
  let inst0 = Arc::new(Container::new());
  let inst1 = Arc::new(Container::new());
  // container 0 = primary, container 1 = secondary
  let handles: Vec<ContHandle> = if primary_global {
    vec![ContHandle::Global, ContHandle::Inst(inst1.clone())]
  } else {
    vec![ContHandle::Inst(inst0.clone()), if rng.chance(1, 2) { ContHandle::Global } else { ContHandle::Inst(inst1.clone()) }]
  };
  let weak: Vec<WeakHandle> = handles
    .iter()
    .map(|h| match h {
      ContHandle::Global => WeakHandle::Global,
      ContHandle::Inst(c) => WeakHandle::Inst(Arc::downgrade(c)),
    })
    .collect();
  let n = rng.range(2, 7) as usize;
  let mut nodes: Vec<CNode> = Vec::new();
  let mut used: HashSet<(usize, Key)> = HashSet::new();
  let same_key_across = two_conts && rng.chance(1, 2);
  for i in 0..n {
    let cont = if two_conts && i > 0 && rng.chance(1, 3) { 1 } else { 0 };
    let mut tries = 0;
    let (slot, name) = loop {
      let slot = rng.below(N_SLOTS as u64) as u8;
      // on the global container use a reserved name space ("c*"), never unnamed
      let name = if matches!(handles[cont], ContHandle::Global) || rng.chance(2, 3) { Some(format!("c{}", rng.below(4))) } else { None };
      // optionally reuse the key of an earlier node that lives in the OTHER container
      let (slot, name) = if same_key_across && cont == 1 && tries == 0 {
        match nodes.iter().find(|x| x.cont == 0 && x.name.is_some()) {
          Some(x) => (x.slot, x.name.clone()),
          None => (slot, name),
        }
      } else {
        (slot, name)
      };
      tries += 1;
      if used.insert((cont, (slot, name.clone()))) || tries > 50 {
        break (slot, name);
      }
    };
    let kind = *rng.pick(kinds_for(slot));
    nodes.push(CNode { cont, slot, name, kind, impl_idx: rng.below(N_CONC as u64) as u8, gen: next_gen(), deps: Vec::new() });
  }
  // edges i -> j only for j > i (acyclic); instances have no factory, hence no deps
  for i in 0..n {
    if nodes[i].kind == Kind::Instance {
      continue;
    }
    for j in i + 1..n {
      if rng.chance(2, 5) {
        nodes[i].deps.push(DepRef::Node(j));
      }
    }
    if rng.chance(1, 6) {
      let cont = if two_conts && rng.chance(1, 2) { 1 } else { 0 };
      nodes[i].deps.push(DepRef::Missing { cont, slot: rng.below(N_SLOTS as u64) as u8, name: Some("missing".into()) });
    }
    if nodes[i].deps.len() > 1 && rng.chance(1, 2) {
      let mut d = std::mem::take(&mut nodes[i].deps);
      rng.shuffle(&mut d);
      nodes[i].deps = d;
    }
  }
  let nthreads = if rng.chance(1, 2) { 1 } else { rng.range(2, 4) as usize };
  let per_thread = rng.range(1, 2) as usize;
  // roots: node 0 always, plus random others
  let mut roots = vec![0usize];
  for i in 1..n {
    if rng.chance(1, 4) {
      roots.push(i);
    }
  }
  let stall_us = if rng.chance(1, 2) { rng.range(10, 400) as u32 } else { 0 };

  // --- register (reverse order so that deps exist first; order is irrelevant for laziness)
  let counters: Vec<Arc<AtomicU64>> = (0..n).map(|_| Arc::new(AtomicU64::new(0))).collect();
  let mut reg_panic = None;
  for i in (0..n).rev() {
    let nd = nodes[i].clone();
    let deps: Vec<(WeakHandle, u8, Option<String>)> = nd
      .deps
      .iter()
      .map(|d| match d {
        DepRef::Node(j) => (weak[nodes[*j].cont].clone(), nodes[*j].slot, nodes[*j].name.clone()),
        DepRef::Missing { cont, slot, name } => (weak[*cont].clone(), *slot, name.clone()),
      })
      .collect();
    let calls = counters[i].clone();
    let body: FactoryBody = Arc::new(move || {
      calls.fetch_add(1, Ordering::SeqCst);
      if stall_us > 0 {
        std::thread::sleep(Duration::from_micros(stall_us as u64));
      }
      deps
        .iter()
        .map(|(h, slot, name)| {
          let strong;
          let c: &Container = match h {
            WeakHandle::Global => global(),
            WeakHandle::Inst(w) => {
              strong = w.upgrade().expect("container alive during evaluation");
              &strong
            }
          };
          match guarded(|| resolve(c, *slot, name.as_deref())) {
            Ok(got) => DepObs { slot: *slot, name: name.clone(), got, panicked: None },
            Err((msg, loc)) => DepObs { slot: *slot, name: name.clone(), got: None, panicked: Some(format!("{} @ {}", msg, loc)) },
          }
        })
        .collect()
    });
    if let Err(e) = guarded(|| register(handles[nd.cont].get(), nd.slot, nd.name.as_deref(), nd.kind, nd.impl_idx, nd.gen, body)) {
      reg_panic = Some(e);
      break;
    }
  }
  let program = json!({
    "containers": handles.iter().map(|h| h.name()).collect::<Vec<_>>(),
    "nodes": nodes.iter().enumerate().map(|(i, x)| json!({"i": i, "container": x.cont, "key": key_str(&(x.slot, x.name.clone())),
      "kind": format!("{:?}", x.kind), "deps": x.deps.iter().map(|d| match d { DepRef::Node(j) => json!(j),
        DepRef::Missing{cont, slot, name} => json!(format!("missing:{}:{}", cont, key_str(&(*slot, name.clone()))))}).collect::<Vec<_>>() })).collect::<Vec<_>>(),
    "roots": roots, "threads": nthreads, "resolutions_per_thread_and_root": per_thread, "factory_stall_us": stall_us});
  if let Some((msg, loc)) = reg_panic {
    ctx.report(finding("container", "unexpected-panic", "register", format!("register panicked at {}: {}", loc, msg), json!({"loc": loc})), program);
    ctx.flush_findings("chain");
    return;
  }

  // --- resolve the roots from the threads
  let barrier = Arc::new(Barrier::new(nthreads));
  let mut hs = Vec::new();
  for t in 0..nthreads {
    let b = barrier.clone();
    let hv: Vec<ContHandle> = handles.iter().map(|h| h.clone_h()).collect();
    let roots = roots.clone();
    let keys: Vec<(usize, u8, Option<String>)> = nodes.iter().map(|x| (x.cont, x.slot, x.name.clone())).collect();
    hs.push(std::thread::spawn(move || {
      let mut out = Vec::new();
      b.wait();
      for _ in 0..per_thread {
        for &r in &roots {
          let (cont, slot, name) = &keys[r];
          let got = guarded(|| resolve(hv[*cont].get(), *slot, name.as_deref()));
          out.push((t, r, got));
        }
      }
      out
    }));
  }
  let mut tops = Vec::new();
  for h in hs {
    tops.extend(h.join().expect("chain resolver (harness) panicked"));
  }

  // --- collect resolution events
  let mut events: Vec<Event> = Vec::new();
  let mut seen_parents: HashSet<u64> = HashSet::new();
  let mut findings = Vec::new();
  let mut top_seq = 0u64;
  for (t, r, got) in &tops {
    top_seq += 1;
    let key: Key = (nodes[*r].slot, nodes[*r].name.clone());
    match got {
      Err((msg, loc)) => {
        events.push(Event { site: (0, *t, top_seq), node: Some(*r), key, cont: nodes[*r].cont, got: None, panicked: Some(format!("{} @ {}", msg, loc)), path: vec![] });
      }
      Ok(o) => {
        events.push(Event { site: (0, *t, top_seq), node: Some(*r), key: key.clone(), cont: nodes[*r].cont, got: o.as_ref().map(|o| (o.ident, o.ptr)), panicked: None, path: vec![] });
        if let Some(o) = o {
          walk(&mut events, &nodes, o.ident.serial, &[(nodes[*r].cont, key)], *r, &o.deps, &mut seen_parents);
        }
      }
    }
  }
  // --- rules
  let mut per_node: Vec<Vec<(u64, usize)>> = vec![Vec::new(); n];
  let mut multi_path = false;
  for e in &events {
    let ks = key_str(&e.key);
    if let Some(p) = &e.panicked {
      let same_key_elsewhere = e.path.iter().any(|(c, k)| *c != e.cont && *k == e.key);
      let same_key_same_cont = e.path.iter().any(|(c, k)| *c == e.cont && *k == e.key);
      if p.contains("Circular dependency") && same_key_elsewhere && !same_key_same_cont {
        findings.push(finding("container", "false-cycle-panic", "same-key-in-another-container",
          format!("resolving {} in container {} from a factory of the same key in another container panicked although the dependency graph is acyclic: {}", ks, e.cont, p),
          json!({"key": ks, "path": e.path.iter().map(|(c, k)| format!("{}:{}", c, key_str(k))).collect::<Vec<_>>() })));
      } else {
        findings.push(finding("container", "unexpected-panic", "dependency-resolution",
          format!("resolving {} (acyclic graph) panicked: {}", ks, p), json!({"key": ks})));
      }
      continue;
    }
    match (e.node, &e.got) {
      (None, Some((id, _))) => findings.push(finding("container", "unregistered-key-resolved", "in-factory",
        format!("unregistered dependency {} resolved to an instance of generation {}", ks, id.gen), json!({"key": ks}))),
      (None, None) => {}
      (Some(_), None) => findings.push(finding("container", "registered-key-resolved-none", "in-factory",
        format!("registered dependency {} resolved to None", ks), json!({"key": ks}))),
      (Some(j), Some((id, ptr))) => {
        if id.gen != nodes[j].gen {
          findings.push(finding("container", "keys-alias", "in-factory",
            format!("{} resolved to an instance of generation {} (expected {})", ks, id.gen, nodes[j].gen), json!({"key": ks})));
        } else {
          per_node[j].push((id.serial, *ptr));
        }
      }
    }
  }
  for j in 0..n {
    let calls = counters[j].load(Ordering::SeqCst);
    let obs = &per_node[j];
    let ks = key_str(&(nodes[j].slot, nodes[j].name.clone()));
    if obs.len() >= 2 {
      multi_path = true;
    }
    match nodes[j].kind {
      Kind::Instance | Kind::Singleton => {
        let base = if nodes[j].kind == Kind::Instance { 1 } else { 0 };
        let want_max = 1;
        if calls > want_max {
          findings.push(finding("container", "singleton", "factory-called-more-than-once",
            format!("{} factory ran {} times in a dependency graph ({} resolution events)", ks, calls, obs.len()), json!({"key": ks})));
        }
        if !obs.is_empty() && calls == 0 && base == 0 {
          findings.push(finding("container", "singleton", "factory-not-called", format!("{} observed but factory never ran", ks), json!({})));
        }
        let d: HashSet<(u64, usize)> = obs.iter().cloned().collect();
        if d.len() > 1 {
          findings.push(finding("container", "singleton", "different-instance",
            format!("{} resolved to {} distinct instances inside one dependency graph", ks, d.len()), json!({"key": ks})));
        }
      }
      Kind::Transient => {
        let serials: HashSet<u64> = obs.iter().map(|x| x.0).collect();
        if serials.len() != obs.len() {
          findings.push(finding("container", "transient", "instance-not-fresh",
            format!("{}: {} resolution events returned {} distinct instances", ks, obs.len(), serials.len()), json!({"key": ks})));
        }
        // Every resolution event whose parent survived is visible; a parent whose factory
        // panicked elsewhere is not part of this acyclic workload, so counts must match.
        if calls != obs.len() as u64 && !events.iter().any(|e| e.panicked.is_some()) {
          findings.push(finding("container", "transient", "factory-call-count",
            format!("{}: factory ran {} times for {} resolution events", ks, calls, obs.len()), json!({"key": ks})));
        }
      }
    }
  }
  // --- evidence
  ctx.res.count(&format!("evaluations/chain/{}", if two_conts { "two-containers" } else { "one-container" }), 1);
  ctx.res.count("chain/resolution_events", events.len() as u64);
  ctx.res.count("chain/in_factory_resolutions", events.iter().filter(|e| e.site.0 != 0).count() as u64);
  ctx.res.count("chain/missing_dependency_seen_none", events.iter().filter(|e| e.node.is_none() && e.got.is_none() && e.panicked.is_none()).count() as u64);
  ctx.res.count("chain/factory_invocations", counters.iter().map(|c| c.load(Ordering::SeqCst)).sum());
  if same_key_across {
    ctx.res.count("chain/graphs_with_same_key_in_two_containers", 1);
  }
  if multi_path || nthreads > 1 {
    let mut h = Fnv::default();
    h.bytes(program.to_string().as_bytes());
    // generations differ per run; hash the shape only
    let mut h2 = Fnv::default();
    for x in &nodes {
      h2.bytes(format!("{}{}{:?}{:?}{:?}", x.cont, x.slot, x.name, x.kind, x.deps).as_bytes());
    }
    h2.u64(nthreads as u64);
    let _ = h;
    ctx.res.add_nontrivial(h2.finish());
    ctx.res.count("nontrivial/chain", 1);
  }
  if ctx.res.samples.iter().filter(|s| s["family"] == "chain").count() < 1 && multi_path {
    ctx.res.sample(json!({"family": "chain", "program": program, "events": events.len(),
      "factory_calls": counters.iter().map(|c| c.load(Ordering::SeqCst)).collect::<Vec<_>>()}), 8);
  }
  for f in findings {
    ctx.report(f, program.clone());
  }
  drop(tops);
  clear_keep();
  ctx.flush_findings("chain");
}

/// Dependency graphs inside a LocalContainer (single thread, `Rc<RefCell<LocalContainer>>` as in
/// the crate's own tests).
fn eval_chain_local(ctx: &mut Ctx) {
  let rng = &mut ctx.rng;
  let n = rng.range(2, 6) as usize;
  let cont: Rc<RefCell<LocalContainer>> = Rc::new(RefCell::new(LocalContainer::new()));
  let mut nodes: Vec<CNode> = Vec::new();
  let mut used: HashSet<Key> = HashSet::new();
  for _ in 0..n {
    let (slot, name) = loop {
      let slot = rng.below(N_SLOTS as u64) as u8;
      let name = if rng.chance(1, 2) { Some(NAMES[rng.below(NAMES.len() as u64) as usize].to_string()) } else { None };
      if used.insert((slot, name.clone())) {
        break (slot, name);
      }
    };
    let kind = *rng.pick(local_kinds_for(slot));
    nodes.push(CNode { cont: 0, slot, name, kind, impl_idx: rng.below(N_CONC as u64) as u8, gen: next_gen(), deps: Vec::new() });
  }
  for i in 0..n {
    for j in i + 1..n {
      if rng.chance(2, 5) {
        nodes[i].deps.push(DepRef::Node(j));
      }
    }
    if rng.chance(1, 6) {
      nodes[i].deps.push(DepRef::Missing { cont: 0, slot: rng.below(N_SLOTS as u64) as u8, name: Some("missing".into()) });
    }
  }
  let counters: Vec<Arc<AtomicU64>> = (0..n).map(|_| Arc::new(AtomicU64::new(0))).collect();
  for i in (0..n).rev() {
    let nd = nodes[i].clone();
    let deps: Vec<(u8, Option<String>)> = nd
      .deps
      .iter()
      .map(|d| match d {
        DepRef::Node(j) => (nodes[*j].slot, nodes[*j].name.clone()),
        DepRef::Missing { slot, name, .. } => (*slot, name.clone()),
      })
      .collect();
    let calls = counters[i].clone();
    let weak = Rc::downgrade(&cont);
    let body: LocalBody = Rc::new(move || {
      calls.fetch_add(1, Ordering::SeqCst);
      let c = weak.upgrade().expect("local container alive");
      let c = c.borrow();
      deps
        .iter()
        .map(|(slot, name)| match guarded(|| lresolve_as_dep(&c, *slot, name.as_deref())) {
          Ok(got) => DepObs { slot: *slot, name: name.clone(), got, panicked: None },
          Err((msg, loc)) => DepObs { slot: *slot, name: name.clone(), got: None, panicked: Some(format!("{} @ {}", msg, loc)) },
        })
        .collect()
    });
    lregister(&mut cont.borrow_mut(), nd.slot, nd.name.as_deref(), nd.kind, nd.impl_idx, nd.gen, body);
  }
  let program = json!({"containers": ["local"],
    "nodes": nodes.iter().enumerate().map(|(i, x)| json!({"i": i, "key": key_str(&(x.slot, x.name.clone())), "kind": format!("{:?}", x.kind),
      "deps": format!("{:?}", x.deps)})).collect::<Vec<_>>()});
  let reps = rng.range(1, 3);
  let mut events: Vec<Event> = Vec::new();
  let mut seen = HashSet::new();
  let mut findings = Vec::new();
  for rep in 0..reps {
    let key: Key = (nodes[0].slot, nodes[0].name.clone());
    let r = guarded(|| lresolve(&cont.borrow(), nodes[0].slot, nodes[0].name.as_deref()));
    match r {
      Err((msg, loc)) => findings.push(finding("local", "unexpected-panic", "get", format!("get panicked at {}: {}", loc, msg), json!({"loc": loc}))),
      Ok(o) => {
        events.push(Event { site: (0, 0, rep), node: Some(0), key: key.clone(), cont: 0, got: o.as_ref().map(|o| (o.ident, o.ptr)), panicked: None, path: vec![] });
        if let Some(o) = o {
          walk(&mut events, &nodes, o.ident.serial, &[(0, key)], 0, &o.deps, &mut seen);
          LOCAL_KEEP.with(|k| k.borrow_mut().push(o.keep));
        }
      }
    }
  }
  let mut per_node: Vec<Vec<(u64, usize)>> = vec![Vec::new(); n];
  for e in &events {
    let ks = key_str(&e.key);
    if let Some(p) = &e.panicked {
      findings.push(finding("local", "unexpected-panic", "dependency-resolution", format!("resolving {} (acyclic graph) panicked: {}", ks, p), json!({"key": ks})));
      continue;
    }
    match (e.node, &e.got) {
      (None, Some((id, _))) => findings.push(finding("local", "unregistered-key-resolved", "in-factory",
        format!("unregistered dependency {} resolved to generation {}", ks, id.gen), json!({"key": ks}))),
      (None, None) => {}
      (Some(_), None) => findings.push(finding("local", "registered-key-resolved-none", "in-factory", format!("registered dependency {} resolved to None", ks), json!({"key": ks}))),
      (Some(j), Some((id, ptr))) => {
        if id.gen != nodes[j].gen {
          findings.push(finding("local", "keys-alias", "in-factory", format!("{} resolved to generation {} (expected {})", ks, id.gen, nodes[j].gen), json!({"key": ks})));
        } else {
          per_node[j].push((id.serial, *ptr));
        }
      }
    }
  }
  let mut multi = false;
  for j in 0..n {
    let calls = counters[j].load(Ordering::SeqCst);
    let obs = &per_node[j];
    let ks = key_str(&(nodes[j].slot, nodes[j].name.clone()));
    if obs.len() >= 2 {
      multi = true;
    }
    if nodes[j].kind == Kind::Singleton {
      if calls > 1 {
        findings.push(finding("local", "singleton", "factory-called-more-than-once", format!("{} factory ran {} times", ks, calls), json!({"key": ks})));
      }
      let d: HashSet<(u64, usize)> = obs.iter().cloned().collect();
      if d.len() > 1 {
        findings.push(finding("local", "singleton", "different-instance", format!("{} resolved to {} distinct instances", ks, d.len()), json!({"key": ks})));
      }
    } else {
      let serials: HashSet<u64> = obs.iter().map(|x| x.0).collect();
      if serials.len() != obs.len() {
        findings.push(finding("local", "transient", "instance-not-fresh", format!("{}: {} events, {} instances", ks, obs.len(), serials.len()), json!({"key": ks})));
      }
      if calls != obs.len() as u64 && !events.iter().any(|e| e.panicked.is_some()) {
        findings.push(finding("local", "transient", "factory-call-count", format!("{}: factory ran {} times for {} events", ks, calls, obs.len()), json!({"key": ks})));
      }
    }
  }
  ctx.res.count("evaluations/chain/local", 1);
  ctx.res.count("chain/resolution_events", events.len() as u64);
  if multi {
    let mut h = Fnv::default();
    for x in &nodes {
      h.bytes(format!("L{}{:?}{:?}{:?}", x.slot, x.name, x.kind, x.deps).as_bytes());
    }
    ctx.res.add_nontrivial(h.finish());
    ctx.res.count("nontrivial/chain", 1);
  }
  for f in findings {
    ctx.report(f, program.clone());
  }
  // break the Rc cycle-free graph explicitly (factories hold only Weak)
  drop(cont);
  clear_keep();
  ctx.flush_findings("chain");
}
