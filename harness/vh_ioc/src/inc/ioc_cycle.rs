// ==========================================================================================
// cycle: a dependency cycle must be reported by a panic (included into ioc_check.rs).
// The case runs in a child process: `<exe> --child cycle --spec <json>`.

#[derive(Clone, Debug)]
struct CycleSpec {
  /// "global" | "instance" | "local"
  cont: String,
  /// acyclic lead-in nodes before the cycle
  lead: usize,
  /// number of nodes on the cycle (1 = a service resolving itself)
  len: usize,
  /// per node: slot, named?, transient?
  nodes: Vec<(u8, bool, bool)>,
  /// "same-thread" | "cross-thread" (two threads enter the cycle at different nodes at once)
  mode: String,
  /// index (within the cycle part) where the second thread enters
  second_entry: usize,
}

impl CycleSpec {
  fn to_json(&self) -> Value {
    json!({"cont": self.cont, "lead": self.lead, "len": self.len, "mode": self.mode, "second_entry": self.second_entry,
      "nodes": self.nodes.iter().map(|(s, n, t)| json!([s, n, t])).collect::<Vec<_>>()})
  }
  fn from_json(v: &Value) -> CycleSpec {
    CycleSpec {
      cont: v["cont"].as_str().unwrap().to_string(),
      lead: v["lead"].as_u64().unwrap() as usize,
      len: v["len"].as_u64().unwrap() as usize,
      mode: v["mode"].as_str().unwrap().to_string(),
      second_entry: v["second_entry"].as_u64().unwrap() as usize,
      nodes: v["nodes"].as_array().unwrap().iter().map(|x| (x[0].as_u64().unwrap() as u8, x[1].as_bool().unwrap(), x[2].as_bool().unwrap())).collect(),
    }
  }
  fn key(&self, i: usize) -> (u8, Option<String>) {
    let (slot, named, _) = self.nodes[i];
    (slot, if named { Some(format!("n{}", i)) } else { None })
  }
  /// successor of node i: lead nodes chain into the cycle, the last cycle node points back to
  /// the first cycle node.
  fn succ(&self, i: usize) -> usize {
    let total = self.lead + self.len;
    if i + 1 < total {
      i + 1
    } else {
      self.lead
    }
  }
}

fn gen_cycle(rng: &mut Rng) -> CycleSpec {
  let cont = ["global", "instance", "local"][rng.weighted(&[2, 2, 1])].to_string();
  let len = match rng.below(10) {
    0..=1 => 1,
    2..=5 => 2,
    6..=7 => 3,
    8 => rng.range(4, 8) as usize,
    _ => rng.range(20, 60) as usize,
  };
  let lead = if rng.chance(1, 2) { 0 } else { rng.range(1, 3) as usize };
  let total = lead + len;
  // keys must be pairwise distinct: unnamed keys only once per slot, named keys carry the index
  let mut used_unnamed: HashSet<u8> = HashSet::new();
  let mut nodes = Vec::new();
  for _ in 0..total {
    let slot = rng.below(N_SLOTS as u64) as u8;
    let mut named = rng.chance(2, 3) || cont == "global";
    if !named && !used_unnamed.insert(slot) {
      named = true;
    }
    let transient = slot < N_CONC && rng.chance(1, 3);
    nodes.push((slot, named, transient));
  }
  let cross = cont != "local" && len >= 2 && rng.chance(1, 10);
  if cross {
    // the cross-thread shape needs both entry nodes to be singletons (transients do not block)
    for n in nodes.iter_mut() {
      n.2 = false;
    }
  }
  let second_entry = if cross { rng.range(1, len as u64 - 1) as usize } else { 0 };
  CycleSpec { cont, lead, len, nodes, mode: if cross { "cross-thread".into() } else { "same-thread".into() }, second_entry }
}

fn eval_cycle(ctx: &mut Ctx) {
  let mut spec = gen_cycle(&mut ctx.rng);
  let comp = if spec.cont == "local" { "local" } else { "container" };
  // one hang costs a whole watchdog period: once a hang signature has been seen twice in this
  // shard, stop generating that shape (it is already reported).
  if spec.mode == "cross-thread"
    && (ctx.sig_counts.get(&format!("C18/{}/cycle-hang/cross-thread", comp)).copied().unwrap_or(0) >= 1 || ctx.args.get_u64("cross-thread", 1) == 0)
  {
    spec.mode = "same-thread".into();
  }
  let mode = spec.mode.clone();
  let exe = std::env::current_exe().expect("current_exe");
  let mut cmd = std::process::Command::new(exe);
  cmd.arg("--child").arg("cycle").arg("--spec").arg(spec.to_json().to_string());
  let watchdog = Duration::from_millis(ctx.args.get_u64("cycle-watchdog-ms", 3000));
  let out = proc::run(cmd, watchdog);
  let program = json!({"spec": spec.to_json(), "child_stdout": out.stdout.chars().take(2000).collect::<String>(),
    "child_stderr": out.stderr.chars().take(2000).collect::<String>(), "ending": format!("{:?}", out.ending), "wall_ms": out.wall_ms});
  ctx.res.count(&format!("evaluations/cycle/{}/{}", spec.cont, mode), 1);
  ctx.res.count(&format!("cycle/length/{}", if spec.len >= 20 { "20+".to_string() } else { spec.len.to_string() }), 1);
  let result_line = out.stdout.lines().find(|l| l.starts_with("RESULT ")).map(|l| l[7..].to_string());
  let entered = out.stdout.lines().any(|l| l.starts_with("ENTERED"));
  let mut nontrivial = entered;
  match &out.ending {
    proc::Ending::Exited(0) => match result_line.and_then(|l| serde_json::from_str::<Value>(&l).ok()) {
      None => ctx.res.inconclusive("cycle child exited 0 without a RESULT line"),
      Some(v) => {
        let threads = v["threads"].as_array().cloned().unwrap_or_default();
        let mut circular = 0;
        let mut returned = 0;
        let mut other_panic: Option<String> = None;
        for t in &threads {
          match t["outcome"].as_str().unwrap_or("") {
            "panic" => {
              let msg = t["message"].as_str().unwrap_or("");
              let loc = t["location"].as_str().unwrap_or("");
              if msg.contains("Circular dependency") {
                circular += 1;
              } else if is_lib_loc(loc) {
                other_panic = Some(format!("{} @ {}", msg, loc));
              } else {
                ctx.res.inconclusive(&format!("cycle child: harness panic {} @ {}", msg, loc));
                nontrivial = false;
              }
            }
            _ => returned += 1,
          }
        }
        match v["aftermath"]["outcome"].as_str() {
          Some("returned") if v["aftermath"]["latest"].as_bool() == Some(true) => ctx.res.count("cycle/aftermath/reregistered_key_resolved_on_the_same_thread", 1),
          Some("returned") => ctx.report(
            finding(comp, "stale-registration-after-caught-panic", &mode, format!("after the cycle panic was caught, the entry key was re-registered, but resolving it gave the old registration: {}", v["aftermath"]), json!({})),
            program.clone(),
          ),
          Some("none") => ctx.report(
            finding(comp, "registered-key-resolves-to-none", "after-caught-panic", "after the cycle panic was caught, the re-registered entry key resolved to None".into(), json!({})),
            program.clone(),
          ),
          Some("panic") => {
            let loc = v["aftermath"]["location"].as_str().unwrap_or("");
            if is_lib_loc(loc) {
              ctx.report(
                finding(comp, "reregistered-key-unresolvable", "after-caught-panic", format!("after the cycle panic was caught, the entry key was re-registered with a dependency-free factory; resolving it on the same thread panicked: {} @ {}", v["aftermath"]["message"], loc), json!({})),
                program.clone(),
              );
            } else {
              ctx.res.inconclusive(&format!("cycle aftermath: harness panic {}", v["aftermath"]));
            }
          }
          _ => {}
        }
        ctx.res.count("cycle/outcomes/panic_circular_dependency", circular);
        ctx.res.count("cycle/outcomes/returned_normally", returned);
        if let Some(p) = other_panic {
          ctx.report(finding(comp, "cycle-unexpected-panic", &mode, format!("a dependency cycle produced a panic that does not report the cycle: {}", p), json!({})), program.clone());
        } else if circular == 0 && !threads.is_empty() && nontrivial {
          ctx.report(finding(comp, "cycle-not-reported", &mode, "resolving a service on a dependency cycle returned normally on every thread (no panic)".into(), json!({})), program.clone());
        }
      }
    },
    proc::Ending::Exited(code) => {
      ctx.res.inconclusive(&format!("cycle child exited with code {} (harness problem): {}", code, out.stderr.chars().take(300).collect::<String>()));
      nontrivial = false;
    }
    proc::Ending::Signaled(sig) => {
      ctx.res.count(&format!("cycle/outcomes/killed_by_signal_{}", sig), 1);
      let overflow = out.stderr.contains("overflowed its stack");
      ctx.report(finding(comp, if overflow { "cycle-stack-overflow" } else { "cycle-abort" }, &mode,
        format!("the child resolving a dependency cycle died with signal {}{} instead of panicking", sig, if overflow { " (stack overflow)" } else { "" }), json!({"signal": sig})), program.clone());
    }
    proc::Ending::ProvablyBlocked { detail } => {
      ctx.res.count("cycle/outcomes/provably_blocked", 1);
      ctx.report(finding(comp, "cycle-hang", &mode,
        format!("the child resolving a dependency cycle never finished and is provably blocked ({})", detail), json!({"proof": detail})), program.clone());
    }
    proc::Ending::TimeoutUnknown { detail } => {
      ctx.res.inconclusive(&format!("cycle child hit the watchdog but is not provably blocked: {}", detail));
      nontrivial = false;
    }
    proc::Ending::SpawnFailed(e) => {
      ctx.res.inconclusive(&format!("cycle child could not be spawned: {}", e));
      nontrivial = false;
    }
  }
  if nontrivial {
    let mut h = Fnv::default();
    h.bytes(spec.to_json().to_string().as_bytes());
    ctx.res.add_nontrivial(h.finish());
    ctx.res.count("nontrivial/cycle", 1);
  }
  if ctx.res.samples.iter().filter(|s| s["family"] == "cycle").count() < 1 {
    ctx.res.sample(json!({"family": "cycle", "program": program}), 8);
  }
  ctx.flush_findings("cycle");
}

// ------------------------------------------------------------------------------------------
// child side

/// Outcome of "re-register the entry key with a leaf factory and resolve it again" on the thread that caught the panic.
fn describe_aftermath(r: Result<Option<u64>, (String, String)>, g2: u64) -> Value {
  match r {
    Ok(Some(g)) => json!({"outcome": "returned", "latest": g == g2, "gen": g, "expected_gen": g2}),
    Ok(None) => json!({"outcome": "none"}),
    Err((m, l)) => json!({"outcome": "panic", "message": m, "location": l}),
  }
}

fn child_main(args: &Args) {
  let spec = CycleSpec::from_json(&serde_json::from_str(args.get("spec").expect("--spec")).expect("spec json"));
  let total = spec.lead + spec.len;
  let entries: Vec<usize> = if spec.mode == "cross-thread" { vec![spec.lead, spec.lead + spec.second_entry] } else { vec![0] };
  let entered: Arc<Vec<AtomicBool>> = Arc::new((0..total).map(|_| AtomicBool::new(false)).collect());
  let first = Arc::new(AtomicBool::new(false));
  let rendezvous: Arc<Vec<usize>> = Arc::new(if spec.mode == "cross-thread" { entries.clone() } else { vec![] });
  let mark = {
    let (entered, first, rendezvous) = (entered.clone(), first.clone(), rendezvous.clone());
    move |i: usize| {
      if !first.swap(true, Ordering::SeqCst) {
        println!("ENTERED");
      }
      entered[i].store(true, Ordering::SeqCst);
      // cross-thread: an entry node's factory waits (bounded) until the other entry node's
      // factory runs too, so that both threads are inside the cycle at the same time
      if rendezvous.contains(&i) {
        let t0 = std::time::Instant::now();
        while !rendezvous.iter().all(|&j| entered[j].load(Ordering::SeqCst)) && t0.elapsed() < Duration::from_millis(300) {
          std::thread::sleep(Duration::from_millis(1));
        }
      }
    }
  };
  let mut outcomes: Vec<Value> = Vec::new();
  let mut aftermath: Option<Value> = None;
  let describe = |r: Result<bool, (String, String)>| match r {
    Ok(some) => json!({"outcome": "returned", "some": some}),
    Err((m, l)) => json!({"outcome": "panic", "message": m, "location": l}),
  };
  if spec.cont == "local" {
    let cont: Rc<RefCell<LocalContainer>> = Rc::new(RefCell::new(LocalContainer::new()));
    for i in 0..total {
      let (slot, name) = spec.key(i);
      let (dslot, dname) = spec.key(spec.succ(i));
      let weak = Rc::downgrade(&cont);
      let mark = mark.clone();
      let body: LocalBody = Rc::new(move || {
        mark(i);
        let c = weak.upgrade().unwrap();
        let c = c.borrow();
        // deliberately NOT caught: the panic must propagate like in user code
        let got = lresolve_as_dep(&c, dslot, dname.as_deref());
        vec![DepObs { slot: dslot, name: dname.clone(), got, panicked: None }]
      });
      let kind = if spec.nodes[i].2 { Kind::Transient } else { Kind::Singleton };
      lregister(&mut cont.borrow_mut(), slot, name.as_deref(), kind, 0, next_gen(), body);
    }
    let (slot, name) = spec.key(0);
    let r = guarded(|| lresolve(&cont.borrow(), slot, name.as_deref()).is_some());
    let panicked = r.is_err();
    outcomes.push(describe(r));
    if panicked {
      // aftermath, same thread: the caught panic must not leave the key unusable - the latest registration wins
      let g2 = next_gen();
      let kind = if spec.nodes[0].2 { Kind::Transient } else { Kind::Singleton };
      let leaf: LocalBody = Rc::new(Vec::new);
      let r2 = guarded(|| {
        lregister(&mut cont.borrow_mut(), slot, name.as_deref(), kind, 0, g2, leaf);
        lresolve(&cont.borrow(), slot, name.as_deref()).map(|o| o.ident.gen)
      });
      aftermath = Some(describe_aftermath(r2, g2));
    }
  } else {
    let inst = Arc::new(Container::new());
    let handle = if spec.cont == "global" { ContHandle::Global } else { ContHandle::Inst(inst.clone()) };
    for i in 0..total {
      let (slot, name) = spec.key(i);
      let (dslot, dname) = spec.key(spec.succ(i));
      let weak = match &handle {
        ContHandle::Global => WeakHandle::Global,
        ContHandle::Inst(c) => WeakHandle::Inst(Arc::downgrade(c)),
      };
      let mark = mark.clone();
      let body: FactoryBody = Arc::new(move || {
        mark(i);
        let strong;
        let c: &Container = match &weak {
          WeakHandle::Global => global(),
          WeakHandle::Inst(w) => {
            strong = w.upgrade().unwrap();
            &strong
          }
        };
        let got = resolve(c, dslot, dname.as_deref());
        vec![DepObs { slot: dslot, name: dname.clone(), got, panicked: None }]
      });
      let kind = if spec.nodes[i].2 { Kind::Transient } else { Kind::Singleton };
      register(handle.get(), slot, name.as_deref(), kind, 0, next_gen(), body);
    }
    let barrier = Arc::new(Barrier::new(entries.len()));
    let mut hs = Vec::new();
    for &e in &entries {
      let (slot, name) = spec.key(e);
      let (h, b) = (handle.clone_h(), barrier.clone());
      // generous stack: a *detected* cycle of 60 nodes needs 60 nested factory frames
      let single = entries.len() == 1;
      let kind0 = if spec.nodes[e].2 { Kind::Transient } else { Kind::Singleton };
      hs.push(std::thread::Builder::new().stack_size(8 << 20).spawn(move || {
        b.wait();
        let r = guarded(|| resolve(h.get(), slot, name.as_deref()).is_some());
        let mut after = None;
        if single && r.is_err() {
          // aftermath, same thread (see the local branch)
          let g2 = next_gen();
          let leaf: FactoryBody = Arc::new(Vec::new);
          let r2 = guarded(|| {
            register(h.get(), slot, name.as_deref(), kind0, 0, g2, leaf);
            resolve(h.get(), slot, name.as_deref()).map(|o| o.ident.gen)
          });
          after = Some(describe_aftermath(r2, g2));
        }
        (r, after)
      }).unwrap());
    }
    for h in hs {
      match h.join() {
        Ok((r, after)) => {
          outcomes.push(describe(r));
          if after.is_some() {
            aftermath = after;
          }
        }
        Err(_) => outcomes.push(json!({"outcome": "panic", "message": "thread died outside catch_unwind", "location": "vh_ioc"})),
      }
    }
  }
  println!("RESULT {}", json!({"threads": outcomes, "aftermath": aftermath}));
  // Leaked Arc cycles (factories <-> instances) are irrelevant: the process ends here.
  std::process::exit(0);
}
