// ==========================================================================================
// race: concurrent first resolution of one key (included into ioc_check.rs)

#[derive(Clone, Copy, Debug, PartialEq)]
enum RaceVariant {
  Singleton,
  Transient,
  Rereg,
}

#[derive(Clone, Copy, Debug)]
enum Stall {
  None,
  Spin(u32),
  Yield(u32),
  SleepUs(u32),
}

impl Stall {
  fn run(&self) {
    match *self {
      Stall::None => {}
      Stall::Spin(k) => {
        for _ in 0..k {
          std::hint::spin_loop();
        }
      }
      Stall::Yield(k) => {
        for _ in 0..k {
          std::thread::yield_now();
        }
      }
      Stall::SleepUs(us) => std::thread::sleep(Duration::from_micros(us as u64)),
    }
  }
}

struct RaceReg {
  gen: u64,
  calls: Arc<AtomicU64>,
  /// (factory entry stamp, factory exit stamp) per invocation
  spans: Arc<Mutex<Vec<(u64, u64)>>>,
  reg_call: u64,
  reg_ret: u64,
}

fn race_body(calls: &Arc<AtomicU64>, spans: &Arc<Mutex<Vec<(u64, u64)>>>, stall: Stall) -> FactoryBody {
  let (c, s) = (calls.clone(), spans.clone());
  Arc::new(move || {
    let t0 = stamp();
    c.fetch_add(1, Ordering::SeqCst);
    stall.run();
    let t1 = stamp();
    s.lock().unwrap().push((t0, t1));
    Vec::new()
  })
}

struct Res1 {
  thread: usize,
  call: u64,
  ret: u64,
  got: Result<Option<(Ident, usize)>, (String, String)>,
}

enum ContHandle {
  Inst(Arc<Container>),
  Global,
}
impl ContHandle {
  fn get(&self) -> &Container {
    match self {
      ContHandle::Inst(c) => c,
      ContHandle::Global => global(),
    }
  }
  fn clone_h(&self) -> ContHandle {
    match self {
      ContHandle::Inst(c) => ContHandle::Inst(c.clone()),
      ContHandle::Global => ContHandle::Global,
    }
  }
  fn name(&self) -> &'static str {
    match self {
      ContHandle::Inst(_) => "instance",
      ContHandle::Global => "global",
    }
  }
}

fn eval_race(ctx: &mut Ctx) {
  let rng = &mut ctx.rng;
  let cont = if rng.chance(1, 2) { ContHandle::Inst(Arc::new(Container::new())) } else { ContHandle::Global };
  let variant = match rng.below(10) {
    0..=5 => RaceVariant::Singleton,
    6..=7 => RaceVariant::Transient,
    _ => RaceVariant::Rereg,
  };
  let slot = if variant == RaceVariant::Transient { rng.below(N_CONC as u64) as u8 } else { rng.below(N_SLOTS as u64) as u8 };
  let name: Option<String> = match (&cont, rng.below(3)) {
    (ContHandle::Inst(_), 0) => None,
    (_, k) => Some(format!("race{}", k)),
  };
  let impl_idx = rng.below(N_CONC as u64) as u8;
  let nthreads = rng.range(2, 12) as usize;
  let per_thread = rng.range(1, 3) as usize;
  let stall = match rng.below(6) {
    0 => Stall::None,
    1 => Stall::Spin(rng.range(10, 20_000) as u32),
    2 => Stall::Yield(rng.range(1, 50) as u32),
    _ => Stall::SleepUs(rng.range(20, 1500) as u32),
  };
  let nworkers = if rng.chance(1, 2) { rng.range(1, 3) as usize } else { 0 };
  let rereg_count = if variant == RaceVariant::Rereg { rng.range(1, 4) as usize } else { 0 };
  let kind = if variant == RaceVariant::Transient { Kind::Transient } else { Kind::Singleton };
  let worker_ops: Vec<Vec<HOp>> = (0..nworkers)
    .map(|w| {
      // worker w owns the names "w<w>" and "w<w>x" — disjoint from the raced key and from the others
      let mut ops = gen_history(rng, false);
      for op in ops.iter_mut() {
        let k = match op {
          HOp::Reg { key, .. } => key,
          HOp::Get { key } => key,
        };
        k.1 = Some(match &k.1 {
          None => format!("w{}", w),
          Some(_) => format!("w{}x", w),
        });
      }
      ops
    })
    .collect();
  let seed = rng.next();

  // --- registration of the raced key
  let regs: Arc<Mutex<Vec<RaceReg>>> = Arc::new(Mutex::new(Vec::new()));
  let do_register = |regs: &Arc<Mutex<Vec<RaceReg>>>| -> Result<(), (String, String)> {
    let gen = next_gen();
    let calls = Arc::new(AtomicU64::new(0));
    let spans = Arc::new(Mutex::new(Vec::new()));
    let body = race_body(&calls, &spans, stall);
    let reg_call = stamp();
    let r = guarded(|| register(cont.get(), slot, name.as_deref(), kind, impl_idx, gen, body));
    let reg_ret = stamp();
    regs.lock().unwrap().push(RaceReg { gen, calls, spans, reg_call, reg_ret });
    r
  };
  let program = json!({"container": cont.name(), "variant": format!("{:?}", variant), "key": key_str(&(slot, name.clone())),
    "threads": nthreads, "resolutions_per_thread": per_thread, "factory_stall": format!("{:?}", stall),
    "concurrent_workers_on_other_keys": nworkers, "re_registrations": rereg_count});
  if let Err((msg, loc)) = do_register(&regs) {
    ctx.report(finding("container", "unexpected-panic", "register", format!("register panicked at {}: {}", loc, msg), json!({"loc": loc})), program.clone());
    ctx.flush_findings("race");
    return;
  }

  // --- threads
  let barrier = Arc::new(Barrier::new(nthreads + nworkers + if rereg_count > 0 { 1 } else { 0 }));
  let mut handles = Vec::new();
  for t in 0..nthreads {
    let (b, ch, name) = (barrier.clone(), cont.clone_h(), name.clone());
    let mut trng = Rng::derive(seed, t as u64, 1);
    handles.push(std::thread::spawn(move || {
      let mut out = Vec::new();
      let mut keep = Vec::new();
      b.wait();
      if trng.chance(1, 3) {
        Stall::Spin(trng.range(1, 3000) as u32).run();
      }
      for _ in 0..per_thread {
        let call = stamp();
        let r = guarded(|| resolve(ch.get(), slot, name.as_deref()));
        let ret = stamp();
        let got = match r {
          Ok(o) => Ok(o.map(|o| {
            let p = (o.ident, o.ptr);
            keep.push(o.keep);
            p
          })),
          Err(e) => Err(e),
        };
        out.push(Res1 { thread: t, call, ret, got });
      }
      (out, keep)
    }));
  }
  // workers on other keys
  let mut whandles = Vec::new();
  let is_global = matches!(cont, ContHandle::Global);
  for (w, ops) in worker_ops.iter().enumerate() {
    let (b, ch, ops) = (barrier.clone(), cont.clone_h(), ops.clone());
    // On the global container a worker's keys persist across evaluations: continue from the
    // persistent model restricted to this worker's names.
    let mut model = Model::default();
    if is_global {
      let mine = [Some(format!("w{}", w)), Some(format!("w{}x", w))];
      let keys: Vec<Key> = ctx.global_model.regs.keys().filter(|k| mine.contains(&k.1)).cloned().collect();
      for k in keys {
        let r = ctx.global_model.regs.remove(&k).unwrap();
        model.gen_key.insert(r.gen, k.clone());
        model.regs.insert(k, r);
      }
    }
    whandles.push(std::thread::spawn(move || {
      let mut counts = BTreeMap::new();
      b.wait();
      let (f, _) = run_history_on(ch.get(), &mut model, &ops, &mut counts);
      let keep = KEEP.with(|k| std::mem::take(&mut *k.borrow_mut()));
      (f, counts, model, keep)
    }));
  }
  // re-registrar (same thread as the initial registration: registrations are totally ordered)
  let mut rereg_panic = None;
  if rereg_count > 0 {
    barrier.wait();
    for _ in 0..rereg_count {
      Stall::Spin(ctx.rng.range(1, 20_000) as u32).run();
      if let Err(e) = do_register(&regs) {
        rereg_panic = Some(e);
        break;
      }
    }
  }
  let mut results: Vec<Res1> = Vec::new();
  let mut keeps = Vec::new();
  for h in handles {
    let (r, k) = h.join().expect("resolver thread (harness) panicked");
    results.extend(r);
    keeps.push(k);
  }
  let mut worker_findings = Vec::new();
  let mut wkeeps = Vec::new();
  for (w, h) in whandles.into_iter().enumerate() {
    let (f, counts, model, keep) = h.join().expect("worker thread (harness) panicked");
    for (k, v) in counts {
      ctx.res.count(&format!("concurrent_workers/{}", k), v);
    }
    if is_global {
      for (k, r) in model.regs {
        ctx.global_model.gen_key.insert(r.gen, k.clone());
        ctx.global_model.regs.insert(k, r);
      }
    }
    for x in f {
      worker_findings.push((w, x));
    }
    wkeeps.push(keep);
  }

  // --- checks
  let regs = regs.lock().unwrap();
  let gen_idx: HashMap<u64, usize> = regs.iter().enumerate().map(|(i, r)| (r.gen, i)).collect();
  let mut findings: Vec<Finding> = Vec::new();
  if let Some((msg, loc)) = rereg_panic {
    findings.push(finding("container", "unexpected-panic", "register", format!("re-registration panicked at {}: {}", loc, msg), json!({"loc": loc})));
  }
  let mut per_gen: HashMap<u64, Vec<(u64, usize)>> = HashMap::new();
  let mut some_count = 0u64;
  for r in &results {
    match &r.got {
      Err((msg, loc)) => findings.push(finding("container", "unexpected-panic", "get-concurrent",
        format!("thread {} get panicked at {}: {}", r.thread, loc, msg), json!({"loc": loc}))),
      Ok(None) => findings.push(finding("container", "registered-key-resolved-none", "get-concurrent",
        format!("thread {}: key registered before the threads started resolved to None", r.thread), json!({}))),
      Ok(Some((id, ptr))) => {
        some_count += 1;
        match gen_idx.get(&id.gen) {
          None => findings.push(finding("container", "keys-alias", "concurrent",
            format!("thread {} resolved an instance of foreign generation {}", r.thread, id.gen), json!({"gen": id.gen}))),
          Some(&gi) => {
            // latest registration completed before the call / first registration begun after the return
            let lo = regs.iter().rposition(|x| x.reg_ret < r.call).unwrap_or(0);
            let hi = regs.iter().rposition(|x| x.reg_call < r.ret).unwrap_or(0);
            if gi < lo {
              findings.push(finding("container", "latest-registration-not-resolved", "stale-registration",
                format!("thread {} resolved registration #{} although registration #{} had completed before the call", r.thread, gi, lo), json!({})));
            } else if gi > hi {
              findings.push(finding("container", "latest-registration-not-resolved", "future-registration",
                format!("thread {} resolved registration #{} which had not begun when get returned", r.thread, gi), json!({})));
            }
            per_gen.entry(id.gen).or_default().push((id.serial, *ptr));
          }
        }
      }
    }
  }
  let mut contenders = 0u64;
  for rg in regs.iter() {
    let calls = rg.calls.load(Ordering::SeqCst);
    let obs = per_gen.get(&rg.gen).cloned().unwrap_or_default();
    if kind == Kind::Singleton {
      if calls > 1 {
        findings.push(finding("container", "singleton", "factory-called-more-than-once",
          format!("singleton factory of registration gen {} ran {} times under {} concurrent resolvers", rg.gen, calls, nthreads), json!({"calls": calls})));
      }
      if !obs.is_empty() && calls == 0 {
        findings.push(finding("container", "singleton", "factory-not-called", "instances observed but the factory never ran".into(), json!({})));
      }
      let distinct: HashSet<(u64, usize)> = obs.iter().cloned().collect();
      if distinct.len() > 1 {
        findings.push(finding("container", "singleton", "different-instance",
          format!("{} distinct instances observed for one singleton registration: {:?}", distinct.len(), distinct), json!({})));
      }
    } else {
      let serials: HashSet<u64> = obs.iter().map(|x| x.0).collect();
      let ptrs: HashSet<usize> = obs.iter().map(|x| x.1).collect();
      if serials.len() != obs.len() || ptrs.len() != obs.len() {
        findings.push(finding("container", "transient", "instance-not-fresh",
          format!("{} transient resolutions returned only {} distinct instances", obs.len(), serials.len().min(ptrs.len())), json!({})));
      }
      if calls != obs.len() as u64 {
        findings.push(finding("container", "transient", "factory-call-count",
          format!("transient factory ran {} times for {} successful resolutions", calls, obs.len()), json!({})));
      }
    }
    // contention measure: resolutions overlapping a running factory of this registration
    let spans = rg.spans.lock().unwrap();
    for r in &results {
      if spans.iter().any(|(a, b)| r.call < *b && r.ret > *a) {
        contenders += 1;
      }
    }
  }
  for (_, f) in &worker_findings {
    findings.push(f.clone());
  }
  // --- evidence
  ctx.res.count(&format!("evaluations/race/{:?}/{}", variant, cont.name()), 1);
  ctx.res.count("race/resolutions", results.len() as u64);
  ctx.res.count("race/resolutions_some", some_count);
  ctx.res.count("race/resolutions_overlapping_running_factory", contenders);
  ctx.res.count("race/factory_invocations", regs.iter().map(|r| r.calls.load(Ordering::SeqCst)).sum());
  ctx.res.count("race/registrations_of_raced_key", regs.len() as u64);
  ctx.res.count(&format!("race/threads/{}", nthreads), 1);
  if nworkers > 0 {
    ctx.res.count("race/executions_with_concurrent_registrars_on_other_keys", 1);
  }
  if contenders >= 2 {
    let mut order: Vec<(u64, usize)> = results.iter().map(|r| (r.call, r.thread)).collect();
    order.sort();
    let mut h = Fnv::default();
    h.bytes(format!("{:?}{}{}{}{}", variant, cont.name(), slot, nthreads, nworkers).as_bytes());
    h.u64(contenders);
    for (_, t) in order {
      h.u64(t as u64);
    }
    ctx.res.add_nontrivial(h.finish());
    ctx.res.count("nontrivial/race", 1);
  }
  if ctx.res.samples.iter().filter(|s| s["family"] == "race").count() < 1 && contenders >= 2 {
    ctx.res.sample(json!({"family": "race", "program": program, "contending_resolutions": contenders,
      "factory_calls_per_registration": regs.iter().map(|r| r.calls.load(Ordering::SeqCst)).collect::<Vec<_>>(),
      "observed": results.iter().take(8).map(|r| format!("t{} call={} ret={} {:?}", r.thread, r.call, r.ret,
          r.got.as_ref().map(|o| o.map(|(i, p)| format!("gen{} serial{} {:#x}", i.gen, i.serial, p))))).collect::<Vec<_>>()}), 8);
  }
  let mut program = program;
  program["worker_histories"] = Value::Array(worker_ops.iter().map(|o| hop_json(o)).collect());
  program["rng_seed_for_threads"] = json!(seed);
  for f in findings {
    ctx.report(f, program.clone());
  }
  drop(keeps);
  drop(wkeeps);
  clear_keep();
  ctx.flush_findings("race");
}
