//! The fixed family of service keys the generated programs range over:
//! 6 concrete types `Svc<0..6>` and 3 trait-object types `dyn Tr0..Tr2`, each with or without a
//! name. Every produced instance carries the *generation* of the registration that built it and a
//! globally unique serial taken at factory time, so an observed instance identifies its
//! registration and its factory invocation.

use fibre_ioc::{Container, LocalContainer};
use std::any::Any;
use std::rc::Rc;
use std::sync::atomic::{AtomicU64, Ordering};
use std::sync::Arc;

pub const N_CONC: u8 = 6;
pub const N_TRAIT: u8 = 3;
pub const N_SLOTS: u8 = N_CONC + N_TRAIT;

pub static SERIAL: AtomicU64 = AtomicU64::new(1);
pub static GEN: AtomicU64 = AtomicU64::new(1);

pub fn next_gen() -> u64 {
  GEN.fetch_add(1, Ordering::Relaxed)
}

#[derive(Clone, Copy, Debug, PartialEq, Eq)]
pub struct Ident {
  pub gen: u64,
  pub serial: u64,
  pub impl_idx: u8,
}

pub struct Svc<const N: usize> {
  pub gen: u64,
  pub serial: u64,
  /// Results of the dependency resolutions done by the factory (kept alive here).
  pub deps: Vec<DepObs>,
}

pub struct DepObs {
  pub slot: u8,
  pub name: Option<String>,
  pub got: Option<Obs>,
  pub panicked: Option<String>,
}

impl<const N: usize> Svc<N> {
  pub fn make(gen: u64, deps: Vec<DepObs>) -> Self {
    Svc { gen, serial: SERIAL.fetch_add(1, Ordering::Relaxed), deps }
  }
}

pub trait Probe: 'static {
  fn ident(&self) -> Ident;
  fn deps(&self) -> &[DepObs];
}
impl<const N: usize> Probe for Svc<N> {
  fn ident(&self) -> Ident {
    Ident { gen: self.gen, serial: self.serial, impl_idx: N as u8 }
  }
  fn deps(&self) -> &[DepObs] {
    &self.deps
  }
}

pub trait Tr0: Probe + Send + Sync {}
pub trait Tr1: Probe + Send + Sync {}
pub trait Tr2: Probe + Send + Sync {}
impl<const N: usize> Tr0 for Svc<N> {}
impl<const N: usize> Tr1 for Svc<N> {}
impl<const N: usize> Tr2 for Svc<N> {}

// Local (non-Send) flavours use the same structs; `deps` holds Send data only in the
// thread-safe runs and is empty/boxed-local in the local runs (see LocalDeps below).

/// A key type of the family (sized or trait object).
pub trait KeyTy: Any + Send + Sync {
  fn ident_of(&self) -> Ident;
  fn deps_of(&self) -> &[DepObs];
}
impl<const N: usize> KeyTy for Svc<N> {
  fn ident_of(&self) -> Ident {
    self.ident()
  }
  fn deps_of(&self) -> &[DepObs] {
    self.deps()
  }
}
macro_rules! dyn_key {
  ($t:ident) => {
    impl KeyTy for dyn $t {
      fn ident_of(&self) -> Ident {
        self.ident()
      }
      fn deps_of(&self) -> &[DepObs] {
        self.deps()
      }
    }
  };
}
dyn_key!(Tr0);
dyn_key!(Tr1);
dyn_key!(Tr2);

/// One observed resolution result.
pub struct Obs {
  pub ident: Ident,
  /// Address of the shared allocation (identity of the instance).
  pub ptr: usize,
  /// What the factory of this instance saw when it resolved its own dependencies.
  pub deps: Vec<DepSum>,
  /// Keeps the instance alive so addresses are never reused while we compare them.
  pub keep: Box<dyn Any + Send + Sync>,
}

/// Summary of one dependency resolution made inside a factory.
#[derive(Clone, Debug)]
pub struct DepSum {
  pub slot: u8,
  pub name: Option<String>,
  pub got: Option<(Ident, usize, Vec<DepSum>)>,
  pub panicked: Option<String>,
}

pub fn summarise(deps: &[DepObs]) -> Vec<DepSum> {
  deps
    .iter()
    .map(|d| DepSum {
      slot: d.slot,
      name: d.name.clone(),
      got: d.got.as_ref().map(|o| (o.ident, o.ptr, o.deps.clone())),
      panicked: d.panicked.clone(),
    })
    .collect()
}

impl std::fmt::Debug for Obs {
  fn fmt(&self, f: &mut std::fmt::Formatter<'_>) -> std::fmt::Result {
    write!(f, "Obs{{gen:{},serial:{},impl:{},ptr:{:#x}}}", self.ident.gen, self.ident.serial, self.ident.impl_idx, self.ptr)
  }
}

pub fn obs_of<K: ?Sized + KeyTy>(a: Arc<K>) -> Obs {
  Obs { ident: a.ident_of(), ptr: Arc::as_ptr(&a) as *const () as usize, deps: summarise(a.deps_of()), keep: Box::new(a) }
}

#[derive(Clone, Copy, Debug, PartialEq, Eq, Hash)]
pub enum Kind {
  Instance,
  Singleton,
  Transient,
}

pub fn slot_name(slot: u8) -> String {
  if slot < N_CONC {
    format!("Svc<{}>", slot)
  } else {
    format!("dyn Tr{}", slot - N_CONC)
  }
}

/// What a factory does besides building the value.
pub type FactoryBody = Arc<dyn Fn() -> Vec<DepObs> + Send + Sync>;

macro_rules! conc_match {
  ($idx:expr, $n:ident => $body:expr) => {
    match $idx {
      0 => { const $n: usize = 0; $body }
      1 => { const $n: usize = 1; $body }
      2 => { const $n: usize = 2; $body }
      3 => { const $n: usize = 3; $body }
      4 => { const $n: usize = 4; $body }
      5 => { const $n: usize = 5; $body }
      _ => unreachable!("concrete index"),
    }
  };
}

fn build_dyn0(impl_idx: u8, gen: u64, deps: Vec<DepObs>) -> Arc<dyn Tr0> {
  conc_match!(impl_idx, N => Arc::new(Svc::<N>::make(gen, deps)))
}
fn build_dyn1(impl_idx: u8, gen: u64, deps: Vec<DepObs>) -> Arc<dyn Tr1> {
  conc_match!(impl_idx, N => Arc::new(Svc::<N>::make(gen, deps)))
}
fn build_dyn2(impl_idx: u8, gen: u64, deps: Vec<DepObs>) -> Arc<dyn Tr2> {
  conc_match!(impl_idx, N => Arc::new(Svc::<N>::make(gen, deps)))
}

fn reg_conc<const N: usize>(c: &Container, kind: Kind, name: Option<&str>, gen: u64, body: FactoryBody) {
  match (kind, name) {
    (Kind::Instance, None) => c.add_instance(Svc::<N>::make(gen, body())),
    (Kind::Instance, Some(n)) => c.add_instance_with_name(n, Svc::<N>::make(gen, body())),
    (Kind::Singleton, None) => c.add_singleton(move || Svc::<N>::make(gen, body())),
    (Kind::Singleton, Some(n)) => c.add_singleton_with_name(n, move || Svc::<N>::make(gen, body())),
    (Kind::Transient, None) => c.add_transient(move || Svc::<N>::make(gen, body())),
    (Kind::Transient, Some(n)) => c.add_transient_with_name(n, move || Svc::<N>::make(gen, body())),
  }
}

/// Kinds the thread-safe container supports for a slot.
pub fn kinds_for(slot: u8) -> &'static [Kind] {
  if slot < N_CONC {
    &[Kind::Instance, Kind::Singleton, Kind::Transient]
  } else {
    &[Kind::Singleton]
  }
}
/// Kinds the local container supports for a slot.
pub fn local_kinds_for(slot: u8) -> &'static [Kind] {
  if slot < N_CONC {
    &[Kind::Singleton, Kind::Transient]
  } else {
    &[Kind::Singleton]
  }
}

/// Registers `(slot, name)` in a thread-safe container. Trait slots are built from the concrete
/// implementer `impl_idx`.
pub fn register(c: &Container, slot: u8, name: Option<&str>, kind: Kind, impl_idx: u8, gen: u64, body: FactoryBody) {
  if slot < N_CONC {
    conc_match!(slot, N => reg_conc::<N>(c, kind, name, gen, body))
  } else {
    assert!(kind == Kind::Singleton);
    match (slot - N_CONC, name) {
      (0, None) => c.add_singleton_trait::<dyn Tr0>(move || build_dyn0(impl_idx, gen, body())),
      (0, Some(n)) => c.add_singleton_trait_with_name::<dyn Tr0>(n, move || build_dyn0(impl_idx, gen, body())),
      (1, None) => c.add_singleton_trait::<dyn Tr1>(move || build_dyn1(impl_idx, gen, body())),
      (1, Some(n)) => c.add_singleton_trait_with_name::<dyn Tr1>(n, move || build_dyn1(impl_idx, gen, body())),
      (2, None) => c.add_singleton_trait::<dyn Tr2>(move || build_dyn2(impl_idx, gen, body())),
      (2, Some(n)) => c.add_singleton_trait_with_name::<dyn Tr2>(n, move || build_dyn2(impl_idx, gen, body())),
      _ => unreachable!(),
    }
  }
}

/// Resolves `(slot, name)` through the Option-returning API.
pub fn resolve(c: &Container, slot: u8, name: Option<&str>) -> Option<Obs> {
  if slot < N_CONC {
    conc_match!(slot, N => c.get::<Svc<N>>(name).map(obs_of))
  } else {
    match slot - N_CONC {
      0 => c.get::<dyn Tr0>(name).map(obs_of),
      1 => c.get::<dyn Tr1>(name).map(obs_of),
      2 => c.get::<dyn Tr2>(name).map(obs_of),
      _ => unreachable!(),
    }
  }
}

// ------------------------------------------------------------------------------------------
// Local container (Rc, not thread-safe). Instances are the same structs; observations keep the
// Rc alive in a non-Send box.

pub struct LObs {
  pub ident: Ident,
  pub ptr: usize,
  pub deps: Vec<DepSum>,
  pub keep: Box<dyn Any>,
}

pub type LocalBody = Rc<dyn Fn() -> Vec<DepObs>>;

fn lbuild_dyn0(impl_idx: u8, gen: u64, deps: Vec<DepObs>) -> Rc<dyn Tr0> {
  conc_match!(impl_idx, N => Rc::new(Svc::<N>::make(gen, deps)))
}
fn lbuild_dyn1(impl_idx: u8, gen: u64, deps: Vec<DepObs>) -> Rc<dyn Tr1> {
  conc_match!(impl_idx, N => Rc::new(Svc::<N>::make(gen, deps)))
}
fn lbuild_dyn2(impl_idx: u8, gen: u64, deps: Vec<DepObs>) -> Rc<dyn Tr2> {
  conc_match!(impl_idx, N => Rc::new(Svc::<N>::make(gen, deps)))
}

fn lreg_conc<const N: usize>(c: &mut LocalContainer, kind: Kind, name: Option<&str>, gen: u64, body: LocalBody) {
  match (kind, name) {
    (Kind::Singleton, None) => c.add_singleton(move || Svc::<N>::make(gen, body())),
    (Kind::Singleton, Some(n)) => c.add_singleton_with_name(n, move || Svc::<N>::make(gen, body())),
    (Kind::Transient, None) => c.add_transient(move || Svc::<N>::make(gen, body())),
    (Kind::Transient, Some(n)) => c.add_transient_with_name(n, move || Svc::<N>::make(gen, body())),
    (Kind::Instance, _) => unreachable!("LocalContainer has no add_instance"),
  }
}

pub fn lregister(c: &mut LocalContainer, slot: u8, name: Option<&str>, kind: Kind, impl_idx: u8, gen: u64, body: LocalBody) {
  if slot < N_CONC {
    conc_match!(slot, N => lreg_conc::<N>(c, kind, name, gen, body))
  } else {
    match (slot - N_CONC, name) {
      (0, None) => c.add_singleton_trait::<dyn Tr0>(move || lbuild_dyn0(impl_idx, gen, body())),
      (0, Some(n)) => c.add_singleton_trait_with_name::<dyn Tr0>(n, move || lbuild_dyn0(impl_idx, gen, body())),
      (1, None) => c.add_singleton_trait::<dyn Tr1>(move || lbuild_dyn1(impl_idx, gen, body())),
      (1, Some(n)) => c.add_singleton_trait_with_name::<dyn Tr1>(n, move || lbuild_dyn1(impl_idx, gen, body())),
      (2, None) => c.add_singleton_trait::<dyn Tr2>(move || lbuild_dyn2(impl_idx, gen, body())),
      (2, Some(n)) => c.add_singleton_trait_with_name::<dyn Tr2>(n, move || lbuild_dyn2(impl_idx, gen, body())),
      _ => unreachable!(),
    }
  }
}

fn lobs<K: ?Sized + Probe>(a: Rc<K>) -> LObs {
  LObs { ident: a.ident(), ptr: Rc::as_ptr(&a) as *const () as usize, deps: summarise(a.deps()), keep: Box::new(a) }
}

pub fn lresolve(c: &LocalContainer, slot: u8, name: Option<&str>) -> Option<LObs> {
  if slot < N_CONC {
    conc_match!(slot, N => c.get::<Svc<N>>(name).map(lobs))
  } else {
    match slot - N_CONC {
      0 => c.get::<dyn Tr0>(name).map(lobs),
      1 => c.get::<dyn Tr1>(name).map(lobs),
      2 => c.get::<dyn Tr2>(name).map(lobs),
      _ => unreachable!(),
    }
  }
}

thread_local! {
  /// Keeps locally resolved instances alive for the duration of one evaluation so that
  /// addresses are never reused while identities are compared.
  pub static LOCAL_KEEP: std::cell::RefCell<Vec<Box<dyn Any>>> = const { std::cell::RefCell::new(Vec::new()) };
}

/// A local resolution reported as a (Send) record for factories inside a LocalContainer:
/// identity only; the Rc itself is parked in `LOCAL_KEEP`.
pub fn lresolve_as_dep(c: &LocalContainer, slot: u8, name: Option<&str>) -> Option<Obs> {
  lresolve(c, slot, name).map(|l| {
    let o = Obs { ident: l.ident, ptr: l.ptr, deps: l.deps, keep: Box::new(()) };
    LOCAL_KEEP.with(|k| k.borrow_mut().push(l.keep));
    o
  })
}
