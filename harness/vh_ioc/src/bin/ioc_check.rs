//! ioc_check — runtime monitor for C18 (fibre_ioc): singletons once and shared, transients
//! fresh, keys isolated, latest registration wins, unregistered = None, cycles = panic.
//!
//! Evaluation families (picked by the shard RNG, `--only history|race|chain|cycle` to focus):
//!  * history: random registration/resolution histories against a map model on an instance
//!    container, the global container and a LocalContainer;
//!  * race: barrier-started threads resolving one singleton / transient / a key that is being
//!    re-registered, while other threads run histories on OTHER keys of the same container;
//!  * chain: factories that resolve other services (DAGs with diamonds, missing dependencies,
//!    dependencies in a second container), resolved from one or several threads;
//!  * cycle: a dependency cycle, run in a child process (`--child cycle ...`) so that a stack
//!    overflow / abort / hang is observed as such.

use fibre_ioc::{global, Container, LocalContainer};
use serde_json::{json, Value};
use std::cell::RefCell;
use std::collections::{BTreeMap, HashMap, HashSet};
use std::panic::{catch_unwind, AssertUnwindSafe};
use std::rc::Rc;
use std::sync::atomic::{AtomicBool, AtomicU64, Ordering};
use std::sync::{Arc, Barrier, Mutex, Weak};
use std::time::Duration;
use vh_core::cli::Args;
use vh_core::result::ShardResult;
use vh_core::rng::Rng;
use vh_core::{stamp, Fnv};
use vh_ioc::fam::*;
use vh_ioc::model::*;
use vh_ioc::proc;

const NAMES: [&str; 6] = ["", "a", "b", "A", "a b", "\u{e4}"];

/// Runs library code; a panic is returned as (message, location).
fn guarded<R>(f: impl FnOnce() -> R) -> Result<R, (String, String)> {
  match catch_unwind(AssertUnwindSafe(f)) {
    Ok(r) => Ok(r),
    Err(p) => Err((vh_core::panic_message(&*p), vh_core::last_panic_location())),
  }
}

/// A panic location outside the harness crates (fibre_ioc itself, once_cell, dashmap, std).
fn is_lib_loc(loc: &str) -> bool {
  !loc.contains("/vh_ioc/") && !loc.contains("/vh_core/")
}

struct Ctx {
  rng: Rng,
  res: ShardResult,
  args: Args,
  global_model: Model,
  iter: u64,
  findings: Vec<(Finding, Value)>,
  sig_counts: HashMap<String, u64>,
}

impl Ctx {
  fn report(&mut self, f: Finding, program: Value) {
    self.findings.push((f, program));
  }
  fn flush_findings(&mut self, family: &str) {
    let fs = std::mem::take(&mut self.findings);
    for (f, program) in fs {
      let n = self.sig_counts.entry(f.sig.clone()).or_insert(0);
      *n += 1;
      self.res.count(&format!("findings_by_signature/{}", f.sig.replace('/', "|")), 1);
      if *n <= 3 {
        let witness = json!({"family": family, "iteration": self.iter, "seed": self.args.seed, "shard": self.args.shard,
          "detail": f.detail, "program": program});
        self.res.violation(&f.sig, &f.summary, &self.args.replay_dir, &witness);
      }
    }
  }
}

fn pick_name(rng: &mut Rng, pool: &[Option<String>]) -> Option<String> {
  pool[rng.below(pool.len() as u64) as usize].clone()
}

fn name_pool(rng: &mut Rng) -> Vec<Option<String>> {
  let mut pool: Vec<Option<String>> = vec![None];
  let k = rng.range(1, 3);
  let mut idx: Vec<usize> = (0..NAMES.len()).collect();
  rng.shuffle(&mut idx);
  for i in 0..k as usize {
    pool.push(Some(NAMES[idx[i]].to_string()));
  }
  pool
}

fn slot_pool(rng: &mut Rng) -> Vec<u8> {
  let mut s: Vec<u8> = (0..N_SLOTS).collect();
  rng.shuffle(&mut s);
  let k = rng.range(2, 5) as usize;
  s.truncate(k);
  // make sure trait objects take part most of the time
  if !s.iter().any(|&x| x >= N_CONC) && rng.chance(3, 4) {
    s.push(N_CONC + rng.below(N_TRAIT as u64) as u8);
  }
  s
}

fn counting_body(calls: &Arc<AtomicU64>) -> FactoryBody {
  let c = calls.clone();
  Arc::new(move || {
    c.fetch_add(1, Ordering::SeqCst);
    Vec::new()
  })
}

#[derive(Clone, Copy, PartialEq, Debug)]
enum ContKind {
  Instance,
  Global,
  Local,
}

// ==========================================================================================
// history

#[derive(Debug, Clone)]
enum HOp {
  Reg { key: Key, kind: Kind, impl_idx: u8 },
  Get { key: Key },
}

fn gen_history(rng: &mut Rng, local: bool) -> Vec<HOp> {
  let names = name_pool(rng);
  let slots = slot_pool(rng);
  let n = rng.range(8, 48);
  let mut ops = Vec::new();
  for _ in 0..n {
    let slot = *rng.pick(&slots);
    let key = (slot, pick_name(rng, &names));
    if rng.chance(2, 5) {
      let kinds = if local { local_kinds_for(slot) } else { kinds_for(slot) };
      ops.push(HOp::Reg { key, kind: *rng.pick(kinds), impl_idx: rng.below(N_CONC as u64) as u8 });
    } else {
      ops.push(HOp::Get { key });
    }
  }
  ops
}

fn hop_json(ops: &[HOp]) -> Value {
  Value::Array(
    ops
      .iter()
      .map(|o| match o {
        HOp::Reg { key, kind, impl_idx } => json!(format!("register {:?} {} impl=Svc<{}>", kind, key_str(key), impl_idx)),
        HOp::Get { key } => json!(format!("get {}", key_str(key))),
      })
      .collect(),
  )
}

/// Runs a history on a thread-safe container against `model`. Returns (findings, nontrivial).
fn run_history_on(c: &Container, model: &mut Model, ops: &[HOp], res_counts: &mut BTreeMap<String, u64>) -> (Vec<Finding>, bool) {
  let mut findings = Vec::new();
  let mut rereg_then_get = false;
  let mut rereg_keys: HashSet<Key> = HashSet::new();
  let mut near_miss = false;
  for op in ops {
    match op {
      HOp::Reg { key, kind, impl_idx } => {
        let gen = next_gen();
        let calls = Arc::new(AtomicU64::new(0));
        let body = counting_body(&calls);
        if model.regs.contains_key(key) {
          rereg_keys.insert(key.clone());
        }
        let r = guarded(|| register(c, key.0, key.1.as_deref(), *kind, *impl_idx, gen, body));
        *res_counts.entry(format!("ops/register/{:?}/{}", kind, if key.0 < N_CONC { "concrete" } else { "trait" })).or_default() += 1;
        *res_counts.entry(format!("ops/register_named/{}", key.1.is_some())).or_default() += 1;
        match r {
          Ok(()) => model.register(key.clone(), *kind, gen, *impl_idx, calls),
          Err((msg, loc)) => {
            findings.push(finding("container", "unexpected-panic", "register", format!("register {} panicked at {}: {}", key_str(key), loc, msg), json!({"loc": loc})));
            break;
          }
        }
      }
      HOp::Get { key } => {
        let r = guarded(|| resolve(c, key.0, key.1.as_deref()));
        match r {
          Ok(got) => {
            *res_counts.entry(format!("outcomes/get/{}", if got.is_some() { "some" } else { "none" })).or_default() += 1;
            if got.is_none() && model.regs.keys().any(|k| (k.0 == key.0) != (k.1 == key.1)) {
              near_miss = true; // unregistered key that shares its type or its name with a registered one
            }
            if rereg_keys.contains(key) {
              rereg_then_get = true;
            }
            let pair = got.as_ref().map(|o| (o.ident, o.ptr));
            findings.extend(model.check_resolution("container", key, pair));
            if let Some(o) = got {
              KEEP.with(|k| k.borrow_mut().push(o.keep));
            }
          }
          Err((msg, loc)) => {
            findings.push(finding("container", "unexpected-panic", "get", format!("get {} panicked at {}: {}", key_str(key), loc, msg), json!({"loc": loc})));
            break;
          }
        }
      }
    }
  }
  (findings, rereg_then_get && near_miss)
}

thread_local! {
  /// Resolved instances stay alive until the end of the evaluation (no address reuse).
  static KEEP: RefCell<Vec<Box<dyn std::any::Any + Send + Sync>>> = const { RefCell::new(Vec::new()) };
}

fn clear_keep() {
  KEEP.with(|k| k.borrow_mut().clear());
  LOCAL_KEEP.with(|k| k.borrow_mut().clear());
}

fn run_history_local(ops: &[HOp], res_counts: &mut BTreeMap<String, u64>) -> (Vec<Finding>, bool) {
  let mut c = LocalContainer::new();
  let mut model = Model::default();
  let mut findings = Vec::new();
  let mut rereg_then_get = false;
  let mut rereg_keys: HashSet<Key> = HashSet::new();
  let mut near_miss = false;
  for op in ops {
    match op {
      HOp::Reg { key, kind, impl_idx } => {
        let gen = next_gen();
        let calls = Arc::new(AtomicU64::new(0));
        let cc = calls.clone();
        let body: LocalBody = Rc::new(move || {
          cc.fetch_add(1, Ordering::SeqCst);
          Vec::new()
        });
        if model.regs.contains_key(key) {
          rereg_keys.insert(key.clone());
        }
        *res_counts.entry(format!("ops/local_register/{:?}/{}", kind, if key.0 < N_CONC { "concrete" } else { "trait" })).or_default() += 1;
        match guarded(|| lregister(&mut c, key.0, key.1.as_deref(), *kind, *impl_idx, gen, body)) {
          Ok(()) => model.register(key.clone(), *kind, gen, *impl_idx, calls),
          Err((msg, loc)) => {
            findings.push(finding("local", "unexpected-panic", "register", format!("register {} panicked at {}: {}", key_str(key), loc, msg), json!({"loc": loc})));
            break;
          }
        }
      }
      HOp::Get { key } => match guarded(|| lresolve(&c, key.0, key.1.as_deref())) {
        Ok(got) => {
          *res_counts.entry(format!("outcomes/local_get/{}", if got.is_some() { "some" } else { "none" })).or_default() += 1;
          if got.is_none() && model.regs.keys().any(|k| (k.0 == key.0) != (k.1 == key.1)) {
            near_miss = true;
          }
          if rereg_keys.contains(key) {
            rereg_then_get = true;
          }
          let pair = got.as_ref().map(|o| (o.ident, o.ptr));
          findings.extend(model.check_resolution("local", key, pair));
          if let Some(o) = got {
            LOCAL_KEEP.with(|k| k.borrow_mut().push(o.keep));
          }
        }
        Err((msg, loc)) => {
          findings.push(finding("local", "unexpected-panic", "get", format!("get {} panicked at {}: {}", key_str(key), loc, msg), json!({"loc": loc})));
          break;
        }
      },
    }
  }
  (findings, rereg_then_get && near_miss)
}

fn eval_history(ctx: &mut Ctx) {
  let kind = match ctx.rng.below(10) {
    0..=3 => ContKind::Instance,
    4..=6 => ContKind::Global,
    _ => ContKind::Local,
  };
  let ops = gen_history(&mut ctx.rng, kind == ContKind::Local);
  let mut counts = BTreeMap::new();
  let (findings, nontrivial) = match kind {
    ContKind::Instance => {
      let c = Container::new();
      let mut m = Model::default();
      run_history_on(&c, &mut m, &ops, &mut counts)
    }
    ContKind::Global => {
      let mut m = std::mem::take(&mut ctx.global_model);
      let r = run_history_on(global(), &mut m, &ops, &mut counts);
      ctx.global_model = m;
      r
    }
    ContKind::Local => run_history_local(&ops, &mut counts),
  };
  for (k, v) in counts {
    ctx.res.count(&k, v);
  }
  ctx.res.count(&format!("evaluations/history/{:?}", kind), 1);
  if nontrivial {
    let mut h = Fnv::default();
    h.bytes(format!("{:?}{:?}", kind, ops).as_bytes());
    ctx.res.add_nontrivial(h.finish());
    ctx.res.count("nontrivial/history", 1);
  }
  if ctx.res.samples.iter().filter(|s| s["family"] == "history").count() < 1 {
    ctx.res.sample(json!({"family": "history", "container": format!("{:?}", kind), "ops": hop_json(&ops), "findings": findings.len()}), 8);
  }
  let program = json!({"container": format!("{:?}", kind), "ops": hop_json(&ops)});
  for f in findings {
    ctx.report(f, program.clone());
  }
  clear_keep();
  ctx.flush_findings("history");
}

include!("../inc/ioc_race.rs");
include!("../inc/ioc_chain.rs");
include!("../inc/ioc_cycle.rs");

fn main() {
  let args = Args::parse();
  vh_core::install_quiet_panic_hook();
  if args.get("child").is_some() {
    child_main(&args);
    return;
  }
  let mut res = ShardResult::new(&args.prop, "ioc_check", args.seed, args.shard);
  res.rule = "one evaluation = one generated program of one family: (history) 8-48 register/get operations over a random subset of \
    {Svc<0..6>, dyn Tr0..2} x {unnamed, up to 3 names incl. the empty string} on an instance container, the global container or a \
    LocalContainer, checked step by step against a map model; (race) 2-12 barrier-started threads resolving one singleton / transient / \
    key under re-registration whose factory counts and stalls, optionally with 1-3 threads running histories on other keys of the same \
    container; (chain) a random dependency DAG whose factories resolve other services, resolved from 1-4 threads; (cycle) a dependency \
    cycle executed in a child process. Non-trivial: history = contains a get after a re-registration of that key AND a get of an \
    unregistered key that shares its type or its name with a registered one; race = at least two resolutions overlapped the running \
    factory in real time (stamps); chain = the DAG has a node reached over two paths or from two threads; cycle = the child reached the \
    cycle (its first factory ran). Distinct = hash of the program (history: op sequence; race: shape + number of contenders + arrival \
    order; chain: DAG shape + thread count; cycle: variant parameters)."
    .into();
  let only = args.get("only").map(|s| s.to_string());
  let max_iter = args.get_u64("max-iter", u64::MAX);
  let mut ctx = Ctx {
    rng: Rng::new(args.shard_seed()),
    res,
    args: args.clone(),
    global_model: Model::default(),
    iter: 0,
    findings: Vec::new(),
    sig_counts: HashMap::new(),
  };
  while ctx.args.time_left() && ctx.iter < max_iter {
    ctx.iter += 1;
    let fam = match only.as_deref() {
      Some("history") => 0,
      Some("race") => 1,
      Some("chain") => 2,
      Some("cycle") => 3,
      _ => ctx.rng.weighted(&[40, 25, 20, 15]),
    };
    let r = catch_unwind(AssertUnwindSafe(|| match fam {
      0 => eval_history(&mut ctx),
      1 => eval_race(&mut ctx),
      2 => eval_chain(&mut ctx),
      _ => eval_cycle(&mut ctx),
    }));
    ctx.res.executions += 1;
    ctx.global_model.forget_addresses();
    if let Err(p) = r {
      let why = format!("HARNESS-PANIC in family {} at {}: {}", fam, vh_core::last_panic_location(), vh_core::panic_message(&*p));
      ctx.res.notes.push(why.clone());
      ctx.res.count("harness_panics", 1);
      ctx.res.inconclusive(&why);
      ctx.findings.clear();
      clear_keep();
    }
  }
  let elapsed = ctx.args.elapsed_s();
  ctx.res.write(&ctx.args.out, elapsed);
}
