//! Reference model for C18: a map `(slot, name) -> registration` with per-registration factory
//! counters and instance identities, and the rules of the property statement.

use crate::fam::{slot_name, Ident, Kind};
use serde_json::{json, Value};
use std::collections::{HashMap, HashSet};
use std::sync::atomic::{AtomicU64, Ordering};
use std::sync::Arc;

pub type Key = (u8, Option<String>);

pub fn key_str(k: &Key) -> String {
  match &k.1 {
    None => slot_name(k.0),
    Some(n) => format!("{}[{:?}]", slot_name(k.0), n),
  }
}

#[derive(Debug, Clone)]
pub struct Finding {
  pub sig: String,
  pub summary: String,
  pub detail: Value,
}

pub fn finding(component: &str, rule: &str, variant: &str, summary: String, detail: Value) -> Finding {
  Finding { sig: format!("C18/{}/{}/{}", component, rule, variant), summary, detail }
}

pub struct Reg {
  pub kind: Kind,
  pub gen: u64,
  pub impl_idx: u8,
  pub calls: Arc<AtomicU64>,
  /// Factory calls that happened at registration time (instances are built eagerly by the
  /// harness, so their counter starts at 1 and must stay there).
  pub base_calls: u64,
  pub resolves: u64,
  pub first: Option<(u64, usize)>,
  pub serials: HashSet<u64>,
  pub ptrs: HashSet<usize>,
}

#[derive(Default)]
pub struct Model {
  pub regs: HashMap<Key, Reg>,
  /// Every generation ever registered -> its key (to explain aliasing).
  pub gen_key: HashMap<u64, Key>,
}

impl Model {
  pub fn register(&mut self, key: Key, kind: Kind, gen: u64, impl_idx: u8, calls: Arc<AtomicU64>) {
    self.gen_key.insert(gen, key.clone());
    let base_calls = if kind == Kind::Instance { 1 } else { 0 };
    self.regs.insert(
      key,
      Reg { kind, gen, impl_idx, calls, base_calls, resolves: 0, first: None, serials: HashSet::new(), ptrs: HashSet::new() },
    );
  }

  /// Transient instances are only kept alive until the end of an evaluation; their addresses
  /// may be reused afterwards, so a model that outlives the evaluation (global container)
  /// must forget them. Serials stay (they are never reused).
  pub fn forget_addresses(&mut self) {
    for r in self.regs.values_mut() {
      if r.kind == Kind::Transient {
        r.ptrs.clear();
      }
    }
  }

  fn explain_foreign(&self, key: &Key, gen: u64) -> (&'static str, String) {
    match self.gen_key.get(&gen) {
      Some(k) if k == key => ("stale-registration", format!("an earlier registration (gen {}) of the same key", gen)),
      Some(k) if k.0 == key.0 => ("name-alias", format!("the registration of {} (same type, other name)", key_str(k))),
      Some(k) if k.1 == key.1 => ("type-alias", format!("the registration of {} (other type, same name)", key_str(k))),
      Some(k) => ("key-alias", format!("the registration of {}", key_str(k))),
      None => ("unknown-instance", format!("an instance of unknown generation {}", gen)),
    }
  }

  /// Checks one sequential resolution result against the model and updates it.
  /// `comp` = "container" (instance/global containers share their code) or "local".
  pub fn check_resolution(&mut self, comp: &str, key: &Key, got: Option<(Ident, usize)>) -> Vec<Finding> {
    let mut out = Vec::new();
    let ks = key_str(key);
    if !self.regs.contains_key(key) {
      if let Some((id, _)) = got {
        let (v, why) = self.explain_foreign(key, id.gen);
        out.push(finding(comp, "unregistered-key-resolved", v,
          format!("{} was never registered but resolved to {}", ks, why), json!({"key": ks, "got_gen": id.gen})));
      }
      return out;
    }
    let reg_gen = self.regs[key].gen;
    let Some((id, ptr)) = got else {
      out.push(finding(comp, "registered-key-resolved-none", "get", format!("{} is registered (gen {}) but get returned None", ks, reg_gen),
        json!({"key": ks, "gen": reg_gen})));
      return out;
    };
    if id.gen != reg_gen {
      let (v, why) = self.explain_foreign(key, id.gen);
      let rule = if v == "stale-registration" { "latest-registration-not-resolved" } else { "keys-alias" };
      out.push(finding(comp, rule, v, format!("{} (latest gen {}) resolved to {}", ks, reg_gen, why),
        json!({"key": ks, "expected_gen": reg_gen, "got_gen": id.gen})));
      return out;
    }
    let reg = self.regs.get_mut(key).unwrap();
    reg.resolves += 1;
    let calls = reg.calls.load(Ordering::SeqCst);
    match reg.kind {
      Kind::Instance | Kind::Singleton => {
        let want_calls = if reg.kind == Kind::Instance { reg.base_calls } else { 1 };
        if calls != want_calls {
          let rule = if calls > want_calls { "factory-called-more-than-once" } else { "factory-not-called" };
          out.push(finding(comp, "singleton", rule,
            format!("{}: {:?} factory ran {} time(s) after {} resolution(s), expected {}", ks, reg.kind, calls, reg.resolves, want_calls),
            json!({"key": ks, "calls": calls, "resolves": reg.resolves})));
        }
        match reg.first {
          None => reg.first = Some((id.serial, ptr)),
          Some((s, p)) => {
            if s != id.serial || p != ptr {
              out.push(finding(comp, "singleton", "different-instance",
                format!("{}: {:?} resolved to a different instance (serial {} ptr {:#x}) than before (serial {} ptr {:#x})", ks, reg.kind, id.serial, ptr, s, p),
                json!({"key": ks})));
            }
          }
        }
      }
      Kind::Transient => {
        if calls != reg.resolves {
          out.push(finding(comp, "transient", "factory-call-count",
            format!("{}: transient factory ran {} time(s) for {} resolution(s)", ks, calls, reg.resolves),
            json!({"key": ks, "calls": calls, "resolves": reg.resolves})));
        }
        if !reg.serials.insert(id.serial) || !reg.ptrs.insert(ptr) {
          out.push(finding(comp, "transient", "instance-not-fresh",
            format!("{}: transient resolution returned an instance seen before (serial {} ptr {:#x})", ks, id.serial, ptr),
            json!({"key": ks})));
        }
      }
    }
    out
  }
}
