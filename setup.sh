#!/bin/sh
# Builds the monitor harness from files on disk only (offline). Run once after a fresh restore.
set -e
cd "$(dirname "$0")/harness"
export CARGO_NET_OFFLINE=true
cp /repo/Cargo.lock Cargo.lock
cargo build --offline --profile verif --workspace --bins 2>&1 | tail -3
echo "setup ok"
