#!/bin/sh
# Runs one engine binary against another checkout of excsn/fibre (e.g. a scratch worktree
# carrying a mutation) without touching /repo:
#   with_tree.sh <tree> <pkg> <bin> [engine args...]
# A copy of the harness sources is made under <tree>/.vh (path deps rewritten to <tree>),
# built in <tree>/.vh/target, and the binary is executed with the given arguments.
set -e
TREE=$(cd "$1" && pwd); PKG=$2; BIN=$3; shift 3
H="$TREE/.vh"
mkdir -p "$H"
rsync -a --delete --exclude 'target*' --exclude Cargo.lock /verif/harness/ "$H/"
find "$H" -name Cargo.toml -exec sed -i "s#\"/repo/#\"$TREE/#g" {} +
cp "$TREE/Cargo.lock" "$H/Cargo.lock"
(cd "$H" && CARGO_NET_OFFLINE=true cargo build --offline --profile verif -p "$PKG" --bin "$BIN" 2>&1 | grep -E "^error|Finished" -A8 | tail -20)
exec "$H/target/verif/$BIN" "$@"
