#!/bin/bash
# wave3_recheck.sh MUT:PROP ... : run PROP's quick check against the scratch tree carrying wave-3 mutant MUT (e.g. C01:C04)
for pair in "$@"; do
  m=${pair%%:*}; p=${pair##*:}
  D=/tmp/mut-out3/$m/e
  VERIF_SEED=1 /verif/lib/scratch_check.sh $D/patch.diff quick $p > $D/recheck-$p.log 2>&1
  echo "$m under $p: $(grep -c VIOLATION $D/recheck-$p.log) violation lines; $(grep -h signature= $D/recheck-$p.log | head -3 | tr '\n' ' ' | cut -c1-200) $(grep '^\[check\] C' $D/recheck-$p.log | tail -1 | cut -c1-110)" >> /tmp/wave3.log
done
