#!/bin/bash
# try_seed.sh <patch.diff> <tier> <ID>... : apply a seeded change to /repo, run the checks, undo it.
P=$1; T=$2; shift 2
git -C /repo status --short | grep -q . && { echo "/repo not clean"; exit 2; }
git -C /repo apply "$P" || exit 2
for id in "$@"; do
  echo "=== $id $T"
  /verif/check $id $T 2>&1 | grep -E "^VIOLATION|signature=|^\[check\] C|broken|BUILD" | cut -c1-260
done
git -C /repo checkout -- .
git -C /repo status --short
