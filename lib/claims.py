"""Per-property claim texts for MANIFEST.json."""
HOOK_COMMITS = ["d339998", "f4e7f62", "f7fc266", "d9647b3"]

TRUST = ("Trusted: the harness adapters (1:1 forwarding), the stamp counter, the checkers in "
         "harness/vh_channels/src/oracle.rs. Decides only the executions produced; x86-TSO schedules natively.")

CLAIMS = {
    "C02": {
        "engine": "chan_stress",
        "text": "Held on every execution observed: thousands of generated multi-threaded scenarios per run over all 8 "
                "queue flavours (ring wrap, chunk/slab recycling sizes, batch and single forms, async and sync), "
                "schedule-perturbed at the library's atomic steps; per consumer handle the values of each producer "
                "handle must arrive in strictly increasing send sequence.",
        "design_ref": "DESIGN.md §2 C02",
        "note": TRUST,
        "technique": "runtime monitoring: recorded client-boundary history + per-producer order checker under chaos scheduling",
    },
    "C05": {
        "engine": "chan_stress",
        "text": "Bounded-progress restatement: closed scenarios of blocking operations must terminate; a violation needs "
                "three quiet windows with a healthy scheduler canary, every unfinished thread inside a blocking call, and "
                "an operation shown possible by the history or released by a legal spurious wake.",
        "design_ref": "DESIGN.md §1.7, §2 C05",
        "note": TRUST + " Liveness is decided as bounded progress at quiescence, never by a wall-clock deadline alone.",
        "technique": "runtime monitoring: stuck oracle (quiescence + history enabledness + spurious-wake nudge) under chaos scheduling",
    },
}

NOT_APPLICABLE = {p: "monitor under construction in this round (see DESIGN.md build order); not claimed yet"
                  for p in ["C01", "C03", "C04", "C06", "C07", "C08", "C09", "C10", "C11", "C12", "C13", "C14",
                            "C15", "C16", "C17", "C18", "C19", "C20"]}
