"""Per-property claim texts for MANIFEST.json."""
import subprocess

def _hook_commits():
    out = subprocess.run(["git", "-C", "/repo", "log", "--format=%h %s"], capture_output=True, text=True).stdout
    return [l.split()[0] for l in out.splitlines() if l.split(" ", 1)[1].startswith("verif hook")][::-1]

HOOK_COMMITS = _hook_commits()

TRUST_CH = ("Trusted: the harness adapters (1:1 forwarding to the library), the global stamp counter, the checkers in "
            "harness/vh_channels/src/oracle.rs. Decides only the executions produced in this run; native runs see x86-TSO schedules.")
TRUST_SEQ = ("Trusted: the reference model inside the engine (encodes the property statement), the generator. Decides only the "
             "generated cases of this run.")

def ch(text, technique, ref, engine="chan_stress", note=TRUST_CH):
    return {"engine": engine, "text": text, "design_ref": ref, "note": note, "technique": technique}

CLAIMS = {
    "C01": ch("Held on every execution observed (apart from listed known findings): generated closed multi-threaded scenarios over all "
              "ten point-to-point flavours (the nine of fibre plus the experimental lock-free mpmc_exp ring) and every send/recv form (single, batch, in-place, timed, async with cancellation, "
              "conversions), perturbed at the library's atomic steps; multiset conservation (no phantom, no duplicate, no loss after "
              "a drain to Disconnected, failed operations hand back exactly input[sent..]) plus the deterministic async stepper.",
              "runtime monitoring: recorded client-boundary histories + conservation/hand-back checker under chaos scheduling; deterministic poll/drop stepper",
              "DESIGN.md §2 C01", engine="chan_stress+chan_stepper"),
    "C02": ch("Held on every execution observed: per consumer handle the values of each producer handle arrive in strictly increasing "
              "send sequence, over all 9 queue flavours (incl. mpmc_exp) with ring wrap / chunk and slab recycling sizes, batch and single forms.",
              "runtime monitoring: recorded history + per-producer order checker under chaos scheduling", "DESIGN.md §2 C02"),
    "C03": ch("Held on every execution observed: interval-sound capacity inequality (completed sends minus receives already invoked "
              "never exceeds capacity; rendezvous: 0), len()<=capacity() probes, oneshot single success.",
              "runtime monitoring: recorded history + capacity inequality over call/return stamps", "DESIGN.md §2 C03"),
    "C04": ch("Held on every execution observed: life-cycle scenarios (clone/close/drop/convert racing operations, receivers leaving "
              "early) checked against interval-sound disconnect rules D2-D9 (no value after Disconnected, no premature "
              "Disconnected/Closed, sends after the last receiver fail, closed handles reject, close idempotent, no Empty on a "
              "provably drained+disconnected channel).",
              "runtime monitoring: recorded history + disconnect-protocol rules over handle life cycles", "DESIGN.md §2 C04"),
    "C05": ch("Bounded-progress restatement: closed scenarios of blocking operations must terminate; a violation needs three quiet "
              "windows with a healthy scheduler canary, every unfinished thread inside a blocking call, and an operation shown "
              "possible by the history or released by a legal spurious wake.",
              "runtime monitoring: stuck oracle (quiescence + history enabledness + spurious-wake nudge) under chaos scheduling",
              "DESIGN.md §1.7, §2 C05",
              note=TRUST_CH + " Liveness is decided as bounded progress at quiescence, never by a wall-clock deadline alone."),
    "C06": ch("Held on every program/execution observed (apart from listed known findings): deterministic programs that create, "
              "poll, re-poll with a different waker and drop futures of every async API; at quiescence every pending future is "
              "polled spontaneously - Ready proves a lost wake; conservation after the final drain proves cancel safety; plus "
              "threaded async/cancel scenarios (futures also dropped at the moment their waker fires, producers pausing until "
              "everything sent was received) under the stuck oracle; the broadcast spmc ring runs through the same stepper with a "
              "per-receiver sequence oracle, topic recv() futures are kept pending across steps of the topic model.",
              "runtime monitoring: deterministic stepper with spontaneous re-poll oracle + threaded chaos runs with stuck oracle",
              "DESIGN.md §1.6, §2 C06", engine="chan_stepper+chan_stress"),
    "C09": ch("Held on every execution observed: every payload (clones included) owns a ledger slot bumped by its Drop; after all "
              "handles and futures are gone each constructed payload was dropped exactly once, for threaded teardown orders and "
              "for the stepper's cancel/drop programs; payloads also own a heap cell so a double drop is a memory error.",
              "runtime monitoring: drop ledger on instrumented payloads over chaos teardown scenarios + stepper",
              "DESIGN.md §2 C09", engine="chan_stress+chan_stepper"),
    "C18": ch("Held on every case observed (apart from the listed cross-thread cycle hang): registration/resolution histories over "
              "typed, named and trait-object keys on instance, global and local containers against a map model; barrier-started "
              "singleton races (factory count, ptr_eq); dependency DAGs; cycles in child processes (panic required).",
              "runtime monitoring: reference-model differential + concurrent race monitors + child-process cycle probes",
              "DESIGN.md §2 C18", engine="ioc_check", note=TRUST_SEQ),
    "C19": ch("Held on every case observed: generated logger trees / appender wirings / event scripts run in child processes; the "
              "parent computes the expected per-appender delivery from the statement's routing rule and checks exactly-once, "
              "log==tracing, per-thread order, no loss of events returned before shutdown, streams drain then disconnect.",
              "runtime monitoring: child-process executions checked against a routing reference model",
              "DESIGN.md §2 C19", engine="log_check", note=TRUST_SEQ),
    "C20": ch("Held on every case observed: JSON-lines records re-parsed (independent parser + serde_json) and round-tripped for "
              "arbitrary Unicode/control/non-finite input, pattern encoder total with verbatim message, rolling writer audited "
              "after every write/clock step/restart (contiguous records, no tear/dup/reorder, retention, no clobbering).",
              "runtime monitoring: generated inputs against round-trip and directory-audit oracles with an injected clock",
              "DESIGN.md §2 C20", engine="enc_roller", note=TRUST_SEQ),
}

CLAIMS.update({
    "C07": ch("Held on every execution observed: one sender (single/batch/in-place/try/async forms) and 1-5 receivers that are "
              "cloned, converted, closed and dropped mid-run; every receiver's sequence must be exactly the sent sequence from "
              "its creation position (no gap, duplicate, reorder), Disconnected only after the sender is gone and the view "
              "drained, sender at most capacity ahead of what each live receiver was asked to take, and closed scenarios must "
              "terminate (stuck oracle) when slow receivers leave.",
              "runtime monitoring: recorded histories + exact per-receiver prefix checker + backpressure inequality + stuck oracle",
              "DESIGN.md §2 C07", engine="spmc_stress"),
    "C11": ch("Held on every execution observed: 2-12 threads on sync and async handles of one cache over few keys, all eight "
              "policies, janitor/opportunistic/explicit maintenance, chaos on the Hybrid locks; per-key interval rules (no "
              "foreign value, no stale read, no resurrection, no new-old inversion), compute counters exact, or_insert once.",
              "runtime monitoring: recorded (key, write id) histories + per-key forgetting-register interval checker",
              "DESIGN.md §2 C11", engine="cache_hist"),
    "C12": ch("Held on every program observed: random TTL/TTI/grace configurations with the frozen virtual clock stepped onto, "
              "1 ns before and 1 ns after every deadline; every read API (sync and async) compared with a reference model: "
              "nothing served at or after expiry, unexpired entries of an unbounded cache present, stale-while-revalidate rules.",
              "runtime monitoring: sequential differential against a virtual-time reference model",
              "DESIGN.md §2 C12", engine="cache_seq", note=TRUST_SEQ),
    "C13": ch("Held on every execution observed: stress phases (varied costs incl. 0 and > capacity, overwrites, removes, clear, "
              "loader, all maintenance paths) for every policy x shard count, then a quiescent audit: current_cost equals the "
              "summed cost of resident entries, and after a maintenance fixpoint resident cost <= capacity.",
              "runtime monitoring: invariant audit at quiescent points after chaos stress",
              "DESIGN.md §2 C13", engine="cache_hist"),
    "C14": ch("Held on every program observed (apart from the listed FIFO finding): >10^5 generated admit/access/remove/evict/clear "
              "sequences per second over all eight policies against a bookkeeping model (victims tracked, never twice, costs "
              "exact, enough freed, final drain returns exactly the tracked set; LRU/FIFO exact order).",
              "runtime monitoring: sequential differential against a tracked-set reference model",
              "DESIGN.md §2 C14", engine="policy_seq", note=TRUST_SEQ),
    "C15": ch("Held on every execution observed: waves of 2-24 thread and task callers on missing keys with an instrumented, gated "
              "loader: one invocation per miss, never overlapping per key, one shared Arc, resident with cost, independence of "
              "other keys (same and other stripe), refresh racing misses, every caller returns (stuck oracle).",
              "runtime monitoring: loader invocation log + caller history checker + stuck oracle under chaos",
              "DESIGN.md §2 C15", engine="loader"),
    "C16": ch("Held on every execution observed: recording listener with stamps; notifications must name an inserted value, never "
              "twice, no later read returns it, reason matches cause (virtual clock for Expired), and with a keeping-up "
              "listener every removal has exactly one notification after quiescence.",
              "runtime monitoring: listener event log checked against the operation history",
              "DESIGN.md §2 C16", engine="cache_hist"),
    "C17": ch("Held on every scenario observed: contents sized around the iterator batch, 1-16 shards, entries expiring before and "
              "between batches (clock stepped between next() calls): iter / iter_snapshot / stream / to_snapshot yield exactly the "
              "live entries once; snapshot -> bincode -> restore under each policy keeps mapping, costs, current_cost, no longer "
              "lifetimes, and stays within capacity after further inserts.",
              "runtime monitoring: sequential differential against a content/virtual-time model",
              "DESIGN.md §2 C17", engine="cache_seq", note=TRUST_SEQ),
})

CLAIMS.update({
    "C08": ch("Held on every program/execution observed: >10^5 generated sequential programs per run over sender and receiver "
              "handles (subscribe/unsubscribe/clone/close/drop/convert/publish/receive) compared step by step with a mailbox "
              "model (routing by subscription at publish time, drop-newest only when full, Disconnected exactly when all "
              "senders are gone and the mailbox is drained); concurrent publishers racing subscription changes checked by "
              "interval rules and the stuck oracle (publishing never blocks, receivers do observe Disconnected).",
              "runtime monitoring: sequential differential against a mailbox model + concurrent interval checker",
              "DESIGN.md §2 C08", engine="topic_check", note=TRUST_SEQ),
    "C10": ch("Held on every execution/program observed: occupancy counters asserted against the exclusion matrix inside every "
              "guard, plain field == exclusive sections, closed scripts of blocking/async/cancelled/try_ acquisitions terminate "
              "(stuck oracle), try_ under a held lock returns None, queued writer acquires while readers overlap; stepper "
              "programs over the lock futures with the spontaneous re-poll oracle and an idle-lock check at the end.",
              "runtime monitoring: guard-occupancy assertions + stuck oracle under chaos + deterministic future stepper",
              "DESIGN.md §2 C10", engine="lock_stress"),
})

NOT_APPLICABLE = {}
