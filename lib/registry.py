"""Which engines decide which property, with their budgets (seconds) per tier."""

def stress(budget_q=25, budget_t=300, **kw):
    e = {"bin": "chan_stress", "pkg": "vh_channels", "budget": {"quick": budget_q, "thorough": budget_t}}
    e.update(kw)
    return e

COMMON_ASSUME = [
    "the harness adapters forward 1:1 to the library methods of the same name",
    "call/return stamps come from one SeqCst counter; only real-time precedence (a.ret < b.call) is used",
    "coverage is limited to the scenarios, schedules and chaos delays this run produced",
]

def stepper(budget_q=12, budget_t=180, **kw):
    e = {"bin": "chan_stepper", "pkg": "vh_channels", "budget": {"quick": budget_q, "thorough": budget_t},
         "shards": {"quick": 8, "thorough": 16}}
    e.update(kw)
    return e

REGISTRY = {
    "C01": {"engines": [stress(budget_q=20), stepper(budget_q=6, budget_t=90)], "assumptions": COMMON_ASSUME},
    "C02": {"engines": [stress()], "assumptions": COMMON_ASSUME},
    "C03": {"engines": [stress()], "assumptions": COMMON_ASSUME},
    "C04": {"engines": [stress()], "assumptions": COMMON_ASSUME},
    "C05": {"engines": [stress()], "assumptions": COMMON_ASSUME + [
        "progress verdicts: a thread counts as stuck only after 3 quiet windows with a healthy scheduler canary, all "
        "unfinished threads inside blocking calls, and either a legal spurious wake releases it or the history model "
        "shows its operation enabled"]},
    "C06": {"engines": [stepper(), stress(budget_q=15, budget_t=240)], "assumptions": COMMON_ASSUME + [
        "stepper: one in-flight future per handle; a Stream poll is followed through to Ready (abandoning the wrapper "
        "drops no library future); wakers never poll inline"]},
    "C09": {"engines": [stress(budget_q=20), stepper(budget_q=6, budget_t=90)], "assumptions": COMMON_ASSUME},
}
