"""Which engines decide which property, with their budgets (seconds) per tier."""

def stress(budget_q=25, budget_t=200, **kw):
    e = {"bin": "chan_stress", "pkg": "vh_channels", "budget": {"quick": budget_q, "thorough": budget_t}}
    e.update(kw)
    return e

COMMON_ASSUME = [
    "the harness adapters forward 1:1 to the library methods of the same name",
    "call/return stamps come from one SeqCst counter; only real-time precedence (a.ret < b.call) is used",
    "coverage is limited to the scenarios, schedules and chaos delays this run produced",
]

def stepper(budget_q=12, budget_t=180, **kw):
    e = {"bin": "chan_stepper", "pkg": "vh_channels", "budget": {"quick": budget_q, "thorough": budget_t},
         "shards": {"quick": 8, "thorough": 16}}
    e.update(kw)
    return e

def eng(bin, pkg, budget_q=20, budget_t=240, **kw):
    e = {"bin": bin, "pkg": pkg, "budget": {"quick": budget_q, "thorough": budget_t}}
    e.update(kw)
    return e

def miri(bin, pkg="vh_channels", budget_t=150, shards=16, **kw):
    """Thorough-only slice: the same engine interpreted by Miri (tiny shapes; cfg!(miri) shrinks the generators)."""
    e = {"bin": bin, "pkg": pkg, "kind": "miri", "tiers": ["thorough"], "budget": {"quick": 30, "thorough": budget_t},
         "shards": {"thorough": shards}}
    e.update(kw)
    return e

def asan(bin, pkg="vh_channels", budget_t=80, shards=16, **kw):
    """Thorough-only slice: the same engine built with AddressSanitizer + LeakSanitizer."""
    e = {"bin": bin, "pkg": pkg, "kind": "asan", "tiers": ["thorough"], "budget": {"quick": 30, "thorough": budget_t},
         "shards": {"thorough": shards}}
    e.update(kw)
    return e

def tsan(bin, pkg="vh_channels", budget_t=100, shards=16, **kw):
    """Thorough-only slice: the same engine built with ThreadSanitizer (std rebuilt with -Zbuild-std)."""
    e = {"bin": bin, "pkg": pkg, "kind": "tsan", "tiers": ["thorough"], "budget": {"quick": 30, "thorough": budget_t},
         "shards": {"thorough": shards}}
    e.update(kw)
    return e

SAN_ASSUME = [
    "sanitizer slices (thorough): Miri runs with the experimental aliasing models off (stacked borrows rejects the rendezvous futures, tree borrows "
    "the mpmc Stream registration: questions outside the 20 properties) and only on the tiny shapes it can afford; ASan/LSan see "
    "only heap/stack errors adjacent to red zones and leaks reachable at exit",
]

SEQ_ASSUME = [
    "the reference model in the engine encodes the property statement literally; where the statement leaves behaviour "
    "open every allowed outcome is accepted",
    "coverage is limited to the generated cases of this run",
]

REGISTRY = {
    "C01": {"engines": [stress(budget_q=20), stepper(budget_q=6, budget_t=90), asan("chan_stress"), tsan("chan_stress"),
                        miri("chan_stepper")],
            "assumptions": COMMON_ASSUME + SAN_ASSUME},
    "C02": {"engines": [stress(budget_q=16), eng("chan_seq", "vh_channels", budget_q=6, budget_t=120, shards={"quick": 8, "thorough": 16}),
                        eng("spmc_stress", "vh_channels", budget_q=6, budget_t=90, shards={"quick": 8, "thorough": 16}),
                        stepper(budget_q=6, budget_t=90), tsan("chan_stress"), miri("chan_stress")],
            "assumptions": COMMON_ASSUME + SAN_ASSUME},
    "C03": {"engines": [stress(budget_q=18), eng("chan_seq", "vh_channels", budget_q=7, budget_t=120, shards={"quick": 8, "thorough": 16}),
                        stepper(budget_q=6, budget_t=90), tsan("chan_stress")],
            "assumptions": COMMON_ASSUME + SAN_ASSUME},
    "C04": {"engines": [stress(budget_q=18), eng("spmc_stress", "vh_channels", budget_q=6, budget_t=120, shards={"quick": 8, "thorough": 16}),
                        eng("topic_check", "vh_channels", budget_q=6, budget_t=120, shards={"quick": 8, "thorough": 16}),
                        eng("chan_seq", "vh_channels", budget_q=5, budget_t=120, shards={"quick": 8, "thorough": 16}),
                        stepper(budget_q=6, budget_t=90)],
            "assumptions": COMMON_ASSUME},
    "C05": {"engines": [stress(budget_q=20), eng("spmc_stress", "vh_channels", budget_q=7, budget_t=90, shards={"quick": 8, "thorough": 16}),
                        asan("chan_stress", budget_t=90), tsan("chan_stress")], "assumptions": COMMON_ASSUME + SAN_ASSUME + [
        "progress verdicts: a thread counts as stuck only after 3 quiet windows with a healthy scheduler canary, all "
        "unfinished threads inside blocking calls, and either a legal spurious wake releases it or the history model "
        "shows its operation enabled"]},
    "C06": {"engines": [stepper(), stress(budget_q=15, budget_t=180),
                        eng("spmc_stress", "vh_channels", budget_q=6, budget_t=90, shards={"quick": 8, "thorough": 16}),
                        eng("topic_check", "vh_channels", budget_q=5, budget_t=60, shards={"quick": 8, "thorough": 16}, args={"all": {"only": "seq"}}),
                        asan("chan_stepper", budget_t=90), asan("chan_stress"),
                        miri("chan_stepper"), miri("chan_stress")], "assumptions": COMMON_ASSUME + SAN_ASSUME + [
        "stepper: one in-flight future per handle; a Stream poll is followed through to Ready (abandoning the wrapper "
        "drops no library future); wakers never poll inline"]},
    "C09": {"engines": [stress(budget_q=20), stepper(budget_q=6, budget_t=90), asan("chan_stress"), asan("chan_stepper", budget_t=60), tsan("chan_stress"),
                        miri("chan_stress"), miri("chan_stepper")], "assumptions": COMMON_ASSUME + SAN_ASSUME},
    "C18": {"engines": [eng("ioc_check", "vh_ioc")], "assumptions": SEQ_ASSUME + [
        "cycle cases run in child processes; a hang is a violation only when every task of the child is provably asleep "
        "(no CPU tick, no context switch over 1.2 s), otherwise inconclusive"]},
    "C19": {"engines": [eng("log_check", "vh_logging", grace=60)], "assumptions": SEQ_ASSUME + [
        "every generated case runs in a child process (logging init is process-global); custom and file appenders only"]},
    "C20": {"engines": [eng("enc_roller", "vh_logging")], "assumptions": SEQ_ASSUME + [
        "the roller is driven through the cfg-gated accessors with a scripted forward-moving clock over a private directory"]},
    "C07": {"engines": [eng("spmc_stress", "vh_channels", budget_q=22, budget_t=200), stepper(budget_q=5, budget_t=60),
                        asan("spmc_stress"), tsan("spmc_stress"), miri("spmc_stress")],
            "assumptions": COMMON_ASSUME + SAN_ASSUME + [
        "a clone's start position is exact because the cloning thread is the only user of the parent handle"]},
    "C11": {"engines": [eng("cache_hist", "vh_cache", budget_q=20, budget_t=180)], "assumptions": COMMON_ASSUME},
    "C13": {"engines": [eng("cache_hist", "vh_cache", budget_q=20, budget_t=180)], "assumptions": COMMON_ASSUME + [
        "quiescence = workers joined, then run_maintenance repeated until current_cost and contents are identical for "
        "three consecutive rounds (at least 40 rounds)"]},
    "C15": {"engines": [eng("loader", "vh_cache", budget_q=20, budget_t=180)], "assumptions": COMMON_ASSUME},
    "C16": {"engines": [eng("cache_hist", "vh_cache", budget_q=20, budget_t=180)], "assumptions": COMMON_ASSUME},
    "C12": {"engines": [eng("cache_seq", "vh_cache", budget_q=20, budget_t=240)], "assumptions": SEQ_ASSUME + [
        "frozen virtual clock (hook H2); the janitor is parked with maintenance_chance(1<<31) so time and maintenance only "
        "move when the program says so"]},
    "C14": {"engines": [eng("policy_seq", "vh_cache", budget_q=20, budget_t=240)], "assumptions": SEQ_ASSUME + [
        "the model follows how the cache drives a policy: on_admit on every write, AdmitAndEvict victims leave the model, "
        "evict victims get no on_remove"]},
    "C17": {"engines": [eng("cache_seq", "vh_cache", budget_q=20, budget_t=240)], "assumptions": SEQ_ASSUME},
    "C08": {"engines": [eng("topic_check", "vh_channels", budget_q=20, budget_t=180), asan("topic_check", budget_t=90)], "assumptions": SEQ_ASSUME + SAN_ASSUME + [
        "a receiver cloned after every sender handle is gone is unspecified by the statement: nothing is asserted about it"]},
    "C10": {"engines": [eng("lock_stress", "vh_channels", budget_q=20, budget_t=180), asan("lock_stress"), tsan("lock_stress"), miri("lock_stress")],
            "assumptions": COMMON_ASSUME + SAN_ASSUME + [
        "writer-not-starved is decided logically: readers may complete at most 10^6 further read sections after the writer "
        "called write(); the writer thread runs without injected delays in that scenario"]},
}
