"""Which engines decide which property, with their budgets (seconds) per tier."""

def stress(budget_q=25, budget_t=300, **kw):
    e = {"bin": "chan_stress", "pkg": "vh_channels", "budget": {"quick": budget_q, "thorough": budget_t}}
    e.update(kw)
    return e

COMMON_ASSUME = [
    "the harness adapters forward 1:1 to the library methods of the same name",
    "call/return stamps come from one SeqCst counter; only real-time precedence (a.ret < b.call) is used",
    "coverage is limited to the scenarios, schedules and chaos delays this run produced",
]

REGISTRY = {
    "C01": {"engines": [stress()], "assumptions": COMMON_ASSUME},
    "C02": {"engines": [stress()], "assumptions": COMMON_ASSUME},
    "C03": {"engines": [stress()], "assumptions": COMMON_ASSUME},
    "C04": {"engines": [stress()], "assumptions": COMMON_ASSUME},
    "C05": {"engines": [stress()], "assumptions": COMMON_ASSUME + [
        "progress verdicts: a thread counts as stuck only after 3 quiet windows with a healthy scheduler canary, all "
        "unfinished threads inside blocking calls, and either a legal spurious wake releases it or the history model "
        "shows its operation enabled"]},
    "C06": {"engines": [stress()], "assumptions": COMMON_ASSUME},
    "C09": {"engines": [stress()], "assumptions": COMMON_ASSUME},
}
