#!/bin/bash
# confirm_queue.sh <worker-id> ID/x ... : confirm seeded changes one after another in /tmp/confirm-wt<worker-id>
W=$1; shift
for m in "$@"; do
  [ -f /tmp/mut-out/$m/confirm.json ] && grep -q '"repo_head"' /tmp/mut-out/$m/confirm.json && [ -z "${FORCE:-}" ] && { echo "skip $m"; continue; }
  /verif/lib/confirm_seed.sh /tmp/mut-out/$m /tmp/confirm-wt$W
done
