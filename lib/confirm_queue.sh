#!/bin/bash
# confirm_queue.sh <worker-id> ID/x ... : confirm seeded changes one after another in /tmp/confirm-wt<worker-id>
# (ROOT=/tmp/mut-out by default)
W=$1; shift
ROOT=${ROOT:-/tmp/mut-out}
for m in "$@"; do
  [ -f $ROOT/$m/confirm.json ] && grep -q '"repo_head"' $ROOT/$m/confirm.json && [ -z "${FORCE:-}" ] && { echo "skip $m"; continue; }
  /verif/lib/confirm_seed.sh $ROOT/$m /tmp/confirm-wt$W
done
