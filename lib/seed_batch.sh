#!/bin/bash
# seed_batch.sh <tier> <root> ID/x ... : run the property's own check against each seeded change (serially, in /repo)
T=$1; ROOT=$2; shift 2
for m in "$@"; do
  id=${m%/*}
  P=$ROOT/$m/patch.diff
  [ -f "$P" ] || { echo "$m: no patch"; continue; }
  git -C /repo status --short | grep -q . && { echo "/repo not clean"; exit 2; }
  git -C /repo apply "$P" || { echo "$m: does not apply"; continue; }
  /verif/check $id $T > $ROOT/$m/check_$T.txt 2>&1; rc=$?
  git -C /repo checkout -- .
  echo "$m rc=$rc $(grep -E 'signature=' $ROOT/$m/check_$T.txt | sed 's/occurrences.*//' | tr -d ' ' | tr '\n' ' ' | cut -c1-300)"
done
git -C /verif checkout -- evidence 2>/dev/null
