"""Sanitizer slices of the thorough tier: the same engines, run under Miri or built with ASan+LSan.

The engine binaries keep deciding their own (behavioural) oracles; in addition a sanitizer
report on stderr becomes a violation whose signature names the tool, the kind of report and the
first frame inside /repo, and whose replay file is the saved report.

  kind "miri": cargo +nightly miri run (aliasing models off, isolation off), one process per shard,
               each with its own -Zmiri-seed (scheduler / weak-memory / weak-CAS randomness).
  kind "asan": cargo +nightly build -Zsanitizer=address into target-asan, then native shards.
  kind "tsan": cargo +nightly build -Zsanitizer=thread -Zbuild-std into target-tsan, then native shards
               (happens-before race detection at 5-10x; the unchanged tree is report-free).

Anything else that makes a sanitizer process die (unsupported operation in Miri, timeout, OOM)
is a note (inconclusive), never a violation.
"""
import json, os, re, subprocess, time

ROOT = os.path.dirname(os.path.dirname(os.path.abspath(__file__)))
HARNESS = os.path.join(ROOT, "harness")
NCPU = os.cpu_count() or 8

# The aliasing models are switched off: stacked borrows rejects every future that hands out a pointer to its pinned
# slot (rendezvous), tree borrows rejects the mpmc Stream registration that keeps a pointer to a field of the (Unpin)
# AsyncReceiver across polls. Both are questions about Rust's experimental aliasing rules, not about any of the 20
# properties; Miri still reports data races, dangling / out-of-bounds / uninitialised accesses, invalid values, leaks.
MIRI_BASE = "-Zmiri-disable-isolation -Zmiri-disable-stacked-borrows -Zmiri-backtrace=full"

REPO_FRAME = re.compile(r"(?:at |--> )(/repo/[^\s:]+):(\d+)")
FN_FRAME = re.compile(r"^\s*\d+: (.+)$")


def _slug(s, n=60):
    s = re.sub(r"0x[0-9a-f]+|alloc\d+|<\d+>|\d+", "N", s.lower())
    s = re.sub(r"[^a-z]+", "-", s).strip("-")
    return s[:n].rstrip("-")


def _clean_fn(fn):
    fn = re.sub(r"::h[0-9a-f]{16}$", "", fn.strip())
    fn = re.sub(r"\{closure[^}]*\}", "closure", fn)
    # drop generic arguments, innermost first
    for _ in range(12):
        n = re.sub(r"(?<=[A-Za-z0-9_])(?:::)?<[^<>]*>", "", fn)
        if n == fn:
            break
        fn = n
    fn = re.sub(r"\s+as\s+[^>]*", "", fn)  # "<T as Trait>::m" -> "<T>::m"
    fn = fn.replace("<", "").replace(">", "")
    fn = re.sub(r"\s+", "", fn)
    return fn[:80] or "?"


SAN_FRAME = re.compile(r"#\d+ (?:0x[0-9a-f]+ in )?(.+?) (/repo/\S+?):(\d+)")


def _first_repo_frame(text):
    """function name (generic arguments stripped) of the first backtrace frame located in /repo"""
    lines = text.splitlines()
    for i, l in enumerate(lines):
        if "/repo/" not in l:
            continue
        m = SAN_FRAME.search(l)  # ASan / TSan: "#2 [0x.. in] func /repo/file.rs:12:3"
        if m:
            return _clean_fn(m.group(1))
        m = REPO_FRAME.search(l)  # Miri: "N: func" on the previous line, "at /repo/file.rs:12:3" here
        if m:
            for j in (i - 1, i):
                if j >= 0:
                    fm = FN_FRAME.match(lines[j])
                    if fm:
                        return _clean_fn(fm.group(1))
            return os.path.basename(m.group(1))
    return "no-repo-frame"


def classify_miri(text):
    """-> (kind, detail) for a genuine report, or None"""
    m = re.search(r"^error: (Undefined Behavior|memory leaked|deadlock|Data race)[^\n]*", text, re.M)
    if not m:
        return None
    if "Borrows rules it violated are still experimental" in text:
        return None  # aliasing-model report (cannot happen with the models off; kept as a guard)
    line = m.group(0)
    if "Data race" in line or "data race" in line.lower():
        kind = "data-race"
    elif "memory leaked" in line:
        kind = "leak"
    elif "deadlock" in line:
        kind = "deadlock"
    else:
        kind = "ub-" + _slug(line.split("Undefined Behavior:", 1)[-1], 40)
    tail = text[m.start():]
    return kind, line.strip(), _first_repo_frame(tail)


def classify_asan(text):
    m = re.search(r"ERROR: (AddressSanitizer|LeakSanitizer): ([^\n]*)", text)
    if not m:
        return None
    tool, rest = m.group(1), m.group(2)
    if tool == "LeakSanitizer":
        kind = "leak"
    else:
        kind = _slug(rest.split(" on ")[0].split(" (")[0], 40) or "report"
    tail = text[m.start():]
    return kind, m.group(0).strip(), _first_repo_frame(tail)


def classify_tsan(text):
    m = re.search(r"WARNING: ThreadSanitizer: ([^\n(]*)", text)
    if not m:
        return None
    kind = _slug(m.group(1), 40) or "report"
    return kind, m.group(0).strip(), _first_repo_frame(text[m.start():])


def _violation(pid, tool, cls, errpath, seed, shard, cmd):
    kind, line, frame = cls
    sig = f"{pid}/{tool}/{kind}/{frame}"
    rdir = os.path.join(ROOT, "replays")
    os.makedirs(rdir, exist_ok=True)
    rp = os.path.join(rdir, re.sub(r"[^A-Za-z0-9_.-]+", "_", sig)[:120] + f"-s{seed}-sh{shard}.log")
    with open(rp, "w") as f:
        f.write("# command: " + " ".join(cmd) + "\n")
        f.write(open(errpath, errors="replace").read()[-60000:])
    return {"signature": sig, "summary": f"{tool}: {line} (first /repo frame: {frame})", "replay": rp}


def run_special(kind, pid, tier, seed, eng, workdir, log, build):
    results, notes = [], []
    budget = eng["budget"][tier]
    shards = eng.get("shards", {}).get(tier, NCPU)
    args = eng.get("args", {}).get(tier, eng.get("args", {}).get("all", {}))
    replay_dir = os.path.join(ROOT, "replays")
    env = dict(os.environ)
    env["CARGO_NET_OFFLINE"] = "true"
    env.pop("RUSTFLAGS", None)
    tool = kind

    def shard_cmd(i, out, b):
        c = ["--prop", pid, "--tier", tier, "--seed", str(seed), "--shard", str(i), "--shards", str(shards),
             "--out", out, "--budget-s", f"{b:.1f}", "--replay-dir", replay_dir]
        for k, v in args.items():
            c += [f"--{k}", str(v)]
        return c

    if kind == "miri":
        env["CARGO_TARGET_DIR"] = os.path.join(HARNESS, "target-miri")
        base = ["cargo", "+nightly", "miri", "run", "--offline", "-q", "-p", eng["pkg"], "--bin", eng["bin"], "--"]
        # warm-up: builds the sysroot and the crates once (a zero-budget run), so shards do not race on the build lock
        env["MIRIFLAGS"] = MIRI_BASE
        t0 = time.time()
        wout = os.path.join(workdir, f"miri-{eng['bin']}-warm.json")
        r = subprocess.run(base + shard_cmd(9999, wout, 0.0), cwd=HARNESS, env=env, stdout=subprocess.DEVNULL,
                           stderr=subprocess.PIPE, text=True, timeout=3600)
        if r.returncode != 0 and not os.path.exists(wout):
            cls = classify_miri(r.stderr)
            if cls is None:
                notes.append(f"miri warm-up of {eng['bin']} failed (rc={r.returncode}): {r.stderr.strip()[-300:]}")
                return results, notes
        log(f"miri build+warm-up ok ({time.time()-t0:.1f}s): {eng['bin']}")

        def launch(i, b):
            out = os.path.join(workdir, f"miri-{eng['bin']}-{i}.json")
            errp = out.replace(".json", ".stderr")
            e = dict(env)
            e["MIRIFLAGS"] = MIRI_BASE + f" -Zmiri-seed={seed * 1000 + i}" + (
                " -Zmiri-preemption-rate=0.05" if i % 3 == 1 else "") + (
                " -Zmiri-compare-exchange-weak-failure-rate=0.4" if i % 2 == 1 else "")
            cmd = base + shard_cmd(i, out, b)
            p = subprocess.Popen(cmd, cwd=HARNESS, env=e, stdout=subprocess.DEVNULL, stderr=open(errp, "w"))
            return {"p": p, "out": out, "err": errp, "i": i, "cmd": cmd, "t0": time.time()}
        classify = classify_miri
        grace = eng.get("grace", 240)
    elif kind == "asan":
        tdir = os.path.join(HARNESS, "target-asan")
        ok = build([eng["pkg"]], profile="verif", toolchain="nightly", target_dir=tdir,
                   extra_env={"RUSTFLAGS": "-Zsanitizer=address -Cforce-frame-pointers=yes --cfg excsn_fibre_verif"},
                   extra_args=["--target", "x86_64-unknown-linux-gnu"])
        if not ok:
            notes.append("asan build failed")
            return results, notes
        binp = os.path.join(tdir, "x86_64-unknown-linux-gnu", "verif", eng["bin"])
        env["ASAN_OPTIONS"] = "detect_leaks=1:halt_on_error=1:abort_on_error=0:detect_stack_use_after_return=1:symbolize=1"
        env["ASAN_SYMBOLIZER_PATH"] = "/usr/bin/llvm-symbolizer"
        env["LSAN_OPTIONS"] = "report_objects=0"

        def launch(i, b):
            out = os.path.join(workdir, f"asan-{eng['bin']}-{i}.json")
            errp = out.replace(".json", ".stderr")
            cmd = [binp] + shard_cmd(i, out, b)
            p = subprocess.Popen(cmd, cwd=HARNESS, env=env, stdout=subprocess.DEVNULL, stderr=open(errp, "w"))
            return {"p": p, "out": out, "err": errp, "i": i, "cmd": cmd, "t0": time.time()}
        classify = classify_asan
        grace = eng.get("grace", 90)
    elif kind == "tsan":
        tdir = os.path.join(HARNESS, "target-tsan")
        ok = build([eng["pkg"]], profile="verif", toolchain="nightly", target_dir=tdir,
                   extra_env={"RUSTFLAGS": "-Zsanitizer=thread --cfg excsn_fibre_verif --cfg excsn_fibre_verif_tsan"},
                   extra_args=["-Zbuild-std", "--target", "x86_64-unknown-linux-gnu", "--bin", eng["bin"]])
        if not ok:
            notes.append("tsan build failed")
            return results, notes
        binp = os.path.join(tdir, "x86_64-unknown-linux-gnu", "verif", eng["bin"])
        env["TSAN_OPTIONS"] = "halt_on_error=1 exitcode=66 report_signal_unsafe=0 report_thread_leaks=0 second_deadlock_stack=1 history_size=4"

        def launch(i, b):
            out = os.path.join(workdir, f"tsan-{eng['bin']}-{i}.json")
            errp = out.replace(".json", ".stderr")
            cmd = [binp] + shard_cmd(i, out, b)
            p = subprocess.Popen(cmd, cwd=HARNESS, env=env, stdout=subprocess.DEVNULL, stderr=open(errp, "w"))
            return {"p": p, "out": out, "err": errp, "i": i, "cmd": cmd, "t0": time.time()}
        classify = classify_tsan
        grace = eng.get("grace", 120)
    else:
        notes.append(f"unknown engine kind {kind}")
        return results, notes

    deadline = time.time() + budget
    pending = [launch(i, budget) for i in range(shards)]
    next_i = shards
    seen_sigs = set()
    while pending:
        time.sleep(0.3)
        for pr in list(pending):
            rc = pr["p"].poll()
            if rc is None:
                if time.time() - pr["t0"] > budget + grace:
                    pr["p"].kill()
                    pr["p"].wait()
                    pending.remove(pr)
                    notes.append(f"{tool} {eng['bin']} shard {pr['i']} exceeded its budget by {grace}s and was stopped (inconclusive)")
                continue
            pending.remove(pr)
            res = None
            if os.path.exists(pr["out"]):
                try:
                    res = json.load(open(pr["out"]))
                except Exception:
                    res = None
            errtxt = open(pr["err"], errors="replace").read()
            cls = classify(errtxt) if rc != 0 else None
            if res is None:
                res = {"engine": f"{eng['bin']}@{tool}", "executions": 0, "nontrivial": [], "counters": {},
                       "violations": [], "inconclusive": [], "notes": [], "samples": []}
            else:
                res["engine"] = f"{eng['bin']}@{tool}"
            if cls is not None:
                v = _violation(pid, tool, cls, pr["err"], seed, pr["i"], pr["cmd"])
                if v["signature"] not in seen_sigs:
                    seen_sigs.add(v["signature"])
                res.setdefault("violations", []).append(v)
                res.setdefault("counters", {})[f"{tool}_reports"] = 1
            elif rc is not None and rc < 0 and kind != "miri":
                import signal as _sig
                try:
                    sname = _sig.Signals(-rc).name
                except Exception:
                    sname = f"SIG{-rc}"
                v = _violation(pid, tool, ("process-died-" + sname, f"process killed by {sname} without a sanitizer report", eng["bin"]),
                               pr["err"], seed, pr["i"], pr["cmd"])
                res.setdefault("violations", []).append(v)
            elif rc != 0:
                early = any("stops early" in n for n in res.get("notes", []))
                if not early:
                    notes.append(f"{tool} {eng['bin']} shard {pr['i']} exited rc={rc} without a sanitizer report: {errtxt.strip()[-240:]}")
            res.setdefault("counters", {})[f"{tool}_processes"] = 1
            results.append(res)
            # a sanitizer process ends at its first report or when an execution leaked threads: start another
            left = deadline - time.time()
            if left > (60 if kind == "miri" else 5) and next_i < shards * 40:
                # the fresh process gets only the time that is left
                pending.append(launch(next_i, left))
                next_i += 1
    return results, notes
