#!/bin/bash
# scratch_check.sh <patch.diff> <tier> <ID> [<ID>...]
# Runs `./check <ID> <tier>` for each ID against a scratch worktree of /repo that carries the patch, from a scratch
# copy of /verif whose harness path-dependencies point at that worktree. Neither /repo's working tree nor /verif's
# evidence / replays are touched, so it can run next to a regular check pass. The worktree lives at
# $SCRATCH/repo so that panic locations still contain "/repo/" (some oracles attribute panics by that substring).
# The copy keeps its target directories between calls (incremental builds). Remove $SCRATCH when done:
#   git -C /repo worktree remove --force $SCRATCH/repo; rm -rf $SCRATCH
S=${SCRATCH:-/tmp/m3}
PATCH=$(readlink -f "$1"); TIER=$2; shift 2
mkdir -p "$S"
if [ ! -d "$S/repo" ]; then
  git -C /repo worktree add -q --detach "$S/repo" HEAD || exit 3
fi
git -C "$S/repo" checkout -q --detach "$(git -C /repo rev-parse HEAD)" 2>/dev/null
git -C "$S/repo" checkout -q -- . && git -C "$S/repo" clean -fdq -e target
if [ "$PATCH" != "/dev/null" ]; then
  git -C "$S/repo" apply "$PATCH" || { echo "PATCH DOES NOT APPLY"; exit 3; }
fi
rsync -a --delete --exclude 'target*' --exclude /work --exclude /replays --exclude /.git --exclude /evidence --exclude /seeded /verif/ "$S/verif/"
find "$S/verif/harness" -name Cargo.toml -exec sed -i "s#\"/repo/#\"$S/repo/#g" {} +
mkdir -p "$S/verif/evidence" "$S/verif/work" "$S/verif/replays"
rc_all=0
for id in "$@"; do
  (cd "$S/verif" && ./check "$id" "$TIER" 2>&1 | grep -E "^\[check\] (C[0-9]+ |BUILD)|VIOLATION|KNOWN-FINDING|signature=" | cut -c1-260)
  rc=${PIPESTATUS[0]}
done
git -C "$S/repo" checkout -q -- . && git -C "$S/repo" clean -fdq -e target
