#!/usr/bin/env python3
"""Writes /verif/MANIFEST.json from lib/registry.py + lib/claims.py."""
import json, os, sys, subprocess
ROOT = os.path.dirname(os.path.dirname(os.path.abspath(__file__)))
sys.path.insert(0, os.path.join(ROOT, "lib"))
from registry import REGISTRY
from claims import CLAIMS, NOT_APPLICABLE, HOOK_COMMITS

ENGINE_DOC = {
    "chan_stress": "threaded chaos workloads over the point-to-point flavours (incl. mpmc_exp) + client-boundary history checkers + stuck oracle + drop ledger",
    "chan_stepper": "deterministic single-threaded poll / re-poll / drop explorer with spontaneous re-poll (lost-wake) oracle; broadcast oracle for spmc",
    "chan_seq": "sequential differential of the queue flavours against a VecDeque model",
    "spmc_stress": "threaded broadcast spmc workloads + per-receiver sequence / backpressure checker + stuck oracle",
    "topic_check": "topic pub/sub: sequential differential incl. kept pending recv futures, concurrent interval rules, late-clone checks",
    "lock_stress": "HybridMutex / HybridRwLock: threaded occupancy monitors + stuck oracle, and a stepper over the lock futures",
    "cache_hist": "concurrent cache histories: per-key register rules, quiescent accounting audit, listener rules (virtual clock)",
    "cache_seq": "sequential cache programs against a virtual-time model (expiry, iteration, snapshot/restore)",
    "policy_seq": "eviction policies driven directly against a tracked-set model",
    "loader": "loader single-flight / progress scenarios with gated loaders and the stuck oracle",
    "ioc_check": "IoC container: map-model differential, singleton races, cycle probes in child processes",
    "log_check": "logging: generated logger trees and event scripts in child processes, routing rule of the statement, shutdown races, slow sink",
    "enc_roller": "JSON / pattern encoders with an independent parser, rolling file appender directory audit under a scripted clock",
}
KIND_DOC = {"miri": "Miri (aliasing models off) interpretation of the same engine", "asan": "AddressSanitizer+LeakSanitizer build of the same engine",
            "tsan": "ThreadSanitizer (-Zbuild-std) build of the same engine"}


def engines_of(pid, tier):
    out = []
    for e in REGISTRY[pid]["engines"]:
        if tier in e.get("tiers", ["quick", "thorough"]):
            k = e.get("kind", "native")
            out.append(e["bin"] if k == "native" else f"{e['bin']}@{k}")
    return out


checks = []
for pid in sorted(CLAIMS):
    c = CLAIMS[pid]
    kinds = sorted({e.get("kind", "native") for e in REGISTRY[pid]["engines"]} - {"native"})
    c = dict(c)
    c["engine"] = "quick: " + "+".join(engines_of(pid, "quick")) + " | thorough: " + "+".join(engines_of(pid, "thorough"))
    if kinds:
        c["technique"] = c["technique"] + "; thorough tier re-runs the engines under " + ", ".join(
            {"miri": "Miri", "asan": "ASan/LSan", "tsan": "ThreadSanitizer"}[k] for k in kinds) + " (sanitizer reports become violations)"
    checks.append({
        "property_id": pid,
        "quick_cmd": f"./check {pid} quick",
        "thorough_cmd": f"./check {pid} thorough",
        "evidence_file": f"/verif/evidence/{pid}.json",
        "replay_cmd_template": f"./check {pid} quick --replay {{path}}",
        "engine": c["engine"],
        "level_claimed": {"category": "exploration", "text": c["text"], "design_ref": c["design_ref"]},
        "level_note": c["note"],
        "technique": c["technique"],
    })
m = {
    "version": 1,
    "setup_cmd": "./setup.sh",
    "hooks": {
        "guard": "--cfg excsn_fibre_verif",
        "enable": "RUSTFLAGS='--cfg excsn_fibre_verif' (set in /verif/harness/.cargo/config.toml; the harness crates depend on /repo/* by path)",
        "baseline_off_cmd": "cd /repo && cargo nextest run --workspace --no-fail-fast --test-threads 8 --offline",
        "source_commits": HOOK_COMMITS,
        "add_only": True,
    },
    "engines": [
        {"name": b, "path": ("harness/%s/src/bin/%s.rs" % (next(e["pkg"] for p in REGISTRY for e in REGISTRY[p]["engines"] if e["bin"] == b), b)),
         "serves_properties": sorted(p for p in CLAIMS if any(e.get("bin") == b for e in REGISTRY[p]["engines"])),
         "kind_free_text": ENGINE_DOC.get(b, "") + "; sanitizer variants in the thorough tier: " + (", ".join(sorted({
             KIND_DOC[e.get("kind")] for p in REGISTRY for e in REGISTRY[p]["engines"] if e["bin"] == b and e.get("kind", "native") != "native"})) or "none")}
        for b in sorted({e["bin"] for p in REGISTRY for e in REGISTRY[p]["engines"]})
    ],
    "checks": checks,
    "notes": "All checks are runtime monitors over executions of the real code (level: exploration). See DESIGN.md.",
    "not_applicable": [{"property_id": p, "reason": r} for p, r in sorted(NOT_APPLICABLE.items())],
}
json.dump(m, open(os.path.join(ROOT, "MANIFEST.json"), "w"), indent=1)
print("wrote MANIFEST.json with", len(checks), "checks")
