#!/usr/bin/env python3
"""Writes /verif/MANIFEST.json from lib/registry.py + lib/claims.py."""
import json, os, sys, subprocess
ROOT = os.path.dirname(os.path.dirname(os.path.abspath(__file__)))
sys.path.insert(0, os.path.join(ROOT, "lib"))
from registry import REGISTRY
from claims import CLAIMS, NOT_APPLICABLE, HOOK_COMMITS

checks = []
for pid in sorted(CLAIMS):
    c = CLAIMS[pid]
    checks.append({
        "property_id": pid,
        "quick_cmd": f"./check {pid} quick",
        "thorough_cmd": f"./check {pid} thorough",
        "evidence_file": f"/verif/evidence/{pid}.json",
        "replay_cmd_template": f"./check {pid} quick --replay {{path}}",
        "engine": c["engine"],
        "level_claimed": {"category": "exploration", "text": c["text"], "design_ref": c["design_ref"]},
        "level_note": c["note"],
        "technique": c["technique"],
    })
m = {
    "version": 1,
    "setup_cmd": "./setup.sh",
    "hooks": {
        "guard": "--cfg excsn_fibre_verif",
        "enable": "RUSTFLAGS='--cfg excsn_fibre_verif' (set in /verif/harness/.cargo/config.toml; the harness crates depend on /repo/* by path)",
        "baseline_off_cmd": "cd /repo && cargo nextest run --workspace --no-fail-fast --test-threads 8 --offline",
        "source_commits": HOOK_COMMITS,
        "add_only": True,
    },
    "engines": [
        {"name": "chan_stress", "path": "harness/vh_channels/src/bin/chan_stress.rs",
         "serves_properties": [p for p in CLAIMS if any(e.get("bin") == "chan_stress" for e in REGISTRY[p]["engines"])],
         "kind_free_text": "threaded chaos workloads + client-boundary history checkers + stuck oracle + drop ledger"},
    ],
    "checks": checks,
    "notes": "All checks are runtime monitors over executions of the real code (level: exploration). See DESIGN.md.",
    "not_applicable": [{"property_id": p, "reason": r} for p, r in sorted(NOT_APPLICABLE.items())],
}
json.dump(m, open(os.path.join(ROOT, "MANIFEST.json"), "w"), indent=1)
print("wrote MANIFEST.json with", len(checks), "checks")
