#!/bin/bash
# focus.sh <bin> <prop> <secs> <shards> [engine args...] : run shards of one engine directly and summarise.
BIN=$1; PROP=$2; SECS=$3; N=$4; shift 4
(cd /verif/harness && cargo build --offline --profile verif 2>&1 | grep -E "^error" -A8); W=/verif/work/focus-$$; mkdir -p $W
for i in $(seq 0 $((N-1))); do
  /verif/harness/target/verif/$BIN --prop $PROP --tier quick --seed ${VERIF_SEED:-7} --shard $i --shards $N --out $W/$i.json --budget-s $SECS --replay-dir /verif/replays "$@" 2>$W/$i.err &
done
wait
python3 - $W <<'PY'
import json,sys,glob,collections
ex=0;sig=collections.Counter();inc=collections.Counter();notes=[]
for f in glob.glob(sys.argv[1]+'/*.json'):
    r=json.load(open(f)); ex+=r['executions']
    for v in r['violations']: sig[v['signature']]+=1
    for i in r['inconclusive']: inc[i[:110]]+=1
    notes+=r.get('notes',[])
print('executions',ex); print('violations',dict(sig)); print('inconclusive',dict(inc)); print('notes',notes[:5])
PY
rm -rf $W
