#!/bin/bash
# Confirms one seeded change in a scratch worktree (never in /repo):
#   confirm_seed.sh <src-dir with patch.diff, demo/, meta.json> <worktree> [skip-suite]
# Steps: patch applies to a clean checkout of /repo HEAD; the demo FAILS with the change; the
# package's existing tests (lib + integration, nextest) PASS with it; the demo PASSES without it.
# Writes <src-dir>/confirm.json and prints one summary line.
set -u
SRC=$1; WT=$2; SKIP=${3:-}
export CARGO_NET_OFFLINE=true
if [ ! -d "$WT" ]; then git -C /repo worktree add -q --detach "$WT" HEAD || exit 2; fi
cd "$WT" || exit 2
git checkout -q --detach "$(git -C /repo rev-parse HEAD)" 2>/dev/null
git checkout -q -- . ; git clean -fdq -e target
first=$(grep -m1 '^+++ b/' "$SRC/patch.diff" | sed 's#+++ b/##')
case "$first" in
  channels/*) PKG=fibre; DIR=channels;;
  cache/*) PKG=fibre_cache; DIR=cache;;
  ioc/*) PKG=fibre_ioc; DIR=ioc;;
  logging/*) PKG=fibre_logging; DIR=logging;;
  *) echo "cannot map $first to a package"; exit 2;;
esac
if ! git apply --check "$SRC/patch.diff" 2>"$SRC/confirm_apply.log"; then
  echo "{\"applies\": false}" > "$SRC/confirm.json"; echo "CONFIRM $SRC applies=false"; exit 1
fi
demos=$(ls "$SRC"/demo/*.rs 2>/dev/null)
names=""
for d in $demos; do names="$names $(basename "$d" .rs)"; done
run_demo() { # $1 = log
  local rc=0
  for d in $demos; do cp "$d" "$DIR/tests/"; done
  for n in $names; do
    timeout 900 cargo test -p $PKG --offline --test "$n" >>"$1" 2>&1 || rc=1
  done
  for d in $demos; do rm -f "$DIR/tests/$(basename "$d")"; done
  return $rc
}
git apply "$SRC/patch.diff"
: > "$SRC/confirm_demo_with.log"; run_demo "$SRC/confirm_demo_with.log"; with_rc=$?
suite_rc=-1
if [ -z "$SKIP" ]; then
  timeout 3000 cargo nextest run -p $PKG --offline --no-fail-fast --test-threads 6 >"$SRC/confirm_suite_with.log" 2>&1; suite_rc=$?
fi
# tests that failed are re-run alone (3x): timing-sensitive tests fail under load without any change
still=""
if [ -z "$SKIP" ] && [ $suite_rc -ne 0 ]; then
  for t in $(grep -E "^\s+(FAIL|SIGABRT|SIGSEGV|TIMEOUT)" "$SRC/confirm_suite_with.log" | awk '{print $NF}' | sort -u); do
    okc=0
    for k in 1 2 3; do
      timeout 900 cargo nextest run -p $PKG --offline -E "test(=$t)" >>"$SRC/confirm_rerun.log" 2>&1 && okc=$((okc+1))
    done
    [ $okc -lt 1 ] && still="$still $t($okc/3)"
  done
  [ -z "$still" ] && suite_rc=0
fi
git checkout -q -- . ; git clean -fdq -e target
: > "$SRC/confirm_demo_without.log"; run_demo "$SRC/confirm_demo_without.log"; without_rc=$?
git checkout -q -- . ; git clean -fdq -e target
summary=$(grep -E "Summary" "$SRC/confirm_suite_with.log" 2>/dev/null | tail -1 | sed 's/"/'"'"'/g')
failed=$(grep -E "^\s+(FAIL|SIGABRT|SIGSEGV|TIMEOUT)" "$SRC/confirm_suite_with.log" 2>/dev/null | awk '{print $NF}' | sort -u | tr '\n' ' ')
cat > "$SRC/confirm.json" <<EOF
{"applies": true, "package": "$PKG", "demo_fails_with_change": $([ $with_rc -ne 0 ] && echo true || echo false),
 "demo_passes_without_change": $([ $without_rc -eq 0 ] && echo true || echo false),
 "suite_with_change_rc": $suite_rc, "suite_summary": "$summary", "suite_failed_tests_first_run": "$failed", "suite_failed_again_alone": "$still",
 "repo_head": "$(git -C /repo rev-parse --short HEAD)"}
EOF
echo "CONFIRM $SRC with_rc=$with_rc without_rc=$without_rc suite_rc=$suite_rc failed=[$failed]"
