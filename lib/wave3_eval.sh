#!/bin/bash
# wave3_eval.sh ID...: for each ID (e.g. C05) confirm /tmp/mut-out3/ID/e in /tmp/confirm-wt3 and run the property's quick check against a scratch tree
for id in "$@"; do
  D=/tmp/mut-out3/$id/e
  [ -f $D/patch.diff ] || { echo "$id: no patch"; continue; }
  true
  VERIF_SEED=1 /verif/lib/scratch_check.sh $D/patch.diff quick $id > $D/check.log 2>&1
  echo "$id: $(grep -c VIOLATION $D/check.log) violation lines; $(grep '^\[check\] C' $D/check.log | tail -1 | cut -c1-140)" >> /tmp/wave3.log
done
