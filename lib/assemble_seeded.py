#!/usr/bin/env python3
"""Collects confirmed seeded changes from /tmp/mut-out into /verif/seeded/<Cxx>-<a|b>/ and writes seeded/README.md.

Per change: patch.diff, demo/ (the agent's demonstration), meta.json = the agent's description + my confirmation
(confirm.json written by lib/confirm_seed.sh) + which of my checks caught it (check_<tier>.txt written by lib/seed_batch.sh,
or entries of lib/seeded_overrides.json for results obtained by hand)."""
import json, os, re, shutil, glob, sys

SRCS = ["/tmp/mut-out", "/tmp/mut-out2", "/tmp/mut-out3"]
DST = "/verif/seeded"
over = {}
op = "/verif/lib/seeded_overrides.json"
if os.path.exists(op):
    over = json.load(open(op))

rows = []
for d in sorted(sum((glob.glob(f"{r}/C*/[abcde]") for r in SRCS), [])):
    pid, var = d.split("/")[-2:]
    sid = f"{pid}-{var}"
    mp, cp = f"{d}/meta.json", f"{d}/confirm.json"
    if not (os.path.exists(mp) and os.path.exists(f"{d}/patch.diff")):
        continue
    meta = json.load(open(mp))
    if meta.get("delivered") is False:
        continue  # the agent could not produce a change that keeps the existing tests green
    conf = json.load(open(cp)) if os.path.exists(cp) else None
    if conf and sid in over and "confirmed" in over[sid]:
        conf.update(over[sid]["confirmed"])
    out = f"{DST}/{sid}"
    os.makedirs(out, exist_ok=True)
    shutil.copy(f"{d}/patch.diff", f"{out}/patch.diff")
    if os.path.exists(f"{d}/patch_original.diff"):
        shutil.copy(f"{d}/patch_original.diff", f"{out}/patch_original.diff")
    if os.path.isdir(f"{d}/demo"):
        shutil.rmtree(f"{out}/demo", ignore_errors=True)
        shutil.copytree(f"{d}/demo", f"{out}/demo")
    caught = {}
    for tier in ("quick", "thorough"):
        f = f"{d}/check_{tier}.txt"
        if os.path.exists(f):
            txt = open(f).read()
            sigs = sorted(set(re.findall(r"signature=(\S+)", txt)))
            caught[f"{pid} {tier}"] = sigs
    # wave 3 was evaluated against scratch worktrees (lib/scratch_check.sh): first run, then again after strengthening
    if os.path.exists(f"{d}/check.log"):
        caught[f"{pid} quick (first run)"] = sorted(set(re.findall(r"signature=(\S+)", open(f"{d}/check.log").read())))
    for f in sorted(glob.glob(f"{d}/recheck-*.log")):
        P = re.search(r"recheck-(C\d+)\.log", f).group(1)
        caught[f"{P} quick (after strengthening)"] = sorted(set(re.findall(r"signature=(\S+)", open(f).read())))
    for k, v in over.get(sid, {}).get("caught", {}).items():
        caught[k] = v
    m = {
        "id": sid, "property": pid,
        "summary": meta.get("summary"), "mechanism": meta.get("mechanism"),
        "needs_to_manifest": meta.get("needs_to_manifest"), "files_changed": meta.get("files_changed"),
        "demo": {"cmd": meta.get("demo_cmd"), "failure_rate_or_time": meta.get("failure_rate_or_time")},
        "produced_by": "fresh sub-agent given only the property text and a scratch worktree (wave %d)" % (3 if var == "e" else 2 if var in "cd" else 1),
        "confirmed": conf,
        "checks_run": caught,
        "caught": any(v for v in caught.values()),
        "notes": over.get(sid, {}).get("notes", ""),
    }
    json.dump(m, open(f"{out}/meta.json", "w"), indent=1)
    rows.append(m)

with open(f"{DST}/README.md", "w") as f:
    f.write("# Independently seeded changes\n\nEach directory holds one change made by a fresh sub-agent that saw only the property text "
            "(`patch.diff`, its demonstration under `demo/`, `meta.json`). Apply with `git -C /repo apply seeded/<id>/patch.diff`, run the "
            "checks, undo with `git -C /repo checkout -- .` (`lib/try_seed.sh` does all three).\n\n"
            "| id | what was changed | needs | confirmed (applies / demo fails with / passes without / suite passes) | caught by (signatures) |\n|---|---|---|---|---|\n")
    for m in rows:
        c = m["confirmed"] or {}
        conf = "not yet" if not c else "{} / {} / {} / {}".format(
            "yes" if c.get("applies") else "NO", "yes" if c.get("demo_fails_with_change") else "NO",
            "yes" if c.get("demo_passes_without_change") else "NO",
            "yes" if c.get("suite_with_change_rc") == 0 else f"rc={c.get('suite_with_change_rc')}")
        caught = "; ".join(f"`{k}`: " + (", ".join(s.split('/', 1)[1] for s in v[:4]) + (" …" if len(v) > 4 else "") if v else "**missed**")
                           for k, v in m["checks_run"].items()) or "not run"
        summ = (m["summary"] or "").split(". ")[0][:160]
        need = (m["needs_to_manifest"] or "")[:140]
        f.write(f"| {m['id']} | {summ} | {need} | {conf} | {caught} |\n")
print(len(rows), "seeded changes assembled")
